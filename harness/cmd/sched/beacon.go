package main

// Beacon stream: drives the REAL beacon application with the VRF backend
// (BeginBlock, VRFProve transactions with real ECVRF proofs) on a mock
// application state whose registry holds generated nodes, and records after
// every operation the state that feeds the elections -- epoch, scheduled
// transition, VRF state (alpha, collected proofs, PrevState), the entropy
// stored for the scheduler and every node's ElectionEligibleAfter -- as Coq
// correspondence cases for Verif.Sched.Beacon.btrace.

import (
	"bytes"
	"encoding/hex"
	"encoding/json"
	"fmt"
	"os"
	"sort"
	"strings"

	beacon "github.com/oasisprotocol/oasis-core/go/beacon/api"
	"github.com/oasisprotocol/oasis-core/go/common/cbor"
	"github.com/oasisprotocol/oasis-core/go/common/crypto/signature"
	memorySigner "github.com/oasisprotocol/oasis-core/go/common/crypto/signature/signers/memory"
	"github.com/oasisprotocol/oasis-core/go/common/node"
	"github.com/oasisprotocol/oasis-core/go/consensus/api/transaction"
	abciAPI "github.com/oasisprotocol/oasis-core/go/consensus/cometbft/api"
	beaconApp "github.com/oasisprotocol/oasis-core/go/consensus/cometbft/apps/beacon"
	beaconState "github.com/oasisprotocol/oasis-core/go/consensus/cometbft/apps/beacon/state"
	consensusState "github.com/oasisprotocol/oasis-core/go/consensus/cometbft/apps/consensus/state"
	registryState "github.com/oasisprotocol/oasis-core/go/consensus/cometbft/apps/registry/state"
	registry "github.com/oasisprotocol/oasis-core/go/registry/api"

	"verifharness/internal/coqout"
	"verifharness/internal/prng"
)

const epochInvalid = ^uint64(0)

type BOp struct {
	K      string `json:"k"` // begin | prove | register | deregister
	Height uint64 `json:"h,omitempty"`
	Root   string `json:"root,omitempty"` // begin: last state root hash of the block (hex)
	Node   int    `json:"node,omitempty"` // index into BCase.Keys
	Epoch  uint64 `json:"epoch,omitempty"`
	Bad    string `json:"bad,omitempty"`  // prove: "" valid | "alpha" proof over another alpha | "bits" corrupted proof
	Rekey  bool   `json:"rekey,omitempty"` // register: the node comes back with a new VRF key
}
type BNode struct {
	Key  int    `json:"key"`
	Elig uint64 `json:"elig"`
}
type BCase struct {
	Interval, Delay, Thresh uint64
	Epoch                   uint64   `json:"epoch"`
	FutureHeight            uint64   `json:"future_height"`
	NoFuture                bool     `json:"no_future,omitempty"`
	Keys                    []string `json:"keys"`  // node ids (hex)
	Nodes                   []BNode  `json:"nodes"` // initially registered
	Ops                     []BOp    `json:"ops"`
}

type bObs struct {
	Blk    string // begin: the block entropy the implementation used (hex)
	Height uint64 // height the operation ran at
	Beta   string // prove: beta of the submitted proof (hex)
	Res    int
	Epoch  uint64
	Future *[2]uint64
	HasVrf bool
	VEpoch uint64
	Alpha  string // Coq term
	Pi     [][2]string
	HQ     bool
	After  uint64
	Prev   *struct {
		Pi  [][2]string
		Can bool
	}
	Beacon string // Coq term of option (N*N)
	Status [][2]string
}

type bRunner struct {
	c      *BCase
	st     abciAPI.MockApplicationState
	cfg    *abciAPI.MockApplicationStateConfig
	app    *beaconApp.Application
	gen    map[int]int // VRF key generation per node
	blocks []struct {
		id      string
		entropy []byte
	}
	height uint64
	root   []byte
}

func (r *bRunner) vrfSigner(nodeIdx int) signature.Signer {
	seed := append(hx(r.c.Keys[nodeIdx]), byte(r.gen[nodeIdx]))
	s, err := memorySigner.NewFromSeed(seed[1:33])
	must(err)
	s.(*memorySigner.Signer).UnsafeSetRole(signature.SignerVRF)
	return s
}

func (r *bRunner) setNode(ctx *abciAPI.Context, idx int, elig uint64) {
	rs := registryState.NewMutableState(ctx.State())
	n := &node.Node{Versioned: cbor.NewVersioned(node.LatestNodeDescriptorVersion), ID: pk(r.c.Keys[idx]), Expiration: 1 << 40}
	n.Consensus.ID = pk(r.c.Keys[idx])
	n.VRF.ID = r.vrfSigner(idx).Public()
	sn := &node.MultiSignedNode{}
	sn.Blob = cbor.Marshal(n)
	existing, _ := rs.Node(ctx, n.ID)
	must(rs.SetNode(ctx, existing, n, sn))
	must(rs.SetNodeStatus(ctx, n.ID, &registry.NodeStatus{ElectionEligibleAfter: beacon.EpochTime(elig)}))
}

func bClassify(err error) int {
	if err == nil {
		return 0
	}
	s := err.Error()
	for k, v := range map[string]int{"timekeeping broken": 10, "height mismatch": 11, "no VRF state": 1, "premature VRF proof": 2,
		"tx not from a node": 3, "proof for invalid epoch": 4, "failed to verify beta": 5, "failed to deserialize raw proof": 5,
		"different proof": 6} {
		if strings.Contains(s, k) {
			return v
		}
	}
	return 99
}

func (r *bRunner) ctx(mode abciAPI.ContextMode) *abciAPI.Context {
	r.cfg.LastHeight = int64(r.height) - 1
	r.cfg.StateRootHash = r.root
	r.st.UpdateMockApplicationStateConfig(r.cfg)
	return r.st.NewContext(mode)
}

func (r *bRunner) observe(res int) bObs {
	ctx := r.ctx(abciAPI.ContextEndBlock)
	defer ctx.Close()
	o := bObs{Res: res, Alpha: "(ALow 0 0)", Beacon: "None"}
	bs := beaconState.NewMutableState(ctx.State())
	ep, _, err := bs.GetEpoch(ctx)
	must(err)
	o.Epoch = uint64(ep)
	fu, err := bs.GetFutureEpoch(ctx)
	must(err)
	if fu != nil {
		o.Future = &[2]uint64{uint64(fu.Epoch), uint64(fu.Height)}
	}
	piList := func(m map[signature.PublicKey]*signature.Proof) [][2]string {
		var out [][2]string
		for k, p := range m {
			out = append(out, [2]string{hex.EncodeToString(k[:]), hex.EncodeToString(p.UnsafeToHash())})
		}
		sort.Slice(out, func(i, j int) bool { return out[i][0] < out[j][0] })
		return out
	}
	vs, err := bs.VRFState(ctx)
	must(err)
	if vs != nil {
		o.HasVrf, o.VEpoch, o.HQ, o.After = true, uint64(vs.Epoch), vs.AlphaIsHighQuality, uint64(vs.SubmitAfter)
		o.Pi = piList(vs.Pi)
		if vs.PrevState != nil {
			o.Prev = &struct {
				Pi  [][2]string
				Can bool
			}{piList(vs.PrevState.Pi), vs.PrevState.CanElectCommittees}
			// the high-quality candidate: the betas of PrevState in node-id order
			var betas [][]byte
			var bt []string
			for _, e := range o.Prev.Pi {
				betas = append(betas, hx(e[1]))
				bt = append(bt, num(e[1]))
			}
			if betas == nil {
				betas = [][]byte{}
			}
			if bytes.Equal(vs.Alpha, beaconApp.VerifAlpha(ctx, vs.Epoch, nil, betas)) {
				o.Alpha = fmt.Sprintf("(AHigh %d %s)", vs.Epoch, coqout.List(bt))
			}
		}
		for _, b := range r.blocks {
			if bytes.Equal(vs.Alpha, beaconApp.VerifAlpha(ctx, vs.Epoch, b.entropy, nil)) {
				o.Alpha = fmt.Sprintf("(ALow %d %s)", vs.Epoch, num(b.id))
			}
		}
	}
	if be, err := bs.Beacon(ctx); err == nil && be != nil {
		o.Beacon = "(Some (0, 0))"
		for _, b := range r.blocks {
			if bytes.Equal(be, beaconApp.GetBeacon(ep, beaconApp.VerifProdEntropyCtx(), b.entropy)) {
				o.Beacon = fmt.Sprintf("(Some (%d, %s))", uint64(ep), num(b.id))
			}
		}
	}
	rs := registryState.NewMutableState(ctx.State())
	nodes, err := rs.Nodes(ctx)
	must(err)
	for _, n := range nodes {
		stt, err := rs.NodeStatus(ctx, n.ID)
		must(err)
		o.Status = append(o.Status, [2]string{hex.EncodeToString(n.ID[:]), fmt.Sprint(uint64(stt.ElectionEligibleAfter))})
	}
	return o
}

// runB executes the case; perm reorders the prove transactions inside every block (determinism twin).
func runB(c *BCase, permSeed uint64) (obs []bObs, panicked string) {
	defer func() {
		if e := recover(); e != nil {
			panicked = fmt.Sprint(e)
		}
	}()
	cfg := &abciAPI.MockApplicationStateConfig{}
	st := abciAPI.NewMockApplicationState(cfg)
	r := &bRunner{c: c, st: st, cfg: cfg, app: beaconApp.New(), gen: map[int]int{}, height: 1, root: []byte("genesis root")}
	func() {
		ictx := r.ctx(abciAPI.ContextInitChain)
		defer ictx.Close()
		must(consensusState.NewMutableState(ictx.State()).SetChainContext(ictx, chainContext))
		bs := beaconState.NewMutableState(ictx.State())
		must(bs.SetConsensusParameters(ictx, &beacon.ConsensusParameters{Backend: beacon.BackendVRF, VRFParameters: &beacon.VRFParameters{
			AlphaHighQualityThreshold: c.Thresh, Interval: int64(c.Interval), ProofSubmissionDelay: int64(c.Delay), GasCosts: beacon.DefaultVRFGasCosts}}))
		must(bs.SetEpoch(ictx, beacon.EpochTime(c.Epoch), 1))
		if !c.NoFuture {
			must(bs.SetFutureEpoch(ictx, beacon.EpochTime(c.Epoch+1), int64(c.FutureHeight)))
		}
		must(registryState.NewMutableState(ictx.State()).SetConsensusParameters(ictx, &registry.ConsensusParameters{}))
		order := prng.New(permSeed)
		idx := make([]int, len(c.Nodes))
		for i := range idx {
			idx[i] = i
		}
		for i := len(idx) - 1; i > 0; i-- {
			j := order.Intn(i + 1)
			idx[i], idx[j] = idx[j], idx[i]
		}
		for _, i := range idx {
			r.setNode(ictx, c.Nodes[i].Key, c.Nodes[i].Elig)
		}
	}()
	ops := c.Ops
	if permSeed != 1 {
		// reorder the maximal runs of consecutive prove transactions
		ops = append([]BOp{}, c.Ops...)
		order := prng.New(permSeed * 7)
		for i := 0; i < len(ops); {
			j := i
			for j < len(ops) && ops[j].K == "prove" {
				j++
			}
			// only proofs of pairwise different nodes commute
			seen := map[int]bool{}
			ok := true
			for _, o := range ops[i:j] {
				if seen[o.Node] {
					ok = false
				}
				seen[o.Node] = true
			}
			if ok {
				for k := j - 1; k > i; k-- {
					m := i + order.Intn(k-i+1)
					ops[k], ops[m] = ops[m], ops[k]
				}
			}
			if j == i {
				j++
			}
			i = j
		}
	}
	for _, o := range ops {
		res := 0
		blk, beta := "", "00"
		switch o.K {
		case "begin":
			r.height, r.root = o.Height, hx(o.Root)
			func() {
				ctx := r.ctx(abciAPI.ContextBeginBlock)
				defer ctx.Close()
				ent := beaconApp.VerifBlockEntropy(ctx)
				r.blocks = append(r.blocks, struct {
					id      string
					entropy []byte
				}{hex.EncodeToString(ent), ent})
				blk = hex.EncodeToString(ent)
				res = bClassify(r.app.BeginBlock(ctx))
			}()
		case "prove":
			func() {
				ctx := r.ctx(abciAPI.ContextDeliverTx)
				defer ctx.Close()
				ctx.SetTxSigner(pk(c.Keys[o.Node]))
				var alpha []byte
				if vs, _ := beaconState.NewMutableState(ctx.State()).VRFState(ctx); vs != nil {
					alpha = vs.Alpha
				}
				if o.Bad == "alpha" {
					alpha = append([]byte("other"), alpha...)
				}
				p, err := signature.Prove(r.vrfSigner(o.Node), alpha)
				must(err)
				raw, _ := p.Proof.MarshalBinary()
				beta = hex.EncodeToString(p.UnsafeToHash())
				if o.Bad == "bits" {
					raw[len(raw)-1] ^= 0x40
				}
				tx := &transaction.Transaction{Method: beacon.MethodVRFProve, Body: cbor.Marshal(&beacon.VRFProve{Epoch: beacon.EpochTime(o.Epoch), Pi: raw})}
				res = bClassify(r.app.ExecuteTx(ctx, tx))
			}()
		case "register":
			func() {
				ctx := r.ctx(abciAPI.ContextDeliverTx)
				defer ctx.Close()
				if o.Rekey {
					r.gen[o.Node]++
				}
				// what the registry application does for a new / expired / VRF-key-changing registration
				r.setNode(ctx, o.Node, epochInvalid)
			}()
		case "deregister":
			func() {
				ctx := r.ctx(abciAPI.ContextDeliverTx)
				defer ctx.Close()
				rs := registryState.NewMutableState(ctx.State())
				if n, err := rs.Node(ctx, pk(c.Keys[o.Node])); err == nil {
					must(rs.RemoveNode(ctx, n))
				}
			}()
		}
		ob := r.observe(res)
		ob.Blk, ob.Height, ob.Beta = blk, r.height, beta
		obs = append(obs, ob)
	}
	return obs, ""
}

func piTerm(l [][2]string) string {
	var s []string
	for _, e := range l {
		s = append(s, fmt.Sprintf("(%s, %s)", num(e[0]), num(e[1])))
	}
	return coqout.List(s)
}

func bStateTerm(o *bObs) string {
	fut := "None"
	if o.Future != nil {
		fut = fmt.Sprintf("(Some (%d, %d))", o.Future[0], o.Future[1])
	}
	vrf := "None"
	if o.HasVrf {
		prev := "None"
		if o.Prev != nil {
			prev = fmt.Sprintf("(Some (%s, %s))", piTerm(o.Prev.Pi), coqout.Bool(o.Prev.Can))
		}
		vrf = fmt.Sprintf("(Some (mkVs %d %s %s %s %d %s))", o.VEpoch, o.Alpha, piTerm(o.Pi), coqout.Bool(o.HQ), o.After, prev)
	}
	var stt []string
	for _, e := range o.Status {
		stt = append(stt, fmt.Sprintf("(%s, (%s, 0))", num(e[0]), e[1]))
	}
	return fmt.Sprintf("mkB %d %s %s %s %s", o.Epoch, fut, vrf, o.Beacon, coqout.List(stt))
}

// ---------- generation ----------
func genBCase(r *prng.R) BCase {
	c := BCase{Interval: uint64(r.Range(3, 6)), Delay: uint64(r.Intn(3)), Thresh: uint64(r.Intn(4)), Epoch: uint64(r.Range(1, 9))}
	c.FutureHeight = uint64(r.Range(2, 5))
	c.NoFuture = r.Chance(3)
	nKeys := r.Range(2, 6)
	for i := 0; i < nKeys; i++ {
		c.Keys = append(c.Keys, rkey(r))
	}
	for i := 0; i < nKeys; i++ {
		if r.Chance(65) {
			el := []uint64{c.Epoch, c.Epoch - 1, 0, epochInvalid}[r.Intn(4)]
			if c.Epoch >= 2 && r.Chance(30) {
				el = c.Epoch - 2
			}
			c.Nodes = append(c.Nodes, BNode{Key: i, Elig: el})
		}
	}
	nBlocks := r.Range(4, 16)
	h := uint64(2)
	epoch := c.Epoch // the generator's guess of the running epoch (only steers the mostly-valid stream)
	nextTrans := c.FutureHeight
	for b := 0; b < nBlocks; b++ {
		if r.Chance(4) {
			h += uint64(r.Range(1, 3)) // a gap: may jump over the scheduled height
		}
		c.Ops = append(c.Ops, BOp{K: "begin", Height: h, Root: hex.EncodeToString(r.Bytes(8))})
		if h == nextTrans {
			epoch++
			nextTrans = h + c.Interval
		}
		k := r.Intn(4)
		for j := 0; j < k; j++ {
			x := r.Intn(100)
			n := r.Intn(nKeys)
			switch {
			case x < 62:
				o := BOp{K: "prove", Node: n, Epoch: epoch}
				if r.Chance(8) {
					o.Epoch = epoch + uint64(r.Intn(3)) - 1
				}
				if r.Chance(10) {
					o.Bad = []string{"alpha", "bits"}[r.Intn(2)]
				}
				c.Ops = append(c.Ops, o)
			case x < 85:
				c.Ops = append(c.Ops, BOp{K: "register", Node: n, Rekey: r.Chance(35)})
			default:
				c.Ops = append(c.Ops, BOp{K: "deregister", Node: n})
			}
		}
		h++
	}
	return c
}

// independent check of the eligibility rule on the implementation's states
func bOracle(c *BCase, obs []bObs) string {
	regEpoch := map[string]uint64{} // epoch of the last (re-)registration by this run
	curEpoch := c.Epoch
	for i, o := range c.Ops {
		ob := &obs[i]
		if ob.Res == 99 {
			return fmt.Sprintf("op %d: unexpected error from the beacon application", i)
		}
		switch o.K {
		case "register":
			regEpoch[c.Keys[o.Node]] = curEpoch
		case "deregister":
			delete(regEpoch, c.Keys[o.Node])
		}
		curEpoch = ob.Epoch
		if i > 0 && obs[i-1].HasVrf {
			pv := &obs[i-1]
			if o.K == "prove" && ob.Res == 0 && ob.Height <= pv.After {
				return fmt.Sprintf("op %d: VRF proof accepted at height %d, not after the submission delay (SubmitAfter %d)", i, ob.Height, pv.After)
			}
			if o.K == "begin" && ob.Epoch != pv.Epoch {
				if ob.Prev == nil || ob.Prev.Can != pv.HQ || fmt.Sprint(ob.Prev.Pi) != fmt.Sprint(pv.Pi) {
					return fmt.Sprintf("op %d: PrevState after the transition is not the proofs / alpha quality of the epoch that ended", i)
				}
			}
		}
		for _, st := range ob.Status {
			re, ok := regEpoch[st[0]]
			if !ok {
				continue
			}
			var el uint64
			fmt.Sscan(st[1], &el)
			if ob.Epoch <= re+1 && el < ob.Epoch {
				return fmt.Sprintf("op %d: node %s registered in epoch %d is election-eligible (after %d) in epoch %d", i, st[0][:8], re, el, ob.Epoch)
			}
		}
		if ob.Prev != nil && ob.HasVrf && len(ob.Pi) > 0 && ob.VEpoch != ob.Epoch {
			return fmt.Sprintf("op %d: proofs collected for epoch %d while the epoch is %d", i, ob.VEpoch, ob.Epoch)
		}
	}
	return ""
}

func beaconMain(seed uint64, out, replay string, n int) {
	hdr := "From Verif Require Import Lib.Base Sched.Elect Sched.Beacon.\n"
	wb := coqout.NewWriter(out, hdr, "fun c => btrace (fst (fst c)) (snd (fst c)) (snd c)", "btrace_eqb", 8)
	sum := coqout.NewSummary("one evaluation = one operation on the real beacon application (VRF backend, production timekeeping) over a mock state: BeginBlock of successive heights (occasionally skipping the scheduled transition height or with no transition scheduled), VRFProve transactions with real ECVRF proofs (valid, premature, from unregistered signers, for another epoch, over another alpha, corrupted, repeated, repeated after a VRF key change), registrations (new / re-registration / with a new VRF key) and deregistrations; interval 3-6, submission delay 0-2, high-quality threshold 0-3; non-trivial = the case contains an epoch transition with at least one collected proof; distinct = distinct case descriptions")
	var cases []BCase
	if replay != "" {
		b, err := os.ReadFile(replay)
		must(err)
		raw := json.RawMessage(b)
		var wrap struct {
			Case *json.RawMessage `json:"case"`
		}
		for k := 0; k < 3; k++ {
			wrap.Case = nil
			if json.Unmarshal(raw, &wrap) == nil && wrap.Case != nil {
				raw = *wrap.Case
			} else {
				break
			}
		}
		var c BCase
		must(json.Unmarshal(raw, &c))
		cases = []BCase{c}
	} else {
		r := prng.New(seed)
		for i := 0; i < n; i++ {
			cases = append(cases, genBCase(r.Fork()))
		}
	}
	seen := map[string]bool{}
	for ci := range cases {
		c := &cases[ci]
		prefixSeen = map[string]string{}
		sum.Sample(c, 1)
		obs, pan := runB(c, 1)
		viol := ""
		if pan != "" {
			viol = "beacon application panicked: " + pan
			sum.Evaluations++
		} else {
			sum.Evaluations += len(obs)
			viol = bOracle(c, obs)
			// determinism twin: other insertion order of the initial nodes, proofs of a block reordered
			obs2, pan2 := runB(c, 2)
			if pan2 != "" {
				viol = "beacon application panicked: " + pan2
			} else if viol == "" {
				a, _ := json.Marshal(obs[len(obs)-1])
				b, _ := json.Marshal(obs2[len(obs2)-1])
				// compare the states at the end (results of individual reordered transactions may differ in order)
				var x, y bObs
				_ = json.Unmarshal(a, &x)
				_ = json.Unmarshal(b, &y)
				x.Res, y.Res, x.Beta, y.Beta = 0, 0, "", ""
				a, _ = json.Marshal(x)
				b, _ = json.Marshal(y)
				if string(a) != string(b) {
					viol = "final beacon state differs when the proofs of a block are delivered in another order"
				}
			}
			// Coq case
			var nodes, ops, exp []string
			for _, nd := range c.Nodes {
				nodes = append(nodes, fmt.Sprintf("(%s, (%d, 0))", num(c.Keys[nd.Key]), nd.Elig))
			}
			trans, proofs := false, 0
			for i, o := range c.Ops {
				ob := &obs[i]
				switch o.K {
				case "begin":
					// the block id is the block entropy the implementation used
					ops = append(ops, fmt.Sprintf("OBegin %d %s", o.Height, num(ob.Blk)))
					if i > 0 && ob.Epoch != obs[i-1].Epoch && ob.Prev != nil && len(ob.Prev.Pi) > 0 {
						trans = true
					}
				case "prove":
					// beta of the submitted proof: recomputed (a valid proof's beta is a function of key and alpha)
					ops = append(ops, fmt.Sprintf("OProve %d %s %d %s %s", ob.Height, num(c.Keys[o.Node]), o.Epoch, num(ob.Beta), coqout.Bool(o.Bad == "")))
					if ob.Res == 0 {
						proofs++
					}
				case "register":
					ops = append(ops, fmt.Sprintf("ORegister %s", num(c.Keys[o.Node])))
				case "deregister":
					ops = append(ops, fmt.Sprintf("ODeregister %s", num(c.Keys[o.Node])))
				}
				exp = append(exp, fmt.Sprintf("(%d, %s)", ob.Res, bStateTerm(ob)))
				sum.Count("op", o.K)
				sum.Count("result", fmt.Sprint(ob.Res))
			}
			fut := "None"
			if !c.NoFuture {
				fut = fmt.Sprintf("(Some (%d, %d))", c.Epoch+1, c.FutureHeight)
			}
			term := fmt.Sprintf("((mkBp %d %d %d, mkB %d %s None None %s, %s),\n %s)", c.Interval, c.Delay, c.Thresh, c.Epoch, fut, coqout.List(nodes), coqout.List(ops), coqout.List(exp))
			wb.Add(term, map[string]any{"case": c})
			last := obs[len(obs)-1]
			sum.Count("epochs-advanced", fmt.Sprint(last.Epoch-c.Epoch))
			if last.HasVrf && strings.HasPrefix(last.Alpha, "(AHigh") {
				sum.Count("final-alpha", "high-quality")
			} else {
				sum.Count("final-alpha", "low-quality")
			}
			key, _ := json.Marshal(c)
			if trans && proofs > 0 && !seen[string(key)] {
				sum.DistinctNontrivial++
			}
			seen[string(key)] = true
		}
		if viol != "" {
			sum.Violations = append(sum.Violations, map[string]any{"what": viol, "case": c})
		}
	}
	wb.Close()
	sum.Write(out)
}
