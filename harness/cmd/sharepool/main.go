// Command sharepool drives the real escrow share-pool code of oasis-core:
// staking.SharePool.Deposit / Withdraw / StakeForShares (go/staking/api/api.go)
// with quantity.Quantity arguments, and MutableState.SlashEscrow
// (go/consensus/cometbft/apps/staking/state/state.go) on an in-memory MKVS tree
// through the exported mock application state. It records the observable
// results as Coq correspondence cases for Verif.Ledger.SharePool and evaluates
// the C15 fairness predicates directly on the implementation's outputs (S),
// with math/big and without the Coq model.
//
// Two modes: -mode api (single calls: exhaustive small grid + boundary-heavy
// big numbers) and -mode seq (random multi-delegator operation sequences).
package main

import (
	"encoding/json"
	"errors"
	"flag"
	"fmt"
	"math/big"
	"os"
	"regexp"
	"strings"

	"github.com/oasisprotocol/oasis-core/go/common/crypto/signature"
	"github.com/oasisprotocol/oasis-core/go/common/quantity"
	abciAPI "github.com/oasisprotocol/oasis-core/go/consensus/cometbft/api"
	stakingState "github.com/oasisprotocol/oasis-core/go/consensus/cometbft/apps/staking/state"
	staking "github.com/oasisprotocol/oasis-core/go/staking/api"

	"verifharness/internal/coqout"
	"verifharness/internal/prng"
)

// ---------- helpers ----------
func bi(s string) *big.Int {
	n, ok := new(big.Int).SetString(s, 10)
	if !ok {
		panic("bad number " + s)
	}
	return n
}

func qOf(n *big.Int) *quantity.Quantity {
	q := quantity.NewQuantity()
	if err := q.FromBigInt(n); err != nil {
		panic(err)
	}
	return q
}

func qs(s string) *quantity.Quantity { return qOf(bi(s)) }

func errClass(err error) string {
	switch {
	case err == nil:
		return "COk"
	case errors.Is(err, staking.ErrInvalidArgument):
		return "CInvalidArgument"
	case errors.Is(err, quantity.ErrInsufficientBalance):
		return "CInsufficient"
	}
	return "other:" + err.Error()
}

// hexify rewrites every long decimal literal of a Coq term in hexadecimal
// (Coq parses hexadecimal numerals several times faster).
var longDec = regexp.MustCompile(`[0-9]{10,}`)

func hexify(term string) string {
	return longDec.ReplaceAllStringFunc(term, func(d string) string { return "0x" + bi(d).Text(16) })
}

func mul(a, b *big.Int) *big.Int { return new(big.Int).Mul(a, b) }
func add(a, b *big.Int) *big.Int { return new(big.Int).Add(a, b) }
func sub(a, b *big.Int) *big.Int { return new(big.Int).Sub(a, b) }

func poolOf(b, s *big.Int) *staking.SharePool {
	return &staking.SharePool{Balance: *qOf(b), TotalShares: *qOf(s)}
}

// worth asks the IMPLEMENTATION what u shares are worth in pool p.
func worth(p *staking.SharePool, u *big.Int) *big.Int {
	q, err := p.StakeForShares(qOf(u))
	if err != nil {
		panic(fmt.Sprintf("StakeForShares error: %v", err))
	}
	return q.ToBigInt()
}

// ---------- API-mode cases ----------
type ApiCase struct {
	K   string `json:"k"` // deposit withdraw stake slash
	B   string `json:"b"`
	S   string `json:"s"`
	Dst string `json:"dst,omitempty"`
	Src string `json:"src,omitempty"`
	A   string `json:"a"`            // amount / shares / slash amount
	Bd  string `json:"bd,omitempty"` // slash: debonding pool
	Sd  string `json:"sd,omitempty"`
}

type apiResult struct {
	coq      string
	violated string
	nontriv  bool
	stats    []string
}

var slashEnv struct {
	app  abciAPI.MockApplicationState
	addr staking.Address
	n    int
}

func slashSetup() {
	slashEnv.app = abciAPI.NewMockApplicationState(&abciAPI.MockApplicationStateConfig{})
	var pk signature.PublicKey
	_ = pk.UnmarshalHex("aaaaaaaaaaaaaaaaaaaaaaaaaaaaaaaaaaaaaaaaaaaaaaaaaaaaaaaaaaaaaaaa")
	slashEnv.addr = staking.NewAddress(pk)
}

// realSlash runs MutableState.SlashEscrow on an account holding the two pools
// and returns (total returned, active pool after, debonding pool after,
// common pool gain).
func realSlash(act, deb *staking.SharePool, amount *big.Int) (*big.Int, *staking.SharePool, *staking.SharePool, *big.Int, error) {
	if slashEnv.app == nil || slashEnv.n%500 == 0 {
		slashSetup()
	}
	slashEnv.n++
	ctx := slashEnv.app.NewContext(abciAPI.ContextEndBlock)
	defer ctx.Close()
	st := stakingState.NewMutableState(ctx.State())
	cp0 := big.NewInt(1000)
	if err := st.SetCommonPool(ctx, qOf(cp0)); err != nil {
		return nil, nil, nil, nil, err
	}
	var acct staking.Account
	acct.Escrow.Active = *act
	acct.Escrow.Debonding = *deb
	if err := st.SetAccount(ctx, slashEnv.addr, &acct); err != nil {
		return nil, nil, nil, nil, err
	}
	tot, err := st.SlashEscrow(ctx, slashEnv.addr, qOf(amount))
	if err != nil {
		return nil, nil, nil, nil, err
	}
	a2, err := st.Account(ctx, slashEnv.addr)
	if err != nil {
		return nil, nil, nil, nil, err
	}
	cp, err := st.CommonPool(ctx)
	if err != nil {
		return nil, nil, nil, nil, err
	}
	return tot.ToBigInt(), &a2.Escrow.Active, &a2.Escrow.Debonding, sub(cp.ToBigInt(), cp0), nil
}

func runApi(c ApiCase) (res apiResult) {
	defer func() {
		if e := recover(); e != nil {
			res.violated = fmt.Sprintf("implementation panicked: %v", e)
			res.coq = ""
		}
	}()
	viol := func(f string, a ...any) {
		if res.violated == "" {
			res.violated = fmt.Sprintf(f, a...)
		}
	}
	B, S, A := bi(c.B), bi(c.S), bi(c.A)
	zero := big.NewInt(0)
	one := big.NewInt(1)
	// the holders whose worth is watched: 1, S/2, S (and S-s for withdrawals)
	watch := func(limit *big.Int) []*big.Int {
		var us []*big.Int
		for _, u := range []*big.Int{one, new(big.Int).Rsh(limit, 1), limit} {
			if u.Sign() >= 0 && u.Cmp(limit) <= 0 {
				us = append(us, u)
			}
		}
		return us
	}
	switch c.K {
	case "deposit":
		dst0, src0 := bi(c.Dst), bi(c.Src)
		p := poolOf(B, S)
		before := poolOf(B, S)
		dst, src := qOf(dst0), qOf(src0)
		ret, err := p.Deposit(dst, src, qOf(A))
		cls := errClass(err)
		r := zero
		if ret != nil && err == nil {
			r = ret.ToBigInt()
		}
		nb, ns := p.Balance.ToBigInt(), p.TotalShares.ToBigInt()
		res.coq = fmt.Sprintf("(KDeposit %s %s %s %s %s, (%s, [%s; %s; %s; %s; %s]))", c.B, c.S, c.Dst, c.Src, c.A,
			cls, nb, ns, dst.ToBigInt(), src.ToBigInt(), r)
		res.stats = append(res.stats, "deposit:"+cls)
		// S: the property predicates on the implementation's output
		dead := S.Sign() > 0 && B.Sign() == 0
		wantErr := dead || src0.Cmp(A) < 0
		if (err != nil) != wantErr {
			viol("deposit error=%v but pool dead=%v, src<amount=%v", err, dead, src0.Cmp(A) < 0)
		}
		if err != nil {
			if nb.Cmp(B) != 0 || ns.Cmp(S) != 0 || dst.ToBigInt().Cmp(dst0) != 0 || src.ToBigInt().Cmp(src0) != 0 {
				viol("failed deposit changed the pool or the accounts")
			}
			if dead {
				res.stats = append(res.stats, "pool:dead(B=0,S>0)")
			}
			return
		}
		if nb.Cmp(add(B, A)) != 0 || ns.Cmp(add(S, r)) != 0 || dst.ToBigInt().Cmp(add(dst0, r)) != 0 || add(src.ToBigInt(), A).Cmp(src0) != 0 {
			viol("deposit bookkeeping: pool/accounts do not move by exactly (amount, minted)")
		}
		orphan := S.Sign() == 0 && B.Sign() > 0
		if orphan {
			res.stats = append(res.stats, "pool:orphan(S=0,B>0)")
		} else {
			if mul(r, B).Cmp(mul(A, S)) > 0 {
				viol("deposit minted %s shares: more than pro rata (m*B > a*S)", r)
			}
			if w := worth(p, r); w.Cmp(A) > 0 {
				viol("deposit of %s minted shares worth %s", A, w)
			}
		}
		for _, u := range watch(S) {
			if worth(before, u).Cmp(worth(p, u)) > 0 {
				viol("another holder's %s shares fell from %s to %s through a deposit", u, worth(before, u), worth(p, u))
			}
		}
		if S.Sign() > 0 && mul(B, ns).Cmp(mul(nb, S)) > 0 {
			viol("share price fell through a deposit")
		}
		if r.Sign() > 0 && S.Sign() > 0 && mul(r, B).Cmp(mul(A, S)) < 0 {
			res.nontriv = true // a rounding actually happened
		}
	case "withdraw":
		dst0, src0 := bi(c.Dst), bi(c.Src)
		p := poolOf(B, S)
		before := poolOf(B, S)
		dst, src := qOf(dst0), qOf(src0)
		err := p.Withdraw(dst, src, qOf(A))
		cls := errClass(err)
		nb, ns := p.Balance.ToBigInt(), p.TotalShares.ToBigInt()
		paid := sub(dst.ToBigInt(), dst0)
		rr := paid
		if err != nil {
			rr = zero
		}
		res.coq = fmt.Sprintf("(KWithdraw %s %s %s %s %s, (%s, [%s; %s; %s; %s; %s]))", c.B, c.S, c.Dst, c.Src, c.A,
			cls, nb, ns, dst.ToBigInt(), src.ToBigInt(), rr)
		res.stats = append(res.stats, "withdraw:"+cls)
		wantErr := src0.Cmp(A) < 0 || S.Cmp(A) < 0
		if (err != nil) != wantErr {
			viol("withdraw error=%v but src<shares=%v, total<shares=%v", err, src0.Cmp(A) < 0, S.Cmp(A) < 0)
		}
		if err != nil {
			if paid.Sign() != 0 || nb.Cmp(B) != 0 {
				viol("failed withdraw moved stake")
			}
			if src0.Cmp(A) >= 0 {
				res.stats = append(res.stats, "withdraw:partial-failure(holder>total)")
			}
			return
		}
		if nb.Cmp(sub(B, paid)) != 0 || ns.Cmp(sub(S, A)) != 0 || src.ToBigInt().Cmp(sub(src0, A)) != 0 {
			viol("withdraw bookkeeping: pool/accounts do not move by exactly (paid, shares)")
		}
		if mul(paid, S).Cmp(mul(A, B)) > 0 {
			viol("withdraw paid %s: more than pro rata (p*S > s*B)", paid)
		}
		for _, u := range watch(sub(S, A)) {
			if worth(before, u).Cmp(worth(p, u)) > 0 {
				viol("another holder's %s shares fell from %s to %s through a withdrawal", u, worth(before, u), worth(p, u))
			}
		}
		if ns.Sign() > 0 && mul(B, ns).Cmp(mul(nb, S)) > 0 {
			viol("share price fell through a withdrawal")
		}
		if paid.Sign() > 0 && mul(paid, S).Cmp(mul(A, B)) < 0 {
			res.nontriv = true
		}
	case "stake":
		p := poolOf(B, S)
		w := worth(p, A)
		res.coq = fmt.Sprintf("(KStake %s %s %s, (COk, [%s]))", c.B, c.S, c.A, w)
		res.stats = append(res.stats, "stake:ok")
		if mul(w, S).Cmp(mul(A, B)) > 0 {
			viol("StakeForShares(%s) = %s: more than pro rata", A, w)
		}
		if S.Sign() > 0 && mul(add(w, one), S).Cmp(mul(A, B)) <= 0 {
			viol("StakeForShares(%s) = %s: more than one base unit below pro rata", A, w)
		}
		if w.Sign() > 0 && mul(w, S).Cmp(mul(A, B)) < 0 {
			res.nontriv = true
		}
	case "slash":
		Bd, Sd := bi(c.Bd), bi(c.Sd)
		tot, a2, d2, gain, err := realSlash(poolOf(B, S), poolOf(Bd, Sd), A)
		if err != nil {
			viol("SlashEscrow failed: %v", err)
			res.coq = ""
			return
		}
		nba, nsa := a2.Balance.ToBigInt(), a2.TotalShares.ToBigInt()
		nbd, nsd := d2.Balance.ToBigInt(), d2.TotalShares.ToBigInt()
		ta, td := sub(B, nba), sub(Bd, nbd)
		res.coq = fmt.Sprintf("(KSlash %s %s %s %s %s, (COk, [%s; %s; %s; %s; %s; %s]))", c.B, c.S, c.Bd, c.Sd, c.A,
			tot, td, nba, nsa, nbd, nsd)
		res.stats = append(res.stats, "slash:ok")
		T := add(B, Bd)
		if ta.Sign() < 0 || td.Sign() < 0 {
			viol("slash increased a pool")
		}
		if tot.Cmp(add(ta, td)) != 0 || gain.Cmp(tot) != 0 {
			viol("slash: returned total %s, pools lost %s, common pool gained %s", tot, add(ta, td), gain)
		}
		if tot.Cmp(A) > 0 {
			viol("slash took %s > amount %s", tot, A)
		}
		if nsa.Cmp(S) != 0 || nsd.Cmp(Sd) != 0 {
			viol("slash changed the shares")
		}
		if mul(ta, Bd).Cmp(mul(add(td, one), B)) > 0 || mul(td, B).Cmp(mul(add(ta, one), Bd)) > 0 {
			viol("slash fractions differ by more than one base unit: active %s of %s, debonding %s of %s", ta, B, td, Bd)
		}
		if A.Cmp(T) <= 0 && add(tot, one).Cmp(A) < 0 {
			viol("slash of %s <= total took only %s", A, tot)
		}
		if A.Cmp(T) >= 0 && (nba.Sign() != 0 || nbd.Sign() != 0) {
			viol("slash of everything left stake behind")
		}
		if ta.Sign() > 0 && td.Sign() > 0 {
			res.nontriv = true
		}
	default:
		panic("unknown api case kind " + c.K)
	}
	_ = zero
	return res
}

// ---------- sequence-mode cases ----------
type SeqOp struct {
	K string `json:"k"` // dep wd rew slash
	D int    `json:"d,omitempty"`
	A string `json:"a"`
}

type SeqCase struct {
	B    string     `json:"b"`
	S    string     `json:"s"`
	Hold [][]string `json:"hold"` // [delegator, shares]
	Ops  []SeqOp    `json:"ops"`
}

type seqResult struct {
	coq      string
	violated string
	nontriv  bool
	stats    []string
}

func runSeq(c SeqCase) (res seqResult) {
	defer func() {
		if e := recover(); e != nil {
			res.violated = fmt.Sprintf("implementation panicked: %v", e)
			res.coq = ""
		}
	}()
	viol := func(i int, f string, a ...any) {
		if res.violated == "" {
			res.violated = fmt.Sprintf("op %d: ", i) + fmt.Sprintf(f, a...)
		}
	}
	p := poolOf(bi(c.B), bi(c.S))
	shares := map[int]*quantity.Quantity{}
	in := map[int]*big.Int{}
	out := map[int]*big.Int{}
	var holdTerms []string
	acted := map[int]bool{}
	get := func(d int) *quantity.Quantity {
		if shares[d] == nil {
			shares[d] = quantity.NewQuantity()
			in[d] = new(big.Int)
			out[d] = new(big.Int)
		}
		return shares[d]
	}
	sumHold := new(big.Int)
	for _, h := range c.Hold {
		var d int
		fmt.Sscan(h[0], &d)
		_ = get(d).Add(qs(h[1]))
		sumHold.Add(sumHold, bi(h[1]))
		holdTerms = append(holdTerms, fmt.Sprintf("(%d, %s)", d, h[1]))
	}
	wellFormed := sumHold.Cmp(bi(c.S)) == 0
	B0 := bi(c.B)
	S0 := bi(c.S)
	startWorth := map[int]*big.Int{}
	for d, q := range shares {
		startWorth[d] = worth(p, q.ToBigInt())
	}
	rewards, slashes := false, false
	var opTerms, obsTerms []string
	for i, o := range c.Ops {
		A := bi(o.A)
		B, S := p.Balance.ToBigInt(), p.TotalShares.ToBigInt()
		before := poolOf(B, S)
		// worth of every holder before
		wb := map[int]*big.Int{}
		for d, q := range shares {
			wb[d] = worth(before, q.ToBigInt())
		}
		switch o.K {
		case "dep":
			sh := get(o.D)
			u0 := sh.ToBigInt()
			bakB, bakS := p.Balance.Clone(), p.TotalShares.Clone()
			src := qOf(A)
			ret, err := p.Deposit(sh, src, qOf(A))
			cls := errClass(err)
			opTerms = append(opTerms, fmt.Sprintf("ODeposit %d %s", o.D, o.A))
			if err != nil {
				obsTerms = append(obsTerms, fmt.Sprintf("(%s, [%s; %s; %s; 0])", cls, p.Balance.ToBigInt(), p.TotalShares.ToBigInt(), sh.ToBigInt()))
				p.Balance, p.TotalShares = *bakB, *bakS
				shares[o.D] = qOf(u0)
				res.stats = append(res.stats, "op:dep-"+cls)
				continue
			}
			m := ret.ToBigInt()
			in[o.D].Add(in[o.D], A)
			acted[o.D] = true
			obsTerms = append(obsTerms, fmt.Sprintf("(COk, [%s; %s; %s; %s])", p.Balance.ToBigInt(), p.TotalShares.ToBigInt(), sh.ToBigInt(), m))
			res.stats = append(res.stats, "op:dep-ok")
			if S.Sign() == 0 && B.Sign() > 0 {
				res.stats = append(res.stats, "pool:orphan-deposit")
			} else if S.Sign() > 0 && wellFormed {
				// the actor's own wealth (out - in + u*B/S) must not rise:
				// -a*S*S' + u'*B'*S - u*B*S' <= 0
				nb, ns := p.Balance.ToBigInt(), p.TotalShares.ToBigInt()
				lhs := sub(mul(mul(sh.ToBigInt(), nb), S), mul(mul(u0, B), ns))
				if lhs.Cmp(mul(mul(A, S), ns)) > 0 {
					viol(i, "delegator %d gained by its own deposit", o.D)
				}
				if mul(m, B).Cmp(mul(A, S)) < 0 {
					res.nontriv = true
				}
			}
		case "wd":
			sh := get(o.D)
			u0 := sh.ToBigInt()
			bakB, bakS := p.Balance.Clone(), p.TotalShares.Clone()
			var dst quantity.Quantity
			err := p.Withdraw(&dst, sh, qOf(A))
			cls := errClass(err)
			opTerms = append(opTerms, fmt.Sprintf("OWithdraw %d %s", o.D, o.A))
			if err != nil {
				obsTerms = append(obsTerms, fmt.Sprintf("(%s, [%s; %s; %s; 0])", cls, p.Balance.ToBigInt(), p.TotalShares.ToBigInt(), sh.ToBigInt()))
				if wellFormed && (sh.ToBigInt().Cmp(u0) != 0 || p.TotalShares.ToBigInt().Cmp(S) != 0) {
					viol(i, "failed withdrawal changed the ledger although holdings add up to the total")
				}
				p.Balance, p.TotalShares = *bakB, *bakS
				shares[o.D] = qOf(u0)
				res.stats = append(res.stats, "op:wd-"+cls)
				continue
			}
			paid := dst.ToBigInt()
			out[o.D].Add(out[o.D], paid)
			acted[o.D] = true
			obsTerms = append(obsTerms, fmt.Sprintf("(COk, [%s; %s; %s; %s])", p.Balance.ToBigInt(), p.TotalShares.ToBigInt(), sh.ToBigInt(), paid))
			res.stats = append(res.stats, "op:wd-ok")
			nb, ns := p.Balance.ToBigInt(), p.TotalShares.ToBigInt()
			if ns.Sign() > 0 && wellFormed {
				// paid*S*S' + u'*B'*S - u*B*S' <= 0
				lhs := add(mul(mul(paid, S), ns), sub(mul(mul(sh.ToBigInt(), nb), S), mul(mul(u0, B), ns)))
				if lhs.Sign() > 0 {
					viol(i, "delegator %d gained by its own withdrawal", o.D)
				}
			} else if wellFormed && S.Sign() > 0 && nb.Sign() != 0 {
				viol(i, "all shares redeemed but %s base units stay in the pool", nb)
			}
			if paid.Sign() > 0 && mul(paid, S).Cmp(mul(A, B)) < 0 {
				res.nontriv = true
			}
		case "rew":
			// AddRewards moves the reward into the balance only (state.go:1255)
			rewards = true
			cp := qOf(A)
			if err := quantity.Move(&p.Balance, cp, qOf(A)); err != nil {
				panic(err)
			}
			opTerms = append(opTerms, fmt.Sprintf("OReward %s", o.A))
			obsTerms = append(obsTerms, fmt.Sprintf("(COk, [%s; %s; 0; 0])", p.Balance.ToBigInt(), p.TotalShares.ToBigInt()))
			res.stats = append(res.stats, "op:rew")
		case "slash":
			slashes = true
			tot, a2, _, _, err := realSlash(p, poolOf(new(big.Int), new(big.Int)), A)
			if err != nil {
				panic(err)
			}
			p.Balance, p.TotalShares = a2.Balance, a2.TotalShares
			opTerms = append(opTerms, fmt.Sprintf("OSlash %s", o.A))
			obsTerms = append(obsTerms, fmt.Sprintf("(COk, [%s; %s; 0; %s])", p.Balance.ToBigInt(), p.TotalShares.ToBigInt(), tot))
			res.stats = append(res.stats, "op:slash")
		default:
			panic("unknown op " + o.K)
		}
		// every OTHER holder's redeemable value must not fall (except by slash)
		if o.K != "slash" && wellFormed {
			for d, q := range shares {
				if (o.K == "dep" || o.K == "wd") && d == o.D {
					continue
				}
				if w := worth(p, q.ToBigInt()); w.Cmp(wb[d]) < 0 {
					viol(i, "delegator %d's redeemable value fell from %s to %s through another's %s", d, wb[d], w, o.K)
				}
			}
			nb, ns := p.Balance.ToBigInt(), p.TotalShares.ToBigInt()
			if S.Sign() > 0 && mul(B, ns).Cmp(mul(nb, S)) > 0 {
				viol(i, "share price fell through %s", o.K)
			}
		}
	}
	// paid_out <= paid_in for the set of acting delegators (+ what they held at
	// the start) when there were no rewards and no slashes and no orphan balance
	if !rewards && wellFormed && !(S0.Sign() == 0 && B0.Sign() > 0) {
		totIn, totOut, sw, uA := new(big.Int), new(big.Int), new(big.Int), new(big.Int)
		uA0 := new(big.Int)
		for d := range acted {
			totIn.Add(totIn, in[d])
			totOut.Add(totOut, out[d])
			uA.Add(uA, shares[d].ToBigInt())
		}
		for _, h := range c.Hold {
			var d int
			fmt.Sscan(h[0], &d)
			if acted[d] {
				uA0.Add(uA0, bi(h[1]))
			}
		}
		sw = worth(poolOf(B0, S0), uA0)
		if add(totOut, worth(p, uA)).Cmp(add(totIn, sw)) > 0 {
			viol(len(c.Ops), "acting delegators got out %s + hold worth %s, paid in %s + started with worth %s (no rewards)", totOut, worth(p, uA), totIn, sw)
		}
		_ = slashes
		if len(acted) == 1 {
			res.stats = append(res.stats, "seq:sole-actor")
		}
		// a sequence starting from an empty pool never leaves price 1: every
		// delegator individually gets out at most what it paid in
		if S0.Sign() == 0 && !slashes {
			for d := range acted {
				if out[d].Cmp(in[d]) > 0 {
					viol(len(c.Ops), "delegator %d got out %s > paid in %s starting from an empty pool", d, out[d], in[d])
				}
			}
		}
	}
	holdTerm := coqout.List(holdTerms)
	if len(holdTerms) == 0 {
		holdTerm = "(@nil (N * N))"
	}
	opTerm, obsTerm := coqout.List(opTerms), coqout.List(obsTerms)
	if len(opTerms) == 0 {
		opTerm, obsTerm = "(@nil mop)", "(@nil out)"
	}
	res.coq = fmt.Sprintf("(((%s, %s, %s), %s), %s)", c.B, c.S, holdTerm, opTerm, obsTerm)
	return res
}

// ---------- generation ----------
var bigVals = []string{}

func init() {
	p := func(e uint) *big.Int { return new(big.Int).Lsh(big.NewInt(1), e) }
	for _, e := range []uint{64, 127, 128, 255, 256} {
		for _, d := range []int64{-1, 0, 1} {
			bigVals = append(bigVals, add(p(e), big.NewInt(d)).String())
		}
	}
	bigVals = append(bigVals, "0", "1", "2", "3", "7", "1000000000000000000", "999999999999999999", "10000000000000000000000000000")
}

func pick(r *prng.R) *big.Int {
	switch r.Intn(10) {
	case 0, 1, 2, 3, 4:
		return bi(bigVals[r.Intn(len(bigVals))])
	case 5, 6:
		return new(big.Int).SetUint64(r.U64() >> uint(r.Intn(64)))
	case 7:
		return new(big.Int).SetBytes(r.Bytes(r.Range(9, 32)))
	default:
		return big.NewInt(int64(r.Intn(20)))
	}
}

// near returns x-1, x, x+1 or an unrelated value
func near(r *prng.R, x *big.Int) *big.Int {
	switch r.Intn(6) {
	case 0:
		if x.Sign() > 0 {
			return sub(x, big.NewInt(1))
		}
		return x
	case 1:
		return x
	case 2:
		return add(x, big.NewInt(1))
	}
	return pick(r)
}

func genApiBig(r *prng.R) ApiCase {
	B := pick(r)
	S := near(r, B)
	if r.Chance(8) {
		B = big.NewInt(0)
	}
	if r.Chance(5) {
		S = big.NewInt(0)
	}
	A := near(r, B)
	if r.Chance(30) {
		A = near(r, S)
	}
	switch r.Intn(10) {
	case 0, 1, 2:
		src := A
		if r.Chance(15) {
			src = near(r, A)
		}
		return ApiCase{K: "deposit", B: B.String(), S: S.String(), Dst: pick(r).String(), Src: src.String(), A: A.String()}
	case 3, 4, 5:
		if A.Cmp(S) > 0 && r.Chance(85) {
			A = new(big.Int).Mod(A, add(S, big.NewInt(1)))
		}
		src := A
		if r.Chance(40) {
			src = near(r, A)
		}
		return ApiCase{K: "withdraw", B: B.String(), S: S.String(), Dst: pick(r).String(), Src: src.String(), A: A.String()}
	case 6, 7:
		return ApiCase{K: "stake", B: B.String(), S: S.String(), A: A.String()}
	default:
		Bd := near(r, B)
		if r.Chance(20) {
			Bd = big.NewInt(0)
		}
		am := near(r, add(B, Bd))
		if r.Chance(50) {
			am = pick(r)
		}
		return ApiCase{K: "slash", B: B.String(), S: S.String(), Bd: Bd.String(), Sd: near(r, Bd).String(), A: am.String()}
	}
}

func gridCases(g int, slashG int) []ApiCase {
	var cs []ApiCase
	it := func(i int) string { return fmt.Sprint(i) }
	for b := 0; b <= g; b++ {
		for s := 0; s <= g; s++ {
			for a := 0; a <= g; a++ {
				cs = append(cs, ApiCase{K: "deposit", B: it(b), S: it(s), Dst: "1", Src: it(a), A: it(a)})
				cs = append(cs, ApiCase{K: "stake", B: it(b), S: it(s), A: it(a)})
				cs = append(cs, ApiCase{K: "withdraw", B: it(b), S: it(s), Dst: "1", Src: it(a), A: it(a)})
				if a > 0 && (a+b+s)%3 == 0 {
					cs = append(cs, ApiCase{K: "deposit", B: it(b), S: it(s), Dst: "0", Src: it(a - 1), A: it(a)})
					cs = append(cs, ApiCase{K: "withdraw", B: it(b), S: it(s), Dst: "0", Src: it(a - 1), A: it(a)})
					cs = append(cs, ApiCase{K: "withdraw", B: it(b), S: it(s), Dst: "0", Src: it(a + 2), A: it(a)})
				}
			}
		}
	}
	for ba := 0; ba <= slashG; ba++ {
		for bd := 0; bd <= slashG; bd++ {
			for a := 0; a <= slashG+slashG+1; a++ {
				cs = append(cs, ApiCase{K: "slash", B: it(ba), S: it((ba * 7) % 5), Bd: it(bd), Sd: it((bd*3)%4 + 1), A: it(a)})
			}
		}
	}
	return cs
}

func genSeq(r *prng.R) SeqCase {
	var c SeqCase
	nd := r.Range(1, 4)
	var B, S *big.Int
	style := r.Intn(10)
	switch {
	case style < 2: // empty pool
		B, S = big.NewInt(0), big.NewInt(0)
	case style < 6: // small odd ratios
		S = big.NewInt(int64(r.Range(1, 12)))
		B = big.NewInt(int64(r.Range(0, 40)))
	case style < 9: // big
		S = pick(r)
		B = near(r, S)
		if r.Chance(50) {
			B = pick(r)
		}
	default: // orphan / malformed
		S = big.NewInt(0)
		B = big.NewInt(int64(r.Range(1, 9)))
	}
	// holdings: passive delegator 0 and some of the active ones, adding up to S
	left := new(big.Int).Set(S)
	for d := 0; d <= nd && left.Sign() > 0; d++ {
		var h *big.Int
		if d == nd || r.Chance(30) {
			h = new(big.Int).Set(left)
		} else {
			h = new(big.Int).Mod(new(big.Int).SetBytes(r.Bytes(33)), add(left, big.NewInt(1)))
		}
		if h.Sign() > 0 {
			c.Hold = append(c.Hold, []string{fmt.Sprint(d), h.String()})
			left.Sub(left, h)
		}
	}
	if r.Chance(3) && S.Sign() > 0 {
		// malformed ledger: a holder with more shares than the total
		c.Hold = append(c.Hold, []string{fmt.Sprint(nd + 1), add(S, big.NewInt(int64(r.Range(1, 5)))).String()})
	}
	c.B, c.S = B.String(), S.String()
	if c.Hold == nil {
		c.Hold = [][]string{}
	}
	n := r.Range(2, 30)
	plain := r.Chance(55)
	sole := r.Chance(25)
	// the generator follows the ledger with the real pool so that most
	// redemptions are within the holder's shares
	gp := poolOf(B, S)
	cur := map[int]*quantity.Quantity{}
	for _, h := range c.Hold {
		var d int
		fmt.Sscan(h[0], &d)
		cur[d] = qs(h[1])
	}
	for i := 0; i < n; i++ {
		d := r.Range(1, nd)
		if sole {
			d = 1
		}
		if r.Chance(2) {
			d = nd + 1
		}
		if cur[d] == nil {
			cur[d] = quantity.NewQuantity()
		}
		gb := gp.Balance.ToBigInt()
		x := r.Intn(100)
		small := big.NewInt(int64(r.Intn(14)))
		amt := small
		if gb.BitLen() > 10 && r.Chance(70) {
			amt = new(big.Int).Mod(new(big.Int).SetBytes(r.Bytes(33)), add(gb, big.NewInt(3)))
			if r.Chance(30) {
				amt = near(r, gb)
			}
		}
		switch {
		case x < 45:
			c.Ops = append(c.Ops, SeqOp{K: "dep", D: d, A: amt.String()})
			bb, bs, bc := gp.Balance.Clone(), gp.TotalShares.Clone(), cur[d].Clone()
			if _, err := gp.Deposit(cur[d], qOf(amt), qOf(amt)); err != nil {
				gp.Balance, gp.TotalShares, cur[d] = *bb, *bs, bc
			}
		case x < 85 || plain:
			have := cur[d].ToBigInt()
			sh := new(big.Int).Mod(new(big.Int).SetBytes(r.Bytes(33)), add(have, big.NewInt(1)))
			switch r.Intn(8) {
			case 0:
				sh = have
			case 1:
				sh = add(have, big.NewInt(1))
			case 2:
				sh = small
			}
			c.Ops = append(c.Ops, SeqOp{K: "wd", D: d, A: sh.String()})
			bb, bs, bc := gp.Balance.Clone(), gp.TotalShares.Clone(), cur[d].Clone()
			var dst quantity.Quantity
			if err := gp.Withdraw(&dst, cur[d], qOf(sh)); err != nil {
				gp.Balance, gp.TotalShares, cur[d] = *bb, *bs, bc
			}
		case x < 93:
			c.Ops = append(c.Ops, SeqOp{K: "rew", A: amt.String()})
			_ = gp.Balance.Add(qOf(amt))
		default:
			c.Ops = append(c.Ops, SeqOp{K: "slash", A: amt.String()})
			_, _ = gp.Balance.SubUpTo(qOf(amt))
		}
	}
	return c
}

func shrinkSeq(c SeqCase, res seqResult) SeqCase {
	kind := func(w string) string {
		if i := strings.Index(w, ": "); i >= 0 {
			w = w[i+2:]
		}
		var sb strings.Builder
		for _, ch := range w {
			if ch < '0' || ch > '9' {
				sb.WriteRune(ch)
			}
		}
		return sb.String()
	}
	want := kind(res.violated)
	for changed := true; changed; {
		changed = false
		for i := 0; i < len(c.Ops); i++ {
			cand := c
			cand.Ops = append(append([]SeqOp{}, c.Ops[:i]...), c.Ops[i+1:]...)
			r := runSeq(cand)
			if r.violated != "" && kind(r.violated) == want {
				c = cand
				changed = true
				i--
			}
		}
	}
	return c
}

func count(sum *coqout.Summary, stats []string) {
	for _, k := range stats {
		parts := strings.SplitN(k, ":", 2)
		sum.Count(parts[0], parts[1])
	}
}

func bucket(s string) string {
	n := bi(s).BitLen()
	switch {
	case n == 0:
		return "0"
	case n <= 4:
		return "1..15"
	case n <= 64:
		return "<=2^64"
	case n <= 128:
		return "<=2^128"
	default:
		return ">2^128"
	}
}

func main() {
	seed := flag.Uint64("seed", 1, "seed")
	n := flag.Int("cases", 1500, "number of generated (random) cases")
	grid := flag.Int("grid", 12, "api mode: exhaustive grid bound for balance, shares, amount")
	sgrid := flag.Int("slashgrid", 6, "api mode: exhaustive grid bound for the slash cases")
	blocks := flag.Int("blocks", 24, "muxdebond mode: blocks per history")
	mode := flag.String("mode", "api", "api | seq | debond")
	out := flag.String("out", "", "output directory")
	replay := flag.String("replay", "", "replay a case description (JSON file)")
	flag.Parse()
	if *out == "" {
		fmt.Fprintln(os.Stderr, "need -out")
		os.Exit(2)
	}
	var apiCases []ApiCase
	var seqCases []SeqCase
	if *replay != "" {
		b, err := os.ReadFile(*replay)
		if err != nil {
			panic(err)
		}
		var wrap struct {
			Case json.RawMessage `json:"case"`
		}
		raw := json.RawMessage(b)
		for json.Unmarshal(raw, &wrap) == nil && wrap.Case != nil {
			raw = wrap.Case
			wrap.Case = nil
		}
		var probe map[string]json.RawMessage
		if err := json.Unmarshal(raw, &probe); err != nil {
			panic(err)
		}
		if _, ok := probe["lops"]; ok {
			var c LCase
			if err := json.Unmarshal(raw, &c); err != nil {
				panic(err)
			}
			msgMode(*seed, 0, *out, []LCase{c})
			return
		} else if _, ok := probe["gseed"]; ok {
			var c MCase
			if err := json.Unmarshal(raw, &c); err != nil {
				panic(err)
			}
			muxMode(*seed, 0, 0, *out, []MCase{c})
			return
		} else if _, ok := probe["rk"]; ok {
			var c RCase
			if err := json.Unmarshal(raw, &c); err != nil {
				panic(err)
			}
			rewardMode(*seed, 0, *out, []RCase{c})
			return
		} else if _, ok := probe["dops"]; ok {
			var c DCase
			if err := json.Unmarshal(raw, &c); err != nil {
				panic(err)
			}
			debondMode(*seed, 0, *out, []DCase{c})
			return
		} else if _, ok := probe["ops"]; ok {
			var c SeqCase
			if err := json.Unmarshal(raw, &c); err != nil {
				panic(err)
			}
			seqCases = []SeqCase{c}
			*mode = "seq"
		} else {
			var c ApiCase
			if err := json.Unmarshal(raw, &c); err != nil {
				panic(err)
			}
			apiCases = []ApiCase{c}
			*mode = "api"
		}
	}
	hdr := "From Verif Require Import Lib.Base Ledger.SharePool.\n"
	r := prng.New(*seed)
	switch *mode {
	case "api":
		wb := coqout.NewWriter(*out, hdr, "run_call", "out_eqb", 2500)
		sum := coqout.NewSummary("single calls of SharePool.Deposit/Withdraw/StakeForShares and MutableState.SlashEscrow: exhaustive grid balance,shares,amount in 0..grid (plus insufficient-source and holder>total variants), slash grid, and seeded boundary-heavy big numbers (2^64, 2^127, 2^128, 2^255, 2^256 each -1/0/+1, 10^18, related by +-1); non-trivial = the call succeeded and the floor actually rounded (result strictly below pro rata) or both pools were slashed; distinct = distinct case descriptions")
		if *replay == "" {
			apiCases = gridCases(*grid, *sgrid)
			// the pools named in the property
			for _, pc := range [][2]string{{"1", "3"}, {"0", "5"}, {"340282366920938463463374607431768211457", "170141183460469231731687303715884105728"}} {
				for _, a := range []string{"0", "1", "2", "5", "170141183460469231731687303715884105728"} {
					apiCases = append(apiCases, ApiCase{K: "deposit", B: pc[0], S: pc[1], Dst: "0", Src: a, A: a})
					apiCases = append(apiCases, ApiCase{K: "stake", B: pc[0], S: pc[1], A: a})
					apiCases = append(apiCases, ApiCase{K: "withdraw", B: pc[0], S: pc[1], Dst: "0", Src: a, A: a})
				}
			}
			for i := 0; i < *n; i++ {
				apiCases = append(apiCases, genApiBig(r.Fork()))
			}
		}
		seen := map[string]bool{}
		for _, c := range apiCases {
			res := runApi(c)
			key, _ := json.Marshal(c)
			if res.nontriv && !seen[string(key)] {
				sum.DistinctNontrivial++
			}
			seen[string(key)] = true
			sum.Evaluations++
			count(sum, res.stats)
			sum.Count("balance_size", bucket(c.B))
			sum.Count("shares_size", bucket(c.S))
			if sum.Evaluations%997 == 1 {
				sum.Sample(c, 3)
			}
			if res.coq != "" {
				wb.Add(hexify(res.coq), map[string]any{"case": c})
			}
			if res.violated != "" {
				sum.Violations = append(sum.Violations, map[string]any{"what": res.violated, "case": c})
			}
		}
		wb.Close()
		sum.Write(*out)
	case "seq":
		wb := coqout.NewWriter(*out, hdr, "run_seq", "seq_eqb", 60)
		sum := coqout.NewSummary("seeded multi-delegator sequences (2..30 operations; deposit / redeem by 1..4 delegators, reward, slash through SlashEscrow) on one real SharePool starting from empty, small odd-ratio, 2^64..2^256-scale and orphan pools with a passive holder; 55% of the sequences have no reward/slash, 25% a single acting delegator; non-trivial = some successful deposit or redemption actually rounded; distinct = distinct case descriptions")
		if *replay == "" {
			// the refutation witness of the naive per-delegator statement, replayed on the real code
			seqCases = append(seqCases, SeqCase{B: "10", S: "3", Hold: [][]string{{"1", "3"}}, Ops: []SeqOp{
				{K: "dep", D: 2, A: "5"}, {K: "dep", D: 1, A: "3"}, {K: "dep", D: 1, A: "3"}, {K: "dep", D: 1, A: "3"}, {K: "wd", D: 2, A: "1"}}})
			seqCases = append(seqCases, SeqCase{B: "7", S: "0", Hold: [][]string{}, Ops: []SeqOp{{K: "dep", D: 1, A: "5"}, {K: "wd", D: 1, A: "5"}}})
			for i := 0; i < *n; i++ {
				seqCases = append(seqCases, genSeq(r.Fork()))
			}
		}
		seen := map[string]bool{}
		for _, c := range seqCases {
			res := runSeq(c)
			key, _ := json.Marshal(c)
			if res.nontriv && !seen[string(key)] {
				sum.DistinctNontrivial++
			}
			seen[string(key)] = true
			sum.Evaluations++
			count(sum, res.stats)
			sum.Count("balance_size", bucket(c.B))
			sum.Count("seq_len", fmt.Sprint((len(c.Ops)+9)/10*10))
			sum.Sample(c, 2)
			if res.coq != "" {
				wb.Add(hexify(res.coq), map[string]any{"case": c})
			}
			if res.violated != "" {
				c2 := shrinkSeq(c, res)
				res2 := runSeq(c2)
				sum.Violations = append(sum.Violations, map[string]any{"what": res2.violated, "case": c2})
			}
		}
		wb.Close()
		sum.Write(*out)
	case "debond":
		debondMode(*seed, *n, *out, nil)
	case "reward":
		rewardMode(*seed, *n, *out, nil)
	case "msg":
		msgMode(*seed, *n, *out, nil)
	case "muxdebond":
		muxMode(*seed, *n, *blocks, *out, nil)
	default:
		fmt.Fprintln(os.Stderr, "unknown mode")
		os.Exit(2)
	}
}
