package main

// Message-level escrow stream (-mode msg): AddEscrow / ReclaimEscrow issued
// both as transactions (handler run in a transaction context that is dropped
// on failure, as the multiplexer does) and as runtime MESSAGES through the
// staking application's ExecuteMessage with NO enclosing rollback, exactly as
// roothash's processRuntimeMessages dispatches them, under consensus
// parameters MinTransactBalance in {0, 1, small, around the balances},
// MinDelegationAmount, AllowEscrowMessages; plus epoch transitions, rewards
// and slashes. Compared with Verif.Ledger.Msg after every operation. The
// oracle (S), after EVERY operation, failed or not: delegation shares add up
// to the pool's total shares (both pools), the total stake is conserved, a
// failed operation changes nothing, the sender is debited exactly when the
// pool is credited.

import (
	"bytes"
	"errors"
	"fmt"
	"math/big"
	"sort"

	beacon "github.com/oasisprotocol/oasis-core/go/beacon/api"
	"github.com/oasisprotocol/oasis-core/go/common/crypto/signature"
	"github.com/oasisprotocol/oasis-core/go/common/quantity"
	abciAPI "github.com/oasisprotocol/oasis-core/go/consensus/cometbft/api"
	roothashApi "github.com/oasisprotocol/oasis-core/go/consensus/cometbft/apps/roothash/api"
	stakingApp "github.com/oasisprotocol/oasis-core/go/consensus/cometbft/apps/staking"
	stakingState "github.com/oasisprotocol/oasis-core/go/consensus/cometbft/apps/staking/state"
	roothash "github.com/oasisprotocol/oasis-core/go/roothash/api"
	"github.com/oasisprotocol/oasis-core/go/roothash/api/message"
	staking "github.com/oasisprotocol/oasis-core/go/staking/api"

	"verifharness/internal/coqout"
	"verifharness/internal/prng"
)

type LOp struct {
	K   string `json:"k"` // add reclaim epoch rew slash
	Msg bool   `json:"msg,omitempty"`
	D   int    `json:"d,omitempty"`
	A   string `json:"a,omitempty"`
	Iv  uint64 `json:"iv,omitempty"`
	E   uint64 `json:"e,omitempty"`
}

type LCase struct {
	MinTransact string    `json:"min_transact"`
	MinDeleg    string    `json:"min_deleg"`
	AllowMsgs   bool      `json:"allow_msgs"`
	Epoch       uint64    `json:"epoch"`
	General     [3]string `json:"general"`
	PoolB       string    `json:"pool_b"`
	PoolS       string    `json:"pool_s"`
	Lops        []LOp     `json:"lops"`
}

func mcodeOf(err error) string {
	switch {
	case err == nil:
		return "MOk"
	case errors.Is(err, staking.ErrBalanceTooLow):
		return "MBalanceTooLow"
	case errors.Is(err, staking.ErrUnderMinDelegationAmount):
		return "MUnderMin"
	case errors.Is(err, staking.ErrForbidden):
		return "MForbidden"
	case errors.Is(err, staking.ErrInvalidArgument):
		return "MInvalidArgument"
	case errors.Is(err, quantity.ErrInsufficientBalance):
		return "MInsufficient"
	}
	return "other:" + err.Error()
}

type lsnap struct {
	general  [4]*big.Int
	act, deb [2]*big.Int
	shares   [4]*big.Int // 0 = the passive holder
	common   *big.Int
	queue    []string
	debTotal *big.Int
	key      string
}

// runMsg executes c; with gen != nil the operations are drawn adaptively from
// the current real state (nOps of them) and returned in the used case.
func runMsg(c LCase, gen *prng.R, nOps int) (res dResult, used LCase) {
	used = c
	defer func() {
		if e := recover(); e != nil {
			res.violated = fmt.Sprintf("implementation panicked: %v", e)
			res.coq = ""
		}
	}()
	viol := func(i int, f string, a ...any) {
		if res.violated == "" {
			res.violated = fmt.Sprintf("op %d: ", i) + fmt.Sprintf(f, a...)
		}
	}
	cfg := &abciAPI.MockApplicationStateConfig{CurrentEpoch: beacon.EpochTime(c.Epoch)}
	appState := abciAPI.NewMockApplicationState(cfg)
	ctx := appState.NewContext(abciAPI.ContextEndBlock)
	defer ctx.Close()
	st := stakingState.NewMutableState(ctx.State())
	app := stakingApp.VerifNewApplication(appState)
	setParams := func(iv uint64) {
		if err := st.SetConsensusParameters(ctx, &staking.ConsensusParameters{
			DebondingInterval:   beacon.EpochTime(iv),
			MinTransactBalance:  *qs(c.MinTransact),
			MinDelegationAmount: *qs(c.MinDeleg),
			AllowEscrowMessages: c.AllowMsgs,
		}); err != nil {
			panic(err)
		}
	}
	setParams(1)
	var pks []signature.PublicKey
	for i := 0; i < 5; i++ {
		var pk signature.PublicKey
		_ = pk.UnmarshalHex(fmt.Sprintf("%064x", 0x3333*(i+1)))
		pks = append(pks, pk)
	}
	escAddr := staking.NewAddress(pks[0])
	passive := staking.NewAddress(pks[1])
	dpk := pks[2:]
	sort.Slice(dpk, func(i, j int) bool {
		a, b := staking.NewAddress(dpk[i]), staking.NewAddress(dpk[j])
		return bytes.Compare(a[:], b[:]) < 0
	})
	addrOf := func(d int) staking.Address { return staking.NewAddress(dpk[d-1]) }
	idOf := map[staking.Address]int{passive: 0}
	for d := 1; d <= 3; d++ {
		idOf[addrOf(d)] = d
		var acct staking.Account
		acct.General.Balance = *qs(c.General[d-1])
		if err := st.SetAccount(ctx, addrOf(d), &acct); err != nil {
			panic(err)
		}
	}
	{
		var ea staking.Account
		ea.Escrow.Active = *poolOf(bi(c.PoolB), bi(c.PoolS))
		if err := st.SetAccount(ctx, escAddr, &ea); err != nil {
			panic(err)
		}
		if err := st.SetDelegation(ctx, passive, escAddr, &staking.Delegation{Shares: *qs(c.PoolS)}); err != nil {
			panic(err)
		}
		_ = st.SetCommonPool(ctx, quantity.NewQuantity())
	}
	take := func() lsnap {
		var s lsnap
		ea, err := st.Account(ctx, escAddr)
		if err != nil {
			panic(err)
		}
		s.act = [2]*big.Int{ea.Escrow.Active.Balance.ToBigInt(), ea.Escrow.Active.TotalShares.ToBigInt()}
		s.deb = [2]*big.Int{ea.Escrow.Debonding.Balance.ToBigInt(), ea.Escrow.Debonding.TotalShares.ToBigInt()}
		s.general[0] = new(big.Int)
		for d := 1; d <= 3; d++ {
			a, err := st.Account(ctx, addrOf(d))
			if err != nil {
				panic(err)
			}
			s.general[d] = a.General.Balance.ToBigInt()
		}
		for d := 0; d <= 3; d++ {
			s.shares[d] = new(big.Int)
		}
		dels, err := st.Delegations(ctx)
		if err != nil {
			panic(err)
		}
		for esc, m := range dels {
			if esc != escAddr {
				panic("unexpected escrow account")
			}
			for delegator, dl := range m {
				id, ok := idOf[delegator]
				if !ok {
					panic("unexpected delegator")
				}
				s.shares[id] = dl.Shares.ToBigInt()
			}
		}
		cp, err := st.CommonPool(ctx)
		if err != nil {
			panic(err)
		}
		s.common = cp.ToBigInt()
		debs, err := st.DebondingDelegations(ctx)
		if err != nil {
			panic(err)
		}
		type qe struct {
			end uint64
			d   int
			sh  *big.Int
		}
		var q []qe
		s.debTotal = new(big.Int)
		for _, m := range debs {
			for delegator, list := range m {
				for _, dd := range list {
					q = append(q, qe{uint64(dd.DebondEndTime), idOf[delegator], dd.Shares.ToBigInt()})
					s.debTotal.Add(s.debTotal, dd.Shares.ToBigInt())
				}
			}
		}
		sort.Slice(q, func(i, j int) bool {
			if q[i].end != q[j].end {
				return q[i].end < q[j].end
			}
			return q[i].d < q[j].d
		})
		for _, x := range q {
			s.queue = append(s.queue, fmt.Sprintf("(%d, %d, %s)", x.end, x.d, x.sh))
		}
		s.key = fmt.Sprint(s.general, s.act, s.deb, s.shares, s.common, s.queue)
		return s
	}
	obsTerm := func(s lsnap) string {
		nums := []string{s.general[1].String(), s.general[2].String(), s.general[3].String(),
			s.act[0].String(), s.act[1].String(), s.deb[0].String(), s.deb[1].String(),
			s.shares[1].String(), s.shares[2].String(), s.shares[3].String()}
		q := coqout.List(s.queue)
		if len(s.queue) == 0 {
			q = "(@nil (N * N * N))"
		}
		return fmt.Sprintf("(%s, %s)", coqout.List(nums), q)
	}
	totalOf := func(s lsnap) *big.Int {
		t := add(add(s.act[0], s.deb[0]), s.common)
		for d := 1; d <= 3; d++ {
			t = add(t, s.general[d])
		}
		return t
	}
	pre := take()
	total := totalOf(pre)
	epoch := c.Epoch
	if gen != nil {
		used.Lops = nil
	}
	var opTerms, obsTerms []string
	for i := 0; ; i++ {
		var o LOp
		if gen != nil {
			if i >= nOps {
				break
			}
			r := gen
			x := r.Intn(100)
			d := r.Range(1, 3)
			mt, g := bi(c.MinTransact), pre.general[d]
			switch {
			case x < 45:
				// amounts around what keeps the sender at the minimum balance
				room := sub(g, mt)
				var a *big.Int
				switch r.Intn(9) {
				case 0:
					a = room
				case 1:
					a = add(room, big.NewInt(1))
				case 2:
					a = g
				case 3:
					a = add(g, big.NewInt(1))
				case 4:
					a = big.NewInt(int64(r.Intn(12)))
				default:
					if room.Sign() > 0 {
						a = new(big.Int).Mod(new(big.Int).SetBytes(r.Bytes(33)), add(room, big.NewInt(2)))
					} else {
						a = big.NewInt(int64(r.Intn(30)))
					}
				}
				if a.Sign() < 0 {
					a = big.NewInt(0)
				}
				o = LOp{K: "add", Msg: r.Chance(55), D: d, A: a.String()}
			case x < 72:
				have := pre.shares[d]
				if have.Sign() == 0 {
					for dd := 1; dd <= 3; dd++ {
						if pre.shares[dd].Sign() > 0 {
							d, have = dd, pre.shares[dd]
						}
					}
				}
				if have.Sign() == 0 && r.Chance(80) {
					o = LOp{K: "add", Msg: r.Chance(55), D: d, A: big.NewInt(int64(r.Range(1, 40))).String()}
					break
				}
				a := big.NewInt(0)
				if have.Sign() > 0 {
					a = add(new(big.Int).Mod(new(big.Int).SetBytes(r.Bytes(33)), have), big.NewInt(1))
				}
				switch r.Intn(9) {
				case 0:
					a = have
				case 1:
					a = add(have, big.NewInt(1))
				case 2:
					a = big.NewInt(0)
				}
				o = LOp{K: "reclaim", Msg: r.Chance(55), D: d, A: a.String(), Iv: uint64(r.Intn(3))}
			case x < 86:
				if !r.Chance(10) {
					epoch += uint64(r.Range(1, 2))
				}
				o = LOp{K: "epoch", E: epoch}
			case x < 93:
				o = LOp{K: "rew", A: big.NewInt(int64(r.Intn(60))).String()}
			default:
				am := big.NewInt(int64(r.Intn(60)))
				if r.Chance(25) {
					am = add(add(pre.act[0], pre.deb[0]), big.NewInt(int64(r.Intn(3))))
				}
				o = LOp{K: "slash", A: am.String()}
			}
			used.Lops = append(used.Lops, o)
		} else {
			if i >= len(c.Lops) {
				break
			}
			o = c.Lops[i]
		}
		// ---- execute
		code := "MOk"
		dispatch := func(m *message.StakingMessage) error {
			// exactly as roothash's processRuntimeMessages: a child of the transaction
			// context with the caller address set, no checkpoint around the message
			txCtx := appState.NewContext(abciAPI.ContextDeliverTx)
			defer txCtx.Close()
			msgCtx := txCtx.WithCallerAddress(addrOf(o.D))
			defer msgCtx.Close()
			msgCtx.SetGasAccountant(abciAPI.NewNopGasAccountant())
			_, err := app.ExecuteMessage(msgCtx, abciAPI.Message{Sender: roothash.ModuleName, Kind: roothashApi.RuntimeMessageStaking, Data: m})
			return err
		}
		asTx := func(f func(sub *abciAPI.Context, stx *stakingState.MutableState) error) error {
			// as the multiplexer executes a transaction: in an overlay committed only on success
			txCtx := appState.NewContext(abciAPI.ContextDeliverTx)
			defer txCtx.Close()
			txCtx.SetTxSigner(dpk[o.D-1])
			sub := txCtx.NewTransaction()
			defer sub.Close()
			err := f(sub, stakingState.NewMutableState(sub.State()))
			if err == nil {
				sub.Commit()
			}
			return err
		}
		flag := "false"
		if o.Msg {
			flag = "true"
		}
		switch o.K {
		case "add":
			var err error
			if o.Msg {
				err = dispatch(&message.StakingMessage{AddEscrow: &staking.Escrow{Account: escAddr, Amount: *qs(o.A)}})
			} else {
				err = asTx(func(sub *abciAPI.Context, stx *stakingState.MutableState) error {
					_, e := app.VerifAddEscrow(sub, stx, &staking.Escrow{Account: escAddr, Amount: *qs(o.A)})
					return e
				})
			}
			code = mcodeOf(err)
			opTerms = append(opTerms, fmt.Sprintf("LAdd %s %d %s", flag, o.D, o.A))
		case "reclaim":
			setParams(o.Iv)
			var err error
			if o.Msg {
				err = dispatch(&message.StakingMessage{ReclaimEscrow: &staking.ReclaimEscrow{Account: escAddr, Shares: *qs(o.A)}})
			} else {
				err = asTx(func(sub *abciAPI.Context, stx *stakingState.MutableState) error {
					_, e := app.VerifReclaimEscrow(sub, stx, &staking.ReclaimEscrow{Account: escAddr, Shares: *qs(o.A)})
					return e
				})
			}
			code = mcodeOf(err)
			opTerms = append(opTerms, fmt.Sprintf("LReclaim %s %d %s %d", flag, o.D, o.A, o.Iv))
		case "epoch":
			cfg.CurrentEpoch = beacon.EpochTime(o.E)
			appState.UpdateMockApplicationStateConfig(cfg)
			if err := app.VerifOnEpochChange(ctx, beacon.EpochTime(o.E)); err != nil {
				viol(i, "onEpochChange failed: %v", err)
			}
			opTerms = append(opTerms, fmt.Sprintf("LEpoch %d", o.E))
		case "rew":
			ea, _ := st.Account(ctx, escAddr)
			_ = ea.Escrow.Active.Balance.Add(qs(o.A))
			if err := st.SetAccount(ctx, escAddr, ea); err != nil {
				panic(err)
			}
			total = add(total, bi(o.A))
			opTerms = append(opTerms, fmt.Sprintf("LReward %s", o.A))
		case "slash":
			if _, err := st.SlashEscrow(ctx, escAddr, qs(o.A)); err != nil {
				panic(err)
			}
			opTerms = append(opTerms, fmt.Sprintf("LSlash %s", o.A))
		default:
			panic("unknown lop " + o.K)
		}
		path := "tx"
		if o.Msg {
			path = "msg"
		}
		if o.K == "add" || o.K == "reclaim" {
			res.stats = append(res.stats, "lop:"+o.K+"-"+path+"-"+code)
			if code == "MOk" && o.Msg {
				res.nontriv = true
			}
			if len(code) > 6 && code[:6] == "other:" {
				viol(i, "unexpected error %s", code)
			}
		} else {
			res.stats = append(res.stats, "lop:"+o.K)
		}
		post := take()
		obsTerms = append(obsTerms, fmt.Sprintf("(%s, %s)", code, obsTerm(post)))
		// ---- S, after every operation, failed or not
		sum := new(big.Int)
		for d := 0; d <= 3; d++ {
			sum.Add(sum, post.shares[d])
		}
		if sum.Cmp(post.act[1]) != 0 {
			viol(i, "%s (%s, %s): delegations hold %s active shares, the pool's total is %s", o.K, path, code, sum, post.act[1])
		}
		if post.debTotal.Cmp(post.deb[1]) != 0 {
			viol(i, "%s (%s, %s): debonding delegations hold %s shares, the debonding pool's total is %s", o.K, path, code, post.debTotal, post.deb[1])
		}
		if t := totalOf(post); t.Cmp(total) != 0 {
			viol(i, "%s (%s, %s): total stake %s, expected %s (stake created or destroyed)", o.K, path, code, t, total)
		}
		if code != "MOk" && post.key != pre.key {
			viol(i, "failed %s (%s, %s) changed the ledger: %s -> %s", o.K, path, code, pre.key, post.key)
		}
		if o.K == "add" {
			deb, cred := sub(pre.general[o.D], post.general[o.D]), sub(post.act[0], pre.act[0])
			if deb.Cmp(cred) != 0 {
				viol(i, "add (%s, %s): sender debited %s, pool credited %s", path, code, deb, cred)
			}
			if code == "MOk" && (deb.Cmp(bi(o.A)) != 0 || post.general[o.D].Cmp(bi(c.MinTransact)) < 0) {
				viol(i, "add (%s): moved %s for amount %s, sender left with %s (minimum %s)", path, deb, o.A, post.general[o.D], c.MinTransact)
			}
		}
		pre = post
	}
	opT, obsT := coqout.List(opTerms), coqout.List(obsTerms)
	if len(opTerms) == 0 {
		opT, obsT = "(@nil lop)", "(@nil lout)"
	}
	al := "false"
	if c.AllowMsgs {
		al = "true"
	}
	res.coq = fmt.Sprintf("(((mkMP %s %s %s, %d, (%s, %s, %s), (%s, %s)), %s), %s)", c.MinTransact, c.MinDeleg, al, c.Epoch,
		c.General[0], c.General[1], c.General[2], c.PoolB, c.PoolS, opT, obsT)
	return res, used
}

func genMsgCase(r *prng.R) LCase {
	c := LCase{Epoch: uint64(r.Intn(4)), AllowMsgs: !r.Chance(12)}
	bigMode := r.Chance(20)
	for i := 0; i < 3; i++ {
		g := big.NewInt(int64(r.Intn(300)))
		if bigMode {
			g = pick(r)
		} else if r.Chance(30) {
			g = big.NewInt(int64(r.Range(1000, 100000)))
		}
		c.General[i] = g.String()
	}
	g0 := bi(c.General[r.Intn(3)])
	switch r.Intn(5) {
	case 0:
		c.MinTransact = "0"
	case 1:
		c.MinTransact = "1"
	case 2:
		c.MinTransact = fmt.Sprint(r.Range(2, 50))
	case 3:
		c.MinTransact = near(r, g0).String()
		if r.Chance(50) {
			c.MinTransact = new(big.Int).Rsh(g0, 1).String()
		}
	default:
		c.MinTransact = fmt.Sprint(r.Range(50, 2000))
	}
	c.MinDeleg = []string{"0", "0", "1", "10"}[r.Intn(4)]
	switch r.Intn(6) {
	case 0:
		c.PoolB, c.PoolS = "0", "0"
	case 1:
		c.PoolB, c.PoolS = "0", fmt.Sprint(r.Range(1, 9)) // dead pool
	case 2:
		b := pick(r)
		c.PoolB, c.PoolS = b.String(), near(r, b).String()
	default:
		c.PoolB, c.PoolS = fmt.Sprint(r.Range(1, 5000)), fmt.Sprint(r.Range(1, 5000))
	}
	return c
}

func msgMode(seed uint64, n int, out string, replayed []LCase) {
	hdr := "From Verif Require Import Lib.Base Ledger.SharePool Ledger.Debond Ledger.Msg.\n"
	wb := coqout.NewWriter(out, hdr, "run_msgs", "msgs_eqb", 60)
	sum := coqout.NewSummary("seeded histories (6..36 operations) of AddEscrow / ReclaimEscrow issued as transactions (overlay dropped on failure) and as runtime messages through the staking application's ExecuteMessage without any rollback (55% messages), epoch transitions, rewards and slashes, for 3 senders and one escrow account with a passive holder, under MinTransactBalance in {0, 1, 2..50, 50..2000, near / half a sender's balance}, MinDelegationAmount in {0,1,10}, AllowEscrowMessages (88% true); add amounts drawn around balance - MinTransactBalance (exactly, one more), the whole balance, one more than the balance, small; reclaim amounts within the shares, all, one too many, zero; balances small, 10^3..10^5 and (20%) 2^64..2^256-scale; pools empty, dead, small odd ratios, big; non-trivial = some message (not transaction) succeeded; distinct = distinct case descriptions")
	type job struct {
		c   LCase
		gen *prng.R
		n   int
	}
	var jobs []job
	if replayed != nil {
		for _, c := range replayed {
			jobs = append(jobs, job{c, nil, 0})
		}
	} else {
		// the rejected-escrow-message scenario written out
		jobs = append(jobs, job{LCase{MinTransact: "1000", MinDeleg: "0", AllowMsgs: true, Epoch: 1, General: [3]string{"10000", "0", "0"}, PoolB: "5000", PoolS: "5000",
			Lops: []LOp{{K: "add", Msg: true, D: 1, A: "9500"}, {K: "add", Msg: false, D: 1, A: "9500"}, {K: "add", Msg: true, D: 1, A: "9000"},
				{K: "reclaim", Msg: true, D: 1, A: "9000", Iv: 1}, {K: "epoch", E: 2}}}, nil, 0})
		r := prng.New(seed)
		for i := 0; i < n; i++ {
			g := r.Fork()
			jobs = append(jobs, job{genMsgCase(g), g, g.Range(6, 36)})
		}
	}
	seen := map[string]bool{}
	for _, j := range jobs {
		res, used := runMsg(j.c, j.gen, j.n)
		key := fmt.Sprint(used)
		if res.nontriv && !seen[key] {
			sum.DistinctNontrivial++
		}
		seen[key] = true
		sum.Evaluations++
		count(sum, res.stats)
		mt := bi(used.MinTransact)
		switch {
		case mt.Sign() == 0:
			sum.Count("min_transact", "0")
		case mt.Cmp(big.NewInt(1)) == 0:
			sum.Count("min_transact", "1")
		case mt.Cmp(big.NewInt(50)) <= 0:
			sum.Count("min_transact", "2..50")
		default:
			sum.Count("min_transact", ">50")
		}
		sum.Sample(used, 1)
		if res.coq != "" {
			wb.Add(hexify(res.coq), map[string]any{"case": used})
		}
		if res.violated != "" {
			// greedy shrink: drop operations while a violation of the same kind remains
			kind := func(w string) string {
				if k := bytes.IndexByte([]byte(w), ':'); k >= 0 && k+2 < len(w) {
					w = w[k+2:]
				}
				if len(w) > 12 {
					w = w[:12]
				}
				return w
			}
			want := kind(res.violated)
			cur := used
			for changed := true; changed; {
				changed = false
				for k := 0; k < len(cur.Lops); k++ {
					cand := cur
					cand.Lops = append(append([]LOp{}, cur.Lops[:k]...), cur.Lops[k+1:]...)
					r2, _ := runMsg(cand, nil, 0)
					if r2.violated != "" && kind(r2.violated) == want {
						cur = cand
						changed = true
						k--
					}
				}
			}
			r3, _ := runMsg(cur, nil, 0)
			sum.Violations = append(sum.Violations, map[string]any{"what": r3.violated, "case": cur})
		}
	}
	wb.Close()
	sum.Write(out)
}
