package main

// Debonding through the REAL ABCI multiplexer (-mode muxdebond): signed
// add-escrow / reclaim-escrow transactions with fees by three delegators of a
// validator entity, epoch transitions by block height (insecure beacon),
// the entity's rewards with commission and duplicate-vote evidence (slashing),
// executed block by block with verifharness/internal/muxdrv. Every block is
// translated into operations of Verif.Ledger.Debond: the delegators'
// transactions as submitted, rewards / commission deposits / slashes from the
// block's staking events in order, the epoch transition where onEpochChange
// runs; compared after each block: transaction result classes, both pools,
// the delegators' shares, their cumulative pay-outs and the debonding queue.
// The oracle additionally checks the fee path: a delegator's general balance
// moves by exactly -fees -escrowed +paid-out, pay-outs happen only in the
// block of the first epoch at or after the end epoch.

import (
	"fmt"
	"math/big"
	"sort"
	"strings"

	"github.com/cometbft/cometbft/abci/types"

	"github.com/oasisprotocol/oasis-core/go/consensus/api/events"
	staking "github.com/oasisprotocol/oasis-core/go/staking/api"

	"verifharness/internal/coqout"
	"verifharness/internal/muxdrv"
	"verifharness/internal/prng"
)

const stakingEvType = "oasis_event_100_staking"

type MTx struct {
	K   string `json:"k"` // add reclaim
	D   int    `json:"d"`
	A   uint64 `json:"a"`
	Fee uint64 `json:"fee"`
}

type MBlock struct {
	Txs      []MTx `json:"txs,omitempty"`
	Evidence bool  `json:"evidence,omitempty"` // duplicate vote of the escrow entity's validator
}

type MCase struct {
	GSeed   uint64   `json:"gseed"`
	Mblocks []MBlock `json:"mblocks"`
}

type muxResult struct {
	coq      string
	violated string
	nontriv  bool
	stats    []string
	skipped  string
}

func txClass(tr *muxdrv.TxResult) string {
	switch {
	case tr.Code == 0:
		return "COk"
	case tr.Codespace == "staking" && tr.Code == 1:
		return "CInvalidArgument"
	case strings.Contains(tr.Log, "insufficient balance"):
		return "CInsufficient"
	}
	return fmt.Sprintf("other:%s/%d/%s", tr.Codespace, tr.Code, tr.Log)
}

func runMux(c MCase, genMode *prng.R, nBlocks int) (res muxResult, used MCase) {
	used = c
	defer func() {
		if e := recover(); e != nil {
			res.violated = fmt.Sprintf("implementation panicked: %v", e)
			res.coq = ""
		}
	}()
	viol := func(h int64, f string, a ...any) {
		if res.violated == "" {
			res.violated = fmt.Sprintf("height %d: ", h) + fmt.Sprintf(f, a...)
		}
	}
	g, err := muxdrv.NewGenesis(c.GSeed, muxdrv.GenesisOpts{Validators: 4, Accounts: 10, EpochInterval: 3})
	if err != nil {
		panic(err)
	}
	rep, err := muxdrv.NewReplica(g, muxdrv.ReplicaConfig{Name: "p", Identity: g.Validators[0].Identity})
	if err != nil {
		panic(err)
	}
	defer rep.Close()
	chain := muxdrv.NewChain(g)
	params := g.Doc.Staking.Parameters
	iv := uint64(params.DebondingInterval)
	slashParam := params.Slashing[staking.SlashConsensusEquivocation]
	slashAmt := slashParam.Amount.ToBigInt()
	escV := g.Validators[1]
	escAddr := escV.EntityAddress()
	// delegators 1..3 in address order (debonding queue key order)
	dacc := []*muxdrv.Account{g.Accounts[1], g.Accounts[2], g.Accounts[4]}
	sort.Slice(dacc, func(i, j int) bool {
		return strings.Compare(string(dacc[i].Address[:]), string(dacc[j].Address[:])) < 0
	})
	idOf := map[staking.Address]int{}
	for i, a := range dacc {
		idOf[a.Address] = i + 1
	}
	const entID = 9

	type snap struct {
		epoch     uint64
		act, deb  [2]*big.Int
		shares    map[int]*big.Int
		general   map[int]*big.Int
		nonce     map[int]uint64
		queue     [][3]string
		queueEnds []uint64
	}
	take := func() snap {
		d, err := muxdrv.DumpStaking(rep, 0)
		if err != nil {
			panic(err)
		}
		s := snap{epoch: d.Epoch, shares: map[int]*big.Int{}, general: map[int]*big.Int{}, nonce: map[int]uint64{}}
		for _, a := range d.Accounts {
			if a.Address == escAddr.String() {
				s.act = [2]*big.Int{bi(a.Active.Balance), bi(a.Active.TotalShares)}
				s.deb = [2]*big.Int{bi(a.Debonding.Balance), bi(a.Debonding.TotalShares)}
			}
			for i, da := range dacc {
				if a.Address == da.Address.String() {
					s.general[i+1] = bi(a.Balance)
					s.nonce[i+1] = a.Nonce
				}
			}
		}
		for i := 1; i <= 3; i++ {
			s.shares[i] = new(big.Int)
		}
		for _, dl := range d.Delegations {
			if dl.Escrow != escAddr.String() {
				continue
			}
			for i, da := range dacc {
				if dl.Delegator == da.Address.String() {
					s.shares[i+1] = bi(dl.Shares)
				}
			}
		}
		type qe struct {
			end uint64
			d   int
			sh  string
		}
		var q []qe
		for _, db := range d.Debonding {
			if db.Escrow != escAddr.String() {
				continue
			}
			id := 0
			for i, da := range dacc {
				if db.Delegator == da.Address.String() {
					id = i + 1
				}
			}
			q = append(q, qe{db.EndEpoch, id, db.Shares})
		}
		sort.Slice(q, func(i, j int) bool {
			if q[i].end != q[j].end {
				return q[i].end < q[j].end
			}
			return q[i].d < q[j].d
		})
		for _, x := range q {
			s.queue = append(s.queue, [3]string{fmt.Sprint(x.end), fmt.Sprint(x.d), x.sh})
			s.queueEnds = append(s.queueEnds, x.end)
		}
		return s
	}
	// warm-up block: state queries need one committed block
	{
		in := chain.NewBlock(g.Validators[0].ConsAddr, muxdrv.VotesAll, nil)
		txs, err := rep.Propose(in, nil)
		if err != nil {
			panic(err)
		}
		br, err := rep.Process(in, txs)
		if err != nil {
			panic(err)
		}
		chain.Applied(br)
	}
	if s0 := take(); s0.act[0] == nil {
		panic("escrow account not in the dump")
	}
	pre := take()
	modelEpoch := pre.epoch
	init := fmt.Sprintf("(%d, %s, %s)", pre.epoch, pre.act[0], pre.act[1])
	paidTotal := map[int]*big.Int{1: new(big.Int), 2: new(big.Int), 3: new(big.Int)}
	var blockTerms, obsTerms []string
	evidenceUsed := false

	if genMode != nil {
		used.Mblocks = nil
	}
	for b := 0; ; b++ {
		var blk MBlock
		if genMode != nil {
			if b >= nBlocks {
				break
			}
			// draw this block from the current real state
			r := genMode
			ntx := r.Intn(4)
			local := map[int]*big.Int{}
			for i := 1; i <= 3; i++ {
				local[i] = new(big.Int).Set(pre.shares[i])
			}
			for i := 0; i < ntx; i++ {
				d := r.Range(1, 3)
				fee := uint64(r.Intn(30))
				if r.Chance(45) || local[d].Sign() == 0 {
					blk.Txs = append(blk.Txs, MTx{K: "add", D: d, A: uint64(r.Range(10, 6000)), Fee: fee})
				} else {
					have := local[d].Uint64()
					a := 1 + r.U64()%have
					switch r.Intn(10) {
					case 0:
						a = have
					case 1:
						a = have + 1 + uint64(r.Intn(3))
					case 2:
						a = 0
					}
					if a <= have {
						local[d].Sub(local[d], new(big.Int).SetUint64(a))
					}
					blk.Txs = append(blk.Txs, MTx{K: "reclaim", D: d, A: a, Fee: fee})
				}
			}
			if !evidenceUsed && b > 4 && r.Chance(7) {
				blk.Evidence = true
			}
			used.Mblocks = append(used.Mblocks, blk)
		} else {
			if b >= len(c.Mblocks) {
				break
			}
			blk = c.Mblocks[b]
		}
		height := chain.Next
		var mis []types.Misbehavior
		if blk.Evidence && height > 3 {
			evidenceUsed = true
			for _, v := range chain.ValidatorsAt(height - 2) {
				if string(v.Address) == string(escV.ConsAddr) {
					mis = append(mis, chain.DuplicateVote(v.Address, v.Power, height-2))
				}
			}
		}
		in := chain.NewBlock(g.Validators[0].ConsAddr, muxdrv.VotesAll, mis)
		var cand [][]byte
		nonces := map[int]uint64{}
		for i := 1; i <= 3; i++ {
			nonces[i] = pre.nonce[i]
		}
		for _, t := range blk.Txs {
			key := dacc[t.D-1].Key
			fee := muxdrv.Fee(t.Fee, muxdrv.DefaultGas)
			if t.K == "add" {
				cand = append(cand, muxdrv.Sign(key, muxdrv.TxAddEscrow(nonces[t.D], fee, escAddr, t.A)))
			} else {
				cand = append(cand, muxdrv.Sign(key, muxdrv.TxReclaimEscrow(nonces[t.D], fee, escAddr, t.A)))
			}
			nonces[t.D]++
		}
		txs, err := rep.Propose(in, cand)
		if err != nil {
			viol(height, "propose failed: %v", err)
			break
		}
		if len(txs) != len(cand)+1 {
			res.skipped = fmt.Sprintf("proposal has %d of %d transactions at height %d (chain cannot continue)", len(txs), len(cand)+1, height)
			break
		}
		br, err := rep.Process(in, txs)
		if err != nil {
			viol(height, "block execution failed: %v", err)
			break
		}
		chain.Applied(br)
		post := take()

		// ---- translate the block into model operations
		var ops, codes []string
		paidNow := map[int]*big.Int{1: new(big.Int), 2: new(big.Int), 3: new(big.Int)}
		escrowed := map[int]*big.Int{1: new(big.Int), 2: new(big.Int), 3: new(big.Int)}
		fees := map[int]*big.Int{1: new(big.Int), 2: new(big.Int), 3: new(big.Int)}
		fromEvents := func(evs []muxdrv.Event, inEnd bool) {
			for _, e := range evs {
				if e.Type != stakingEvType {
					continue
				}
				for _, a := range e.Attrs {
					switch a[0] {
					case "add_escrow":
						var x staking.AddEscrowEvent
						if err := events.DecodeValue(a[1], &x); err != nil {
							panic(err)
						}
						if x.Escrow != escAddr {
							continue
						}
						if x.Owner == staking.CommonPoolAddress {
							ops, codes = append(ops, fmt.Sprintf("DReward %s", x.Amount.ToBigInt())), append(codes, "COk")
							res.stats = append(res.stats, "mux:reward")
						} else if x.Owner == escAddr {
							ops, codes = append(ops, fmt.Sprintf("DAdd %d %s", entID, x.Amount.ToBigInt())), append(codes, "COk")
							res.stats = append(res.stats, "mux:commission-deposit")
						}
					case "take_escrow":
						var x staking.TakeEscrowEvent
						if err := events.DecodeValue(a[1], &x); err != nil {
							panic(err)
						}
						if x.Owner != escAddr {
							continue
						}
						ops, codes = append(ops, fmt.Sprintf("DSlash %s", slashAmt)), append(codes, "COk")
						res.stats = append(res.stats, "mux:slash")
						if x.DebondingAmount.ToBigInt().Sign() > 0 {
							res.stats = append(res.stats, "mux:slash-hit-debonding")
						}
					case "reclaim_escrow":
						var x staking.ReclaimEscrowEvent
						if err := events.DecodeValue(a[1], &x); err != nil {
							panic(err)
						}
						if x.Escrow != escAddr {
							continue
						}
						if id := idOf[x.Owner]; id != 0 {
							paidNow[id].Add(paidNow[id], x.Amount.ToBigInt())
							res.stats = append(res.stats, "mux:payout")
							if !inEnd {
								viol(height, "debonding pay-out outside EndBlock")
							}
						}
					}
				}
			}
		}
		fromEvents(br.BeginEvents, false)
		for i, t := range blk.Txs {
			tr := &br.TxResults[i]
			cls := txClass(tr)
			if strings.HasPrefix(cls, "other:") {
				viol(height, "transaction %v failed unexpectedly: %s", t, cls)
			}
			fees[t.D].Add(fees[t.D], new(big.Int).SetUint64(t.Fee))
			if t.K == "add" {
				ops = append(ops, fmt.Sprintf("DAdd %d %d", t.D, t.A))
				if cls == "COk" {
					escrowed[t.D].Add(escrowed[t.D], new(big.Int).SetUint64(t.A))
				}
			} else {
				// the transaction sees the epoch of this block; the model's epoch moves at EndBlock
				ops = append(ops, fmt.Sprintf("DReclaim %d %d %d", t.D, t.A, post.epoch-modelEpoch+iv))
				if cls == "COk" {
					res.nontriv = true
				}
			}
			codes = append(codes, cls)
			res.stats = append(res.stats, "muxtx:"+t.K+"-"+cls)
		}
		if post.epoch != modelEpoch {
			ops, codes = append(ops, fmt.Sprintf("DEpoch %d", post.epoch)), append(codes, "COk")
			modelEpoch = post.epoch
			res.stats = append(res.stats, "mux:epoch")
		}
		fromEvents(br.EndEvents, true)
		for i := range blk.Txs {
			for _, e := range br.TxResults[i].Events {
				if e.Type == stakingEvType {
					for _, a := range e.Attrs {
						if a[0] == "reclaim_escrow" {
							viol(height, "debonding pay-out inside a transaction")
						}
					}
				}
			}
		}
		opTerm := coqout.List(ops)
		if len(ops) == 0 {
			opTerm = "(@nil dop)"
		}
		codeTerm := coqout.List(codes)
		if len(codes) == 0 {
			codeTerm = "(@nil code)"
		}
		blockTerms = append(blockTerms, opTerm)
		var nums []string
		nums = append(nums, post.act[0].String(), post.act[1].String(), post.deb[0].String(), post.deb[1].String())
		for i := 1; i <= 3; i++ {
			nums = append(nums, post.shares[i].String())
		}
		for i := 1; i <= 3; i++ {
			paidTotal[i].Add(paidTotal[i], paidNow[i])
			nums = append(nums, paidTotal[i].String())
		}
		var qt []string
		for _, x := range post.queue {
			qt = append(qt, fmt.Sprintf("(%s, %s, %s)", x[0], x[1], x[2]))
		}
		qterm := coqout.List(qt)
		if len(qt) == 0 {
			qterm = "(@nil (N * N * N))"
		}
		obsTerms = append(obsTerms, fmt.Sprintf("(%s, (%s, %s))", codeTerm, coqout.List(nums), qterm))

		// ---- S: fee path and pay-out timing
		for i := 1; i <= 3; i++ {
			want := add(sub(sub(pre.general[i], fees[i]), escrowed[i]), paidNow[i])
			if want.Cmp(post.general[i]) != 0 {
				viol(height, "delegator %d general balance %s -> %s, expected %s (fees %s, escrowed %s, paid out %s)", i, pre.general[i], post.general[i], want, fees[i], escrowed[i], paidNow[i])
			}
			if paidNow[i].Sign() > 0 && post.epoch == pre.epoch {
				viol(height, "delegator %d was paid %s in a block without an epoch transition", i, paidNow[i])
			}
		}
		for k, end := range post.queueEnds {
			// the debonding interval is >= 1, so nothing queued may end at or before the current epoch
			if end <= post.epoch {
				viol(height, "debonding delegation %v still queued at epoch %d", post.queue[k], post.epoch)
			}
		}
		if post.epoch != pre.epoch {
			for k, end := range pre.queueEnds {
				if end <= post.epoch {
					id := 0
					fmt.Sscan(pre.queue[k][1], &id)
					if id != 0 && paidNow[id].Sign() == 0 && pre.deb[0].Sign() > 0 && bi(pre.queue[k][2]).Sign() > 0 {
						// (a zero pay-out is possible only for dust; checked against the model)
						res.stats = append(res.stats, "mux:zero-payout")
					}
				}
			}
		}
		pre = post
	}
	res.coq = fmt.Sprintf("((%s, %s), %s)", init, coqout.List(blockTerms), coqout.List(obsTerms))
	if len(blockTerms) == 0 {
		res.coq = ""
	}
	return res, used
}

func muxMode(seed uint64, n int, blocks int, out string, replayed []MCase) {
	hdr := "From Verif Require Import Lib.Base Ledger.SharePool Ledger.Debond.\n"
	wb := coqout.NewWriter(out, hdr, "run_debond_blocks", "blocks_eqb", 8)
	sum := coqout.NewSummary("histories of real blocks through the ABCI multiplexer (muxdrv: 4 validators, 10 accounts, epoch = 3 blocks, debonding interval 1 or 2 from the genesis seed, rewards with commission on): per block 0..3 signed add-escrow (10..6000) / reclaim-escrow transactions with fees 0..29 by 3 delegators of validator entity 1, reclaim amounts drawn from the delegator's current shares (10% all, 10% too many, 10% zero), one duplicate-vote evidence against the entity's validator in 7% of the blocks after the fifth (once per history); non-trivial = some reclaim transaction succeeded; distinct = distinct (genesis seed, blocks)")
	type job struct {
		c   MCase
		gen *prng.R
	}
	var jobs []job
	if replayed != nil {
		for _, c := range replayed {
			jobs = append(jobs, job{c, nil})
		}
	} else {
		r := prng.New(seed)
		for i := 0; i < n; i++ {
			jobs = append(jobs, job{MCase{GSeed: seed*1000 + uint64(i) + 1}, r.Fork()})
		}
	}
	seen := map[string]bool{}
	for _, j := range jobs {
		res, used := runMux(j.c, j.gen, blocks)
		key := fmt.Sprint(used)
		if res.nontriv && !seen[key] {
			sum.DistinctNontrivial++
		}
		seen[key] = true
		sum.Evaluations++
		count(sum, res.stats)
		sum.Count("blocks", fmt.Sprint(len(used.Mblocks)))
		if res.skipped != "" {
			sum.Count("mux", "history-cut-short")
		}
		sum.Sample(map[string]any{"gseed": used.GSeed, "blocks": len(used.Mblocks)}, 2)
		if res.coq != "" {
			wb.Add(hexify(res.coq), map[string]any{"case": used})
		}
		if res.violated != "" {
			sum.Violations = append(sum.Violations, map[string]any{"what": res.violated, "case": used})
		}
	}
	wb.Close()
	sum.Write(out)
}
