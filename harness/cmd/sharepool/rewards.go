package main

// Reward correspondence (-mode reward): the real MutableState.AddRewards /
// AddRewardSingleAttenuated (with computeCommission, the reward schedule and
// CommissionSchedule.CurrentRate) on the mock application state, compared with
// Verif.Ledger.Rewards. The implementation-side oracle checks: share price
// non-decreasing, every watched holder's worth non-decreasing, pool increases
// = amount taken from the common pool, commission shares worth at most the
// commission.

import (
	"fmt"
	"math/big"
	"strings"

	beacon "github.com/oasisprotocol/oasis-core/go/beacon/api"
	"github.com/oasisprotocol/oasis-core/go/common/crypto/signature"
	abciAPI "github.com/oasisprotocol/oasis-core/go/consensus/cometbft/api"
	stakingState "github.com/oasisprotocol/oasis-core/go/consensus/cometbft/apps/staking/state"
	staking "github.com/oasisprotocol/oasis-core/go/staking/api"

	"verifharness/internal/coqout"
	"verifharness/internal/prng"
)

type RAcct struct {
	B     string      `json:"b"`
	S     string      `json:"s"`
	Self  string      `json:"self"`
	Rates [][2]string `json:"rates"` // [start, rate]
}

type RCase struct {
	Rk      string      `json:"rk"`                // "rewards" | "attenuated" | "tfc" (TransferFromCommon on the first account)
	Amount  string      `json:"amount,omitempty"`  // tfc: requested amount
	Escrow  bool        `json:"escrow,omitempty"`  // tfc: escrow flag
	General string      `json:"general,omitempty"` // tfc: general balance of the account
	Time    uint64      `json:"time"`
	Steps   [][2]string `json:"steps"` // [until, scale]
	Min     string      `json:"min"`
	Common  string      `json:"common"`
	Factor  string      `json:"factor"`
	Num     int         `json:"num,omitempty"`
	Den     int         `json:"den,omitempty"`
	Accts   []RAcct     `json:"accts"`
}

func pairList(ps [][2]string) string {
	if len(ps) == 0 {
		return "(@nil (N * N))"
	}
	var t []string
	for _, p := range ps {
		t = append(t, fmt.Sprintf("(%s, %s)", p[0], p[1]))
	}
	return coqout.List(t)
}

func runReward(c RCase) (res apiResult) {
	defer func() {
		if e := recover(); e != nil {
			res.violated = fmt.Sprintf("implementation panicked: %v", e)
			res.coq = ""
		}
	}()
	viol := func(f string, a ...any) {
		if res.violated == "" {
			res.violated = fmt.Sprintf(f, a...)
		}
	}
	appState := abciAPI.NewMockApplicationState(&abciAPI.MockApplicationStateConfig{CurrentEpoch: beacon.EpochTime(c.Time)})
	ctx := appState.NewContext(abciAPI.ContextEndBlock)
	defer ctx.Close()
	st := stakingState.NewMutableState(ctx.State())
	var steps []staking.RewardStep
	for _, s := range c.Steps {
		steps = append(steps, staking.RewardStep{Until: beacon.EpochTime(bi(s[0]).Uint64()), Scale: *qs(s[1])})
	}
	params := &staking.ConsensusParameters{RewardSchedule: steps}
	params.CommissionScheduleRules.MinCommissionRate = *qs(c.Min)
	if err := st.SetConsensusParameters(ctx, params); err != nil {
		panic(err)
	}
	if err := st.SetCommonPool(ctx, qs(c.Common)); err != nil {
		panic(err)
	}
	var addrs []staking.Address
	var before []*staking.SharePool
	var selfBefore []*big.Int
	var rates []*big.Int
	for i, a := range c.Accts {
		var pk signature.PublicKey
		_ = pk.UnmarshalHex(fmt.Sprintf("%064x", 0x2222*(i+1)))
		addr := staking.NewAddress(pk)
		addrs = append(addrs, addr)
		var acct staking.Account
		acct.Escrow.Active = *poolOf(bi(a.B), bi(a.S))
		if i == 0 && c.Rk == "tfc" {
			acct.General.Balance = *qs(c.General)
		}
		for _, r := range a.Rates {
			acct.Escrow.CommissionSchedule.Rates = append(acct.Escrow.CommissionSchedule.Rates,
				staking.CommissionRateStep{Start: beacon.EpochTime(bi(r[0]).Uint64()), Rate: *qs(r[1])})
		}
		if err := st.SetAccount(ctx, addr, &acct); err != nil {
			panic(err)
		}
		if err := st.SetDelegation(ctx, addr, addr, &staking.Delegation{Shares: *qs(a.Self)}); err != nil {
			panic(err)
		}
		before = append(before, poolOf(bi(a.B), bi(a.S)))
		selfBefore = append(selfBefore, bi(a.Self))
		// the effective rate, by the implementation's own schedule lookup
		rt := acct.Escrow.CommissionSchedule.CurrentRate(beacon.EpochTime(c.Time))
		if rt == nil {
			rates = append(rates, bi(c.Min))
		} else {
			rates = append(rates, rt.ToBigInt())
		}
	}
	if c.Rk == "tfc" {
		out := runTfc(c, st, ctx, addrs[0], before[0], selfBefore[0], rates[0], res, viol)
		if res.violated != "" {
			out.violated = res.violated // viol() records into the named result
		}
		return out
	}
	var err error
	nObs := len(addrs)
	switch c.Rk {
	case "rewards":
		err = st.AddRewards(ctx, beacon.EpochTime(c.Time), qs(c.Factor), addrs)
	case "attenuated":
		err = st.AddRewardSingleAttenuated(ctx, beacon.EpochTime(c.Time), qs(c.Factor), c.Num, c.Den, addrs[0])
		nObs = 1
	default:
		panic("unknown reward case kind")
	}
	cls := errClass(err)
	res.stats = append(res.stats, c.Rk+":"+cls)
	var nums []string
	totalGain := new(big.Int)
	// the scheduled reward of each account: balance*factor*scale[*num]/denominator[/den],
	// skipped when zero or above what is left in the common pool
	var scale *big.Int
	for _, s := range c.Steps {
		if c.Time < bi(s[0]).Uint64() {
			scale = bi(s[1])
			break
		}
	}
	left := bi(c.Common)
	scheduled := func(B *big.Int) *big.Int {
		if scale == nil {
			return new(big.Int)
		}
		q := mul(mul(B, bi(c.Factor)), scale)
		if c.Rk == "attenuated" {
			q = mul(q, big.NewInt(int64(c.Num)))
		}
		q.Quo(q, staking.RewardAmountDenominator.ToBigInt())
		if c.Rk == "attenuated" {
			q.Quo(q, big.NewInt(int64(c.Den)))
		}
		if q.Cmp(left) > 0 {
			return new(big.Int)
		}
		left.Sub(left, q)
		return q
	}
	for i := 0; i < nObs; i++ {
		a2, e2 := st.Account(ctx, addrs[i])
		if e2 != nil {
			panic(e2)
		}
		d2, e3 := st.Delegation(ctx, addrs[i], addrs[i])
		if e3 != nil {
			panic(e3)
		}
		nb, ns, self2 := a2.Escrow.Active.Balance.ToBigInt(), a2.Escrow.Active.TotalShares.ToBigInt(), d2.Shares.ToBigInt()
		nums = append(nums, nb.String(), ns.String(), self2.String())
		B, S := before[i].Balance.ToBigInt(), before[i].TotalShares.ToBigInt()
		gain := sub(nb, B)
		totalGain.Add(totalGain, gain)
		if err == nil {
			if want := scheduled(B); want.Cmp(gain) != 0 {
				viol("account %d: escrow balance grew by %s, the scheduled reward is %s", i, gain, want)
			}
		}
		minted := sub(self2, selfBefore[i])
		// ---- S
		if gain.Sign() < 0 || minted.Sign() < 0 {
			viol("account %d lost balance or the entity lost shares through a reward", i)
			continue
		}
		if sub(ns, S).Cmp(minted) != 0 {
			viol("account %d: total shares grew by %s, the entity's delegation by %s", i, sub(ns, S), minted)
		}
		if S.Sign() > 0 && mul(B, ns).Cmp(mul(nb, S)) > 0 {
			viol("account %d: share price fell through a reward", i)
		}
		after := &a2.Escrow.Active
		for _, u := range []*big.Int{big.NewInt(1), new(big.Int).Rsh(S, 1), S, selfBefore[i]} {
			if worth(before[i], u).Cmp(worth(after, u)) > 0 {
				viol("account %d: a holder's %s shares fell from %s to %s through a reward", i, u, worth(before[i], u), worth(after, u))
			}
		}
		if S.Sign() > 0 && minted.Sign() > 0 {
			// worth(minted) <= commission <= gain*rate/denominator
			w := worth(after, minted)
			if mul(w, staking.CommissionRateDenominator.ToBigInt()).Cmp(mul(gain, rates[i])) > 0 {
				viol("account %d: commission shares worth %s exceed the commission part (reward %s, rate %s)", i, w, gain, rates[i])
			}
			res.nontriv = true
		}
		if gain.Sign() > 0 {
			res.stats = append(res.stats, "reward:paid")
			if minted.Sign() > 0 {
				res.stats = append(res.stats, "reward:with-commission")
			}
		} else {
			res.stats = append(res.stats, "reward:none")
		}
	}
	cp, e4 := st.CommonPool(ctx)
	if e4 != nil {
		panic(e4)
	}
	nums = append(nums, cp.ToBigInt().String())
	if err == nil && sub(bi(c.Common), cp.ToBigInt()).Cmp(totalGain) != 0 {
		viol("pools gained %s, common pool lost %s", totalGain, sub(bi(c.Common), cp.ToBigInt()))
	}
	att := "None"
	if c.Rk == "attenuated" {
		att = fmt.Sprintf("(Some (%d, %d))", c.Num, c.Den)
	}
	var at []string
	for _, a := range c.Accts {
		at = append(at, fmt.Sprintf("(%s, %s, %s, %s)", a.B, a.S, a.Self, pairList(a.Rates)))
	}
	res.coq = fmt.Sprintf("(mkRC %s %s %d %s %s %s %s %s %s None, (%s, %s))",
		staking.RewardAmountDenominator.ToBigInt(), staking.CommissionRateDenominator.ToBigInt(),
		c.Time, pairList(c.Steps), c.Min, c.Common, c.Factor, att, coqout.List(at), cls, coqout.List(nums))
	if !strings.HasPrefix(cls, "C") {
		viol("unexpected error: %s", cls)
	}
	return res
}

// runTfc runs the real TransferFromCommon on the first account and evaluates
// the fairness predicates on its outcome.
func runTfc(c RCase, st *stakingState.MutableState, ctx *abciAPI.Context, addr staking.Address, before *staking.SharePool,
	selfBefore, rate *big.Int, res apiResult, viol func(string, ...any)) apiResult {
	amount, common, general := bi(c.Amount), bi(c.Common), bi(c.General)
	moved, err := st.TransferFromCommon(ctx, addr, qOf(amount), c.Escrow)
	cls := errClass(err)
	a2, e2 := st.Account(ctx, addr)
	if e2 != nil {
		panic(e2)
	}
	d2, e3 := st.Delegation(ctx, addr, addr)
	if e3 != nil {
		panic(e3)
	}
	cp, e4 := st.CommonPool(ctx)
	if e4 != nil {
		panic(e4)
	}
	nb, ns, self2 := a2.Escrow.Active.Balance.ToBigInt(), a2.Escrow.Active.TotalShares.ToBigInt(), d2.Shares.ToBigInt()
	g2, cp2 := a2.General.Balance.ToBigInt(), cp.ToBigInt()
	B, S := before.Balance.ToBigInt(), before.TotalShares.ToBigInt()
	kind := "normal"
	switch {
	case B.Sign() == 0 && S.Sign() == 0:
		kind = "fresh"
	case B.Sign() == 0:
		kind = "slashed-to-zero-with-shares"
	case S.Sign() == 0:
		kind = "balance-without-shares"
	}
	esc := "plain"
	if c.Escrow {
		esc = "escrow"
	}
	res.stats = append(res.stats, "tfc:"+esc+"-"+kind+"-"+cls)
	// ---- S
	t := new(big.Int).Set(amount)
	if common.Cmp(t) < 0 {
		t = new(big.Int).Set(common)
	}
	after := &a2.Escrow.Active
	if add(add(g2, nb), cp2).Cmp(add(add(general, B), common)) != 0 {
		viol("TransferFromCommon: general+escrow+common pool changed from %s to %s", add(add(general, B), common), add(add(g2, nb), cp2))
	}
	if err != nil || t.Sign() == 0 {
		if g2.Cmp(general) != 0 || nb.Cmp(B) != 0 || ns.Cmp(S) != 0 || cp2.Cmp(common) != 0 || moved {
			viol("TransferFromCommon without a transfer (err=%v) changed the ledger", err)
		}
	} else {
		if !moved || sub(common, cp2).Cmp(t) != 0 {
			viol("TransferFromCommon took %s from the common pool, expected min(amount, common pool) = %s", sub(common, cp2), t)
		}
		minted := sub(self2, selfBefore)
		if sub(ns, S).Cmp(minted) != 0 || minted.Sign() < 0 {
			viol("TransferFromCommon: total shares grew by %s, the entity's delegation by %s", sub(ns, S), minted)
		}
		if !c.Escrow {
			if sub(g2, general).Cmp(t) != 0 || nb.Cmp(B) != 0 || minted.Sign() != 0 {
				viol("TransferFromCommon(escrow=false) must credit the general balance only")
			}
		} else {
			if S.Sign() > 0 && mul(B, ns).Cmp(mul(nb, S)) > 0 {
				viol("TransferFromCommon: share price fell")
			}
			for _, u := range []*big.Int{big.NewInt(1), new(big.Int).Rsh(S, 1), S, selfBefore} {
				if worth(before, u).Cmp(worth(after, u)) > 0 {
					viol("TransferFromCommon: a holder's %s shares fell from %s to %s", u, worth(before, u), worth(after, u))
				}
			}
			if S.Sign() > 0 {
				// the entity gets exactly the commission share; the rest belongs to the holders pro rata
				com := new(big.Int).Quo(mul(t, rate), staking.CommissionRateDenominator.ToBigInt())
				rest := sub(t, com)
				if sub(nb, B).Cmp(rest) < 0 {
					viol("TransferFromCommon(escrow) of %s at commission rate %s to a pool (%s, %s): the pool balance grew by %s, the holders' non-commission part is %s", t, rate, B, S, sub(nb, B), rest)
				}
				if liquid := sub(g2, general); liquid.Sign() != 0 && !(liquid.Cmp(com) == 0 && nb.Sign() == 0) {
					viol("TransferFromCommon(escrow): %s stayed in the general balance (commission %s, pool balance after %s)", liquid, com, nb)
				}
				if minted.Sign() > 0 {
					if w := worth(after, minted); w.Cmp(com) > 0 {
						viol("TransferFromCommon: commission shares worth %s exceed the commission %s", w, com)
					}
					res.nontriv = true
				}
				// every holder can redeem at least its part of balance + rest
				for _, u := range []*big.Int{new(big.Int).Rsh(S, 1), S} {
					if want := new(big.Int).Quo(mul(u, add(B, rest)), S); worth(after, u).Cmp(want) < 0 {
						viol("TransferFromCommon(escrow): %s of %s shares are worth %s after a reward of %s (commission %s) to a pool with balance %s, pro rata would be %s", u, S, worth(after, u), t, com, B, want)
					}
				}
			} else if sub(nb, B).Cmp(t) != 0 || minted.Cmp(t) != 0 {
				viol("TransferFromCommon(escrow) to a pool without shares must deposit everything as commission 1:1")
			}
		}
	}
	at := fmt.Sprintf("(%s, %s, %s, %s)", c.Accts[0].B, c.Accts[0].S, c.Accts[0].Self, pairList(c.Accts[0].Rates))
	e := "false"
	if c.Escrow {
		e = "true"
	}
	res.coq = fmt.Sprintf("(mkRC %s %s %d %s %s %s 0 None [%s] (Some (%s, %s, %s)), (%s, [%s; %s; %s; %s; %s]))",
		staking.RewardAmountDenominator.ToBigInt(), staking.CommissionRateDenominator.ToBigInt(),
		c.Time, pairList(c.Steps), c.Min, c.Common, at, c.Amount, e, c.General, cls, nb, ns, self2, g2, cp2)
	if !strings.HasPrefix(cls, "C") {
		viol("unexpected error: %s", cls)
	}
	return res
}

func genTfc(r *prng.R) RCase {
	c := RCase{Rk: "tfc", Time: uint64(r.Range(0, 20)), Steps: [][2]string{}, Factor: "0", Escrow: !r.Chance(20)}
	c.Min = []string{"0", "0", "50000", "100000"}[r.Intn(4)]
	var B, S *big.Int
	switch r.Intn(8) {
	case 0:
		B, S = big.NewInt(0), big.NewInt(0) // fresh
	case 1, 2:
		B, S = big.NewInt(0), big.NewInt(int64(r.Range(1, 500))) // slashed to zero, shares outstanding
		if r.Chance(20) {
			S = pick(r)
			if S.Sign() == 0 {
				S = big.NewInt(7)
			}
		}
	case 3:
		B, S = big.NewInt(int64(r.Range(1, 500))), big.NewInt(0) // balance without shares
	case 4:
		B = pick(r)
		S = near(r, B)
	default:
		B, S = big.NewInt(int64(r.Range(1, 5000))), big.NewInt(int64(r.Range(1, 5000)))
	}
	self := new(big.Int).Mod(new(big.Int).SetBytes(r.Bytes(33)), add(S, big.NewInt(1)))
	a := RAcct{B: B.String(), S: S.String(), Self: self.String(), Rates: [][2]string{}}
	if !r.Chance(15) {
		rv := []string{"0", "50000", "100000", "20000", "1", "99999"}[r.Intn(6)]
		a.Rates = append(a.Rates, [2]string{fmt.Sprint(r.Intn(int(c.Time) + 2)), rv})
	}
	c.Accts = []RAcct{a}
	c.General = fmt.Sprint(r.Intn(50))
	amt := big.NewInt(int64(r.Range(0, 400)))
	if r.Chance(15) {
		amt = pick(r)
	}
	c.Amount = amt.String()
	switch r.Intn(6) {
	case 0:
		c.Common = "0"
	case 1:
		c.Common = near(r, amt).String()
	case 2:
		c.Common = new(big.Int).Rsh(amt, 1).String()
	default:
		c.Common = add(amt, big.NewInt(int64(r.Intn(100000)))).String()
	}
	return c
}

func genReward(r *prng.R) RCase {
	if r.Chance(35) {
		return genTfc(r)
	}
	c := RCase{Rk: "rewards", Time: uint64(r.Range(0, 45))}
	if r.Chance(35) {
		c.Rk = "attenuated"
		c.Num, c.Den = r.Range(0, 12), r.Range(1, 12)
	}
	scales := []string{"0", "1", "1000", "2000", "50000", "100000000"}
	until := uint64(0)
	nsteps := r.Range(1, 3)
	if r.Chance(8) {
		nsteps = 0
	}
	for i := 0; i < nsteps; i++ {
		until += uint64(r.Range(1, 25))
		if i == nsteps-1 && r.Chance(75) && until <= c.Time {
			until = c.Time + uint64(r.Range(1, 5))
		}
		sc := scales[1+r.Intn(len(scales)-1)]
		if r.Chance(8) {
			sc = "0"
		}
		c.Steps = append(c.Steps, [2]string{fmt.Sprint(until), sc})
	}
	if c.Steps == nil {
		c.Steps = [][2]string{}
	}
	c.Min = []string{"0", "0", "5000", "100000"}[r.Intn(4)]
	switch r.Intn(8) {
	case 0:
		c.Factor = fmt.Sprint(r.Intn(100))
	case 3, 4, 5:
		c.Factor = fmt.Sprint(1000 + r.Intn(100000000))
	case 1:
		c.Factor = fmt.Sprint(r.Intn(3000000))
	case 2:
		c.Factor = "100000000"
	default:
		c.Factor = pick(r).String()
	}
	rateVals := []string{"0", "1", "20000", "50000", "99999", "100000", "100001", "100100", "150000"}
	n := r.Range(1, 3)
	total := new(big.Int)
	for i := 0; i < n; i++ {
		var B, S *big.Int
		switch r.Intn(5) {
		case 0:
			B, S = big.NewInt(int64(r.Intn(50))), big.NewInt(int64(r.Intn(20)))
		case 4:
			B, S = big.NewInt(int64(r.Range(1000, 100000))), big.NewInt(int64(r.Range(1, 100000)))
		case 1:
			B = new(big.Int).SetUint64(r.U64() >> uint(r.Intn(50)))
			S = near(r, B)
		default:
			B = pick(r)
			S = near(r, B)
		}
		if r.Chance(5) {
			S = big.NewInt(0)
		}
		self := new(big.Int).Mod(new(big.Int).SetBytes(r.Bytes(33)), add(S, big.NewInt(1)))
		if r.Chance(20) {
			self = big.NewInt(0)
		}
		a := RAcct{B: B.String(), S: S.String(), Self: self.String(), Rates: [][2]string{}}
		start := uint64(0)
		for j := 0; j < r.Range(0, 3); j++ {
			start += uint64(r.Range(0, 30))
			rv := rateVals[r.Intn(len(rateVals))]
			if r.Chance(85) {
				rv = rateVals[r.Intn(6)]
			}
			a.Rates = append(a.Rates, [2]string{fmt.Sprint(start), rv})
			start++
		}
		c.Accts = append(c.Accts, a)
		total.Add(total, B)
	}
	switch r.Intn(8) {
	case 0:
		c.Common = fmt.Sprint(r.Intn(100))
	case 1:
		c.Common = near(r, total).String()
	default:
		c.Common = new(big.Int).Lsh(add(total, big.NewInt(1000)), uint(r.Intn(80))).String()
	}
	return c
}

func rewardMode(seed uint64, n int, out string, replayed []RCase) {
	hdr := "From Verif Require Import Lib.Base Ledger.SharePool Ledger.Rewards.\n"
	wb := coqout.NewWriter(out, hdr, "run_reward", "rout_eqb", 400)
	sum := coqout.NewSummary("seeded calls of the real AddRewards (1..3 addresses sharing the common pool) and AddRewardSingleAttenuated (numerator 0..12, denominator 1..12) with reward schedules of 0..3 steps (scales 0,1,1000,2000,50000,10^8), factors 0..99 / <3*10^6 / 10^8 / 2^64..2^256-scale, commission schedules of 0..3 steps with rates 0,1,20%,50%,99.999%,100% and (15%) above 100%, minimum rates 0/5%/100%, pools small, 64-bit and 2^128..2^256-scale, common pools poor / near the total / rich; 35% of the cases are TransferFromCommon(escrow true 80% / false) on one account: amounts 0..400 or big against common pools of 0 / half / near / above the amount, commission rate steps 0, 1, 20%, 50%, 99.999%, 100% or none (minimum rate 0 / 50% / 100%), pools fresh (0,0), normal, slashed to zero with shares outstanding, balance without shares, 2^64..2^256-scale; non-trivial = commission shares were minted on a pool with shares; distinct = distinct case descriptions")
	cases := replayed
	if cases == nil {
		cases = append(cases, RCase{Rk: "rewards", Time: 10, Steps: [][2]string{{"30", "1000"}, {"40", "500"}}, Min: "0", Common: "10000", Factor: "100000",
			Accts: []RAcct{{B: "300", S: "300", Self: "100", Rates: [][2]string{{"0", "20000"}}}}})
		// a pool slashed to zero with shares outstanding, rewarded with escrow at 20% / 100% commission
		for _, rv := range []string{"20000", "100000", "0"} {
			cases = append(cases, RCase{Rk: "tfc", Time: 3, Steps: [][2]string{}, Min: "0", Common: "1000", Factor: "0", Amount: "100", Escrow: true, General: "0",
				Accts: []RAcct{{B: "0", S: "200", Self: "50", Rates: [][2]string{{"0", rv}}}}})
		}
		r := prng.New(seed)
		for i := 0; i < n; i++ {
			cases = append(cases, genReward(r.Fork()))
		}
	}
	seen := map[string]bool{}
	for _, c := range cases {
		res := runReward(c)
		key := fmt.Sprint(c)
		if res.nontriv && !seen[key] {
			sum.DistinctNontrivial++
		}
		seen[key] = true
		sum.Evaluations++
		count(sum, res.stats)
		sum.Count("accounts", fmt.Sprint(len(c.Accts)))
		sum.Sample(c, 2)
		if res.coq != "" {
			wb.Add(hexify(res.coq), map[string]any{"case": c})
		}
		if res.violated != "" {
			sum.Violations = append(sum.Violations, map[string]any{"what": res.violated, "case": c})
		}
	}
	wb.Close()
	sum.Write(out)
}
