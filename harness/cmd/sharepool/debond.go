package main

// Debonding correspondence (-mode debond): drives the REAL addEscrow /
// reclaimEscrow transaction handlers and onEpochChange of the staking
// application (through the verif-tagged export wrapper) plus SlashEscrow on an
// in-memory MKVS tree of the mock application state, with three delegators and
// one escrow account, and compares pools, delegations, the debonding
// delegations and the delegators' general balances after every operation with
// Verif.Ledger.Debond. The implementation-side oracle checks "paid exactly
// once, at the first transition at or after the end epoch and not before".

import (
	"bytes"
	"fmt"
	"math/big"
	"sort"

	beacon "github.com/oasisprotocol/oasis-core/go/beacon/api"
	"github.com/oasisprotocol/oasis-core/go/common/crypto/signature"
	"github.com/oasisprotocol/oasis-core/go/common/quantity"
	abciAPI "github.com/oasisprotocol/oasis-core/go/consensus/cometbft/api"
	stakingApp "github.com/oasisprotocol/oasis-core/go/consensus/cometbft/apps/staking"
	stakingState "github.com/oasisprotocol/oasis-core/go/consensus/cometbft/apps/staking/state"
	staking "github.com/oasisprotocol/oasis-core/go/staking/api"

	"verifharness/internal/coqout"
	"verifharness/internal/prng"
)

type DOp struct {
	K  string `json:"k"` // add reclaim epoch rew slash
	D  int    `json:"d,omitempty"`
	A  string `json:"a,omitempty"`
	Iv uint64 `json:"iv,omitempty"`
	E  uint64 `json:"e,omitempty"`
}

type DCase struct {
	Epoch uint64 `json:"epoch"`
	Dops  []DOp  `json:"dops"`
}

type dResult struct {
	coq      string
	violated string
	nontriv  bool
	stats    []string
}

var initialGeneral = new(big.Int).Lsh(big.NewInt(1), 300)

func runDebond(c DCase) (res dResult) {
	defer func() {
		if e := recover(); e != nil {
			res.violated = fmt.Sprintf("implementation panicked: %v", e)
			res.coq = ""
		}
	}()
	viol := func(i int, f string, a ...any) {
		if res.violated == "" {
			res.violated = fmt.Sprintf("op %d: ", i) + fmt.Sprintf(f, a...)
		}
	}
	cfg := &abciAPI.MockApplicationStateConfig{CurrentEpoch: beacon.EpochTime(c.Epoch)}
	appState := abciAPI.NewMockApplicationState(cfg)
	ctx := appState.NewContext(abciAPI.ContextEndBlock)
	defer ctx.Close()
	st := stakingState.NewMutableState(ctx.State())
	app := stakingApp.VerifNewApplication(appState)
	setParams := func(iv uint64) {
		if err := st.SetConsensusParameters(ctx, &staking.ConsensusParameters{DebondingInterval: beacon.EpochTime(iv)}); err != nil {
			panic(err)
		}
	}
	setParams(1)
	// four keys; the escrow account is the first, delegators 1..3 are numbered
	// in address order (= debonding queue key order)
	var pks []signature.PublicKey
	for i := 0; i < 4; i++ {
		var pk signature.PublicKey
		_ = pk.UnmarshalHex(fmt.Sprintf("%064x", 0x1111*(i+1)))
		pks = append(pks, pk)
	}
	escrowPK := pks[0]
	escrowAddr := staking.NewAddress(escrowPK)
	dpk := pks[1:]
	sort.Slice(dpk, func(i, j int) bool {
		a, b := staking.NewAddress(dpk[i]), staking.NewAddress(dpk[j])
		return bytes.Compare(a[:], b[:]) < 0
	})
	addrOf := func(d int) staking.Address { return staking.NewAddress(dpk[d-1]) }
	idOf := map[staking.Address]int{}
	for d := 1; d <= 3; d++ {
		idOf[addrOf(d)] = d
		var acct staking.Account
		acct.General.Balance = *qOf(initialGeneral)
		if err := st.SetAccount(ctx, addrOf(d), &acct); err != nil {
			panic(err)
		}
	}
	_ = st.SetCommonPool(ctx, quantity.NewQuantity())
	spent := map[int]*big.Int{1: new(big.Int), 2: new(big.Int), 3: new(big.Int)}

	type qent struct {
		end uint64
		d   int
		sh  *big.Int
	}
	observe := func() (obs string, pools [4]*big.Int, paid map[int]*big.Int, q []qent) {
		ea, err := st.Account(ctx, escrowAddr)
		if err != nil {
			panic(err)
		}
		pools = [4]*big.Int{ea.Escrow.Active.Balance.ToBigInt(), ea.Escrow.Active.TotalShares.ToBigInt(),
			ea.Escrow.Debonding.Balance.ToBigInt(), ea.Escrow.Debonding.TotalShares.ToBigInt()}
		nums := []string{pools[0].String(), pools[1].String(), pools[2].String(), pools[3].String()}
		for d := 1; d <= 3; d++ {
			del, err := st.Delegation(ctx, addrOf(d), escrowAddr)
			if err != nil {
				panic(err)
			}
			nums = append(nums, del.Shares.ToBigInt().String())
		}
		paid = map[int]*big.Int{}
		for d := 1; d <= 3; d++ {
			a, err := st.Account(ctx, addrOf(d))
			if err != nil {
				panic(err)
			}
			// paid = general - initial + spent on escrow
			p := add(sub(a.General.Balance.ToBigInt(), initialGeneral), spent[d])
			paid[d] = p
			nums = append(nums, p.String())
		}
		debs, err := st.DebondingDelegations(ctx)
		if err != nil {
			panic(err)
		}
		for esc, m := range debs {
			for delegator, list := range m {
				if esc != escrowAddr {
					panic("unexpected escrow account")
				}
				for _, dd := range list {
					q = append(q, qent{uint64(dd.DebondEndTime), idOf[delegator], dd.Shares.ToBigInt()})
				}
			}
		}
		sort.Slice(q, func(i, j int) bool {
			if q[i].end != q[j].end {
				return q[i].end < q[j].end
			}
			return q[i].d < q[j].d
		})
		var qt []string
		for _, x := range q {
			qt = append(qt, fmt.Sprintf("(%d, %d, %s)", x.end, x.d, x.sh))
		}
		qterm := coqout.List(qt)
		if len(qt) == 0 {
			qterm = "(@nil (N * N * N))"
		}
		return fmt.Sprintf("(%s, %s)", coqout.List(nums), qterm), pools, paid, q
	}

	var opTerms, obsTerms []string
	_, _, paidBefore, qBefore := observe()
	for i, o := range c.Dops {
		cls := "COk"
		switch o.K {
		case "add":
			txCtx := appState.NewContext(abciAPI.ContextDeliverTx)
			txCtx.SetTxSigner(dpk[o.D-1])
			_, err := app.VerifAddEscrow(txCtx, st, &staking.Escrow{Account: escrowAddr, Amount: *qs(o.A)})
			txCtx.Close()
			cls = errClass(err)
			if err == nil {
				spent[o.D].Add(spent[o.D], bi(o.A))
			}
			opTerms = append(opTerms, fmt.Sprintf("DAdd %d %s", o.D, o.A))
		case "reclaim":
			setParams(o.Iv)
			txCtx := appState.NewContext(abciAPI.ContextDeliverTx)
			txCtx.SetTxSigner(dpk[o.D-1])
			r, err := app.VerifReclaimEscrow(txCtx, st, &staking.ReclaimEscrow{Account: escrowAddr, Shares: *qs(o.A)})
			txCtx.Close()
			cls = errClass(err)
			if err == nil {
				if uint64(r.DebondEndTime) != uint64(cfg.CurrentEpoch)+o.Iv {
					viol(i, "reclaim end epoch %d != current %d + interval %d", r.DebondEndTime, cfg.CurrentEpoch, o.Iv)
				}
				if r.Amount.ToBigInt().Sign() > 0 {
					res.nontriv = true
				}
			}
			opTerms = append(opTerms, fmt.Sprintf("DReclaim %d %s %d", o.D, o.A, o.Iv))
		case "epoch":
			cfg.CurrentEpoch = beacon.EpochTime(o.E)
			appState.UpdateMockApplicationStateConfig(cfg)
			if err := app.VerifOnEpochChange(ctx, beacon.EpochTime(o.E)); err != nil {
				viol(i, "onEpochChange failed: %v", err)
			}
			opTerms = append(opTerms, fmt.Sprintf("DEpoch %d", o.E))
		case "rew":
			ea, _ := st.Account(ctx, escrowAddr)
			_ = ea.Escrow.Active.Balance.Add(qs(o.A))
			if err := st.SetAccount(ctx, escrowAddr, ea); err != nil {
				panic(err)
			}
			opTerms = append(opTerms, fmt.Sprintf("DReward %s", o.A))
		case "slash":
			if _, err := st.SlashEscrow(ctx, escrowAddr, qs(o.A)); err != nil {
				panic(err)
			}
			opTerms = append(opTerms, fmt.Sprintf("DSlash %s", o.A))
		default:
			panic("unknown dop " + o.K)
		}
		res.stats = append(res.stats, "dop:"+o.K+"-"+cls)
		obs, pools, paid, q := observe()
		obsTerms = append(obsTerms, fmt.Sprintf("(%s, %s)", cls, obs))
		// ---- S: paid exactly once, at the first transition at or after the end epoch
		total := new(big.Int)
		for _, x := range q {
			total.Add(total, x.sh)
		}
		if total.Cmp(pools[3]) != 0 {
			viol(i, "debonding delegations hold %s shares, the debonding pool has %s", total, pools[3])
		}
		if o.K == "epoch" {
			due := map[int]bool{}
			for _, x := range qBefore {
				if x.end <= o.E {
					due[x.d] = true
					res.stats = append(res.stats, "debond:paid")
				}
			}
			var keep []qent
			for _, x := range qBefore {
				if x.end > o.E {
					keep = append(keep, x)
				}
			}
			same := len(keep) == len(q)
			for j := 0; same && j < len(q); j++ {
				same = keep[j].end == q[j].end && keep[j].d == q[j].d && keep[j].sh.Cmp(q[j].sh) == 0
			}
			if !same {
				viol(i, "after the transition to epoch %d the queue is %v, expected exactly the entries ending later: %v", o.E, q, keep)
			}
			for d := 1; d <= 3; d++ {
				delta := sub(paid[d], paidBefore[d])
				if delta.Sign() != 0 && !due[d] {
					viol(i, "delegator %d was paid %s at epoch %d without a due debonding delegation", d, delta, o.E)
				}
				if delta.Sign() < 0 {
					viol(i, "delegator %d lost general balance at an epoch transition", d)
				}
			}
		} else {
			for d := 1; d <= 3; d++ {
				if paid[d].Cmp(paidBefore[d]) != 0 {
					viol(i, "delegator %d's general balance changed by %s outside an epoch transition (%s)", d, sub(paid[d], paidBefore[d]), o.K)
				}
			}
		}
		for _, x := range q {
			if x.end < uint64(cfg.CurrentEpoch) {
				viol(i, "debonding delegation (%d,%d) is still queued at epoch %d", x.end, x.d, cfg.CurrentEpoch)
			}
		}
		paidBefore, qBefore = paid, q
	}
	opTerm, obsTerm := coqout.List(opTerms), coqout.List(obsTerms)
	if len(opTerms) == 0 {
		opTerm, obsTerm = "(@nil dop)", "(@nil dobsout)"
	}
	res.coq = fmt.Sprintf("((%d, %s), %s)", c.Epoch, opTerm, obsTerm)
	return res
}

// ledgerSim follows the escrow ledger with real SharePool calls; it is used by
// the generators only (to draw reclaims that are mostly within the
// delegator's shares), never as an oracle.
type simEntry struct {
	end uint64
	d   int
	sh  *quantity.Quantity
}

type ledgerSim struct {
	act, deb staking.SharePool
	sh       map[int]*quantity.Quantity
	q        []simEntry
	epoch    uint64
}

func newLedgerSim(epoch uint64) *ledgerSim {
	return &ledgerSim{sh: map[int]*quantity.Quantity{}, epoch: epoch}
}

func (l *ledgerSim) shares(d int) *quantity.Quantity {
	if l.sh[d] == nil {
		l.sh[d] = quantity.NewQuantity()
	}
	return l.sh[d]
}

func (l *ledgerSim) add(d int, a *big.Int) {
	if l.act.Balance.IsZero() && !l.act.TotalShares.IsZero() {
		return
	}
	_, _ = l.act.Deposit(l.shares(d), qOf(a), qOf(a))
}

func (l *ledgerSim) reclaim(d int, s *big.Int, iv uint64) {
	if s.Sign() == 0 || l.shares(d).ToBigInt().Cmp(s) < 0 {
		return
	}
	if l.deb.Balance.IsZero() && !l.deb.TotalShares.IsZero() {
		return
	}
	var paid, minted quantity.Quantity
	if err := l.act.Withdraw(&paid, l.shares(d), qOf(s)); err != nil {
		panic(err)
	}
	amt := paid.Clone()
	if _, err := l.deb.Deposit(&minted, &paid, amt); err != nil {
		panic(err)
	}
	end := l.epoch + iv
	for k := range l.q {
		if l.q[k].end == end && l.q[k].d == d {
			_ = l.q[k].sh.Add(&minted)
			return
		}
	}
	l.q = append(l.q, simEntry{end, d, &minted})
	sort.SliceStable(l.q, func(a, b int) bool {
		if l.q[a].end != l.q[b].end {
			return l.q[a].end < l.q[b].end
		}
		return l.q[a].d < l.q[b].d
	})
}

func (l *ledgerSim) epochTo(e uint64) {
	l.epoch = e
	var keep []simEntry
	for _, x := range l.q {
		if x.end <= e {
			var paid quantity.Quantity
			_ = l.deb.Withdraw(&paid, x.sh, x.sh.Clone())
		} else {
			keep = append(keep, x)
		}
	}
	l.q = keep
}

func (l *ledgerSim) reward(a *big.Int) { _ = l.act.Balance.Add(qOf(a)) }

func (l *ledgerSim) slash(a *big.Int) {
	ba, bd := l.act.Balance.ToBigInt(), l.deb.Balance.ToBigInt()
	total := add(ba, bd)
	if total.Sign() == 0 {
		return
	}
	_, _ = l.act.Balance.SubUpTo(qOf(new(big.Int).Quo(mul(ba, a), total)))
	_, _ = l.deb.Balance.SubUpTo(qOf(new(big.Int).Quo(mul(bd, a), total)))
}

func genDebond(r *prng.R) DCase {
	c := DCase{Epoch: uint64(r.Intn(5))}
	epoch := c.Epoch
	sim := newLedgerSim(epoch)
	n := r.Range(4, 40)
	big1 := r.Chance(25)
	amount := func() *big.Int {
		if big1 && r.Chance(60) {
			return pick(r)
		}
		return big.NewInt(int64(r.Intn(40)))
	}
	for i := 0; i < n; i++ {
		x := r.Intn(100)
		d := r.Range(1, 3)
		switch {
		case x < 30:
			a := amount()
			c.Dops = append(c.Dops, DOp{K: "add", D: d, A: a.String()})
			sim.add(d, a)
		case x < 60:
			// mostly within the delegator's shares; sometimes all, one too many, zero
			have := sim.shares(d).ToBigInt()
			if have.Sign() == 0 && r.Chance(70) {
				for dd := 1; dd <= 3; dd++ {
					if sim.shares(dd).ToBigInt().Sign() > 0 {
						d = dd
						have = sim.shares(dd).ToBigInt()
					}
				}
			}
			if have.Sign() == 0 && r.Chance(85) {
				a := add(amount(), big.NewInt(1))
				c.Dops = append(c.Dops, DOp{K: "add", D: d, A: a.String()})
				sim.add(d, a)
				continue
			}
			a := big.NewInt(0)
			if have.Sign() > 0 {
				a = add(new(big.Int).Mod(new(big.Int).SetBytes(r.Bytes(33)), have), big.NewInt(1))
			}
			switch r.Intn(14) {
			case 0:
				a = have
			case 1:
				a = add(have, big.NewInt(1))
			case 2:
				a = big.NewInt(0)
			case 3:
				a = amount()
			}
			iv := uint64(r.Intn(4))
			c.Dops = append(c.Dops, DOp{K: "reclaim", D: d, A: a.String(), Iv: iv})
			sim.reclaim(d, a, iv)
		case x < 80:
			if !r.Chance(8) {
				epoch += uint64(r.Range(1, 2))
			}
			c.Dops = append(c.Dops, DOp{K: "epoch", E: epoch})
			sim.epochTo(epoch)
		case x < 90:
			a := amount()
			c.Dops = append(c.Dops, DOp{K: "rew", A: a.String()})
			sim.reward(a)
		default:
			a := amount()
			c.Dops = append(c.Dops, DOp{K: "slash", A: a.String()})
			sim.slash(a)
		}
	}
	return c
}

func debondMode(seed uint64, n int, out string, replayed []DCase) {
	hdr := "From Verif Require Import Lib.Base Ledger.SharePool Ledger.Debond.\n"
	wb := coqout.NewWriter(out, hdr, "run_debond", "debond_eqb", 60)
	sum := coqout.NewSummary("seeded histories (4..40 operations) of the real addEscrow / reclaimEscrow handlers (debonding interval 0..3 set per reclaim), onEpochChange (epochs advancing by 0..2), reward (balance credit) and SlashEscrow for 3 delegators of one escrow account on the mock application state; amounts 0..39 and, in a quarter of the histories, 2^64..2^256-scale; reclaim amounts drawn from the delegator's current shares as followed by a generator-side ledger built on the real SharePool (about 80% succeed, 10% exceed the shares, 10% zero or dead pool); non-trivial = some reclaim moved a non-zero stake into the debonding pool; distinct = distinct case descriptions")
	cases := replayed
	if cases == nil {
		cases = append(cases, DCase{Epoch: 5, Dops: []DOp{{K: "add", D: 1, A: "100"}, {K: "add", D: 2, A: "50"}, {K: "rew", A: "30"},
			{K: "reclaim", D: 1, A: "40", Iv: 3}, {K: "reclaim", D: 2, A: "10", Iv: 3}, {K: "reclaim", D: 1, A: "5", Iv: 3},
			{K: "slash", A: "20"}, {K: "epoch", E: 6}, {K: "epoch", E: 7}, {K: "epoch", E: 8}, {K: "epoch", E: 9}}})
		r := prng.New(seed)
		for i := 0; i < n; i++ {
			cases = append(cases, genDebond(r.Fork()))
		}
	}
	seen := map[string]bool{}
	for _, c := range cases {
		res := runDebond(c)
		key := fmt.Sprint(c)
		if res.nontriv && !seen[key] {
			sum.DistinctNontrivial++
		}
		seen[key] = true
		sum.Evaluations++
		count(sum, res.stats)
		sum.Count("history_len", fmt.Sprint((len(c.Dops)+9)/10*10))
		sum.Sample(c, 2)
		if res.coq != "" {
			wb.Add(hexify(res.coq), map[string]any{"case": c})
		}
		if res.violated != "" {
			// greedy shrink
			want := res.violated[len(res.violated)-min(len(res.violated), 25):]
			for changed := true; changed; {
				changed = false
				for i := 0; i < len(c.Dops); i++ {
					cand := c
					cand.Dops = append(append([]DOp{}, c.Dops[:i]...), c.Dops[i+1:]...)
					r2 := runDebond(cand)
					if r2.violated != "" && len(r2.violated) >= 25 && r2.violated[len(r2.violated)-min(len(r2.violated), 25):] == want {
						c = cand
						changed = true
						i--
					}
				}
			}
			sum.Violations = append(sum.Violations, map[string]any{"what": runDebond(c).violated, "case": c})
		}
	}
	wb.Close()
	sum.Write(out)
}
