package main

import (
	"encoding/hex"
	"flag"
	"fmt"
	"os"

	"github.com/cometbft/cometbft/abci/types"

	"github.com/oasisprotocol/oasis-core/go/common/crypto/signature"
	"github.com/oasisprotocol/oasis-core/go/common/node"
	"github.com/oasisprotocol/oasis-core/go/consensus/api/transaction"
	governance "github.com/oasisprotocol/oasis-core/go/governance/api"

	"verifharness/internal/muxdrv"
)

func main() {
	seed := flag.Uint64("seed", 1, "")
	mode := flag.String("mode", "c01", "c01 | smoke | smoke2")
	out := flag.String("out", "", "")
	blocks := flag.Int("blocks", 15, "blocks per history (c01)")
	runs := flag.Int("runs", 1, "histories per run (c01)")
	replay := flag.String("replay", "", "replay a case description")
	noBg := flag.Bool("nobg", false, "no background load (c01)")
	tieRuns := flag.Int("tieruns", 0, "election-tie histories per run (c01)")
	tieBlocks := flag.Int("tieblocks", 14, "blocks per election-tie history (c01)")
	procRuns := flag.Int("procruns", 0, "how many standard and how many tie histories also run every replica in its own process (c01)")
	rtRuns := flag.Int("rtruns", 0, "how many of the standard histories (the last ones) register two runtimes (c01)")
	runtimes := flag.Bool("runtimes", false, "replica mode: runtimes genesis")
	faultRuns := flag.Int("faultruns", 0, "extra histories with injected one-off faults inside Process/PrepareProposal (c01)")
	govRuns := flag.Int("govruns", 0, "extra histories with the real upgrade manager and a passing governance upgrade proposal (c01)")
	upgRuns := flag.Int("upgruns", 0, "how many of the standard histories (the first ones) contain a consensus upgrade (c01)")
	upgradeF := flag.Bool("upgrade", false, "replica mode: upgrade backend")
	noDebugFlag := flag.Bool("nodebugflag", false, "replica mode: run without debug.dont_blame_oasis")
	tie := flag.Bool("tie", false, "replica mode: election-tie genesis")
	idx := flag.Int("idx", 0, "replica mode: configuration index")
	flag.Parse()
	switch *mode {
	case "smoke":
		smoke(*seed)
	case "c01":
		if *out == "" {
			d, _ := os.MkdirTemp("", "mux-c01-")
			defer os.RemoveAll(d)
			*out = d
		}
		c01Main(*seed, *out, *blocks, *runs, *replay, *noBg, *tieRuns, *tieBlocks, *procRuns, *rtRuns, *upgRuns, *govRuns, *faultRuns)
	case "replica":
		replicaMain(*seed, *tie, *runtimes, *upgradeF, *idx, !*noBg, *noDebugFlag)
	case "smoke2":
		smoke2(*seed)
	default:
		fmt.Println("unknown mode")
		os.Exit(2)
	}
}

func smoke(seed uint64) {
	g, err := muxdrv.NewGenesis(seed, muxdrv.GenesisOpts{})
	if err != nil {
		panic(err)
	}
	r, err := muxdrv.NewReplica(g, muxdrv.ReplicaConfig{Name: "a", Identity: g.Validators[0].Identity, SanityInterval: 1})
	if err != nil {
		panic(err)
	}
	defer r.Close()
	c := muxdrv.NewChain(g)
	nonce := uint64(0)
	for i := 0; i < 12; i++ {
		in := c.NewBlock(g.Validators[0].ConsAddr, muxdrv.VotesAll, nil)
		tx := muxdrv.Sign(g.Accounts[0].Key, muxdrv.TxTransfer(nonce, muxdrv.Fee(10, muxdrv.DefaultGas), g.Accounts[1].Address, 100))
		nonce++
		txs, err := r.Propose(in, [][]byte{tx})
		if err != nil {
			panic(err)
		}
		res, err := r.Process(in, txs)
		if err != nil {
			panic(err)
		}
		c.Applied(res)
		ep, _, _ := r.Epoch(0)
		fmt.Printf("h=%d apphash=%s ntx=%d code0=%d vu=%d epoch=%d\n", res.Height, hex.EncodeToString(res.AppHash)[:16], len(res.TxResults), res.TxResults[0].Code, len(res.ValidatorUpdates), ep)
		if res.TxResults[0].Code != 0 {
			fmt.Println("  log:", res.TxResults[0].Log)
		}
	}
	d, err := muxdrv.DumpStaking(r, 0)
	if err != nil {
		panic(err)
	}
	fmt.Printf("supply=%s pool=%s accounts=%d dels=%d\n", d.TotalSupply, d.CommonPool, len(d.Accounts), len(d.Delegations))
	kv, err := muxdrv.DumpState(r, 0)
	fmt.Println("kv", len(kv), err)
}

func must(err error) {
	if err != nil {
		panic(err)
	}
}

func smoke2(seed uint64) {
	g, err := muxdrv.NewGenesis(seed, muxdrv.GenesisOpts{})
	must(err)
	a, err := muxdrv.NewReplica(g, muxdrv.ReplicaConfig{Name: "a", Identity: g.Validators[0].Identity, SanityInterval: 1})
	must(err)
	defer a.Close()
	b, err := muxdrv.NewReplica(g, muxdrv.ReplicaConfig{Name: "b", Identity: g.Validators[1].Identity, OnDisk: true, Backend: "badger", PruneKeepN: 2, MinGasPrice: 5, AppOrderSeed: 7})
	must(err)
	defer b.Close()
	c := muxdrv.NewChain(g)
	nonces := map[int]uint64{}
	sign := func(k *muxdrv.Key, idx int, f func(n uint64) *transaction.Transaction) []byte {
		tx := f(nonces[idx])
		nonces[idx]++
		return muxdrv.Sign(k, tx)
	}
	fee := muxdrv.Fee(20, muxdrv.DefaultGas)
	v0 := g.Validators[0]
	for i := 0; i < 14; i++ {
		var txs [][]byte
		acc := g.Accounts
		switch i {
		case 0:
			txs = append(txs, sign(acc[0].Key, 0, func(n uint64) *transaction.Transaction { return muxdrv.TxBurn(n, fee, 100) }))
			txs = append(txs, sign(acc[1].Key, 1, func(n uint64) *transaction.Transaction { return muxdrv.TxAddEscrow(n, fee, v0.EntityAddress(), 5000) }))
			txs = append(txs, sign(acc[2].Key, 2, func(n uint64) *transaction.Transaction { return muxdrv.TxAllow(n, fee, acc[3].Address, false, 700) }))
		case 1:
			txs = append(txs, sign(acc[3].Key, 3, func(n uint64) *transaction.Transaction { return muxdrv.TxWithdraw(n, fee, acc[2].Address, 300) }))
			txs = append(txs, sign(acc[1].Key, 1, func(n uint64) *transaction.Transaction { return muxdrv.TxReclaimEscrow(n, fee, v0.EntityAddress(), 1000) }))
			txs = append(txs, sign(v0.Entity, 100, func(n uint64) *transaction.Transaction { return muxdrv.TxAmendCommission(n, fee, 6, 7000, 0, 0, 0) }))
		case 2:
			txs = append(txs, sign(v0.Entity, 100, func(n uint64) *transaction.Transaction { return muxdrv.TxSubmitChangeParams(n, fee, 20) }))
		case 3:
			for j, v := range g.Validators {
				v := v
				txs = append(txs, sign(v.Entity, 100+j, func(n uint64) *transaction.Transaction { return muxdrv.TxCastVote(n, fee, 1, governance.VoteYes) }))
			}
		case 4:
			nv := muxdrv.NewValidator(seed, 0)
			txs = append(txs, sign(acc[4].Key, 4, func(n uint64) *transaction.Transaction { return muxdrv.TxTransfer(n, fee, nv.EntityAddress(), 500000) }))
		case 5:
			nv := muxdrv.NewValidator(seed, 0)
			txs = append(txs, sign(nv.Entity, 200, func(n uint64) *transaction.Transaction { return muxdrv.TxAddEscrow(n, fee, nv.EntityAddress(), 200000) }))
			txs = append(txs, sign(nv.Entity, 200, func(n uint64) *transaction.Transaction {
				return muxdrv.TxRegisterEntity(n, fee, nv.Entity, []signature.PublicKey{nv.Node.Public()})
			}))
		case 6:
			nv := muxdrv.NewValidator(seed, 0)
			txs = append(txs, sign(nv.Node, 201, func(n uint64) *transaction.Transaction {
				return muxdrv.TxRegisterNode(n, muxdrv.Fee(0, muxdrv.DefaultGas), nv, muxdrv.NodeDescriptor(nv, 10, node.RoleValidator))
			}))
		case 7:
			txs = append(txs, muxdrv.SignRaw(acc[5].Key, muxdrv.TxTransfer(0, fee, acc[6].Address, 100), muxdrv.TxRawContext("deadbeef")))
			txs = append(txs, muxdrv.FlipBit(muxdrv.Sign(acc[5].Key, muxdrv.TxTransfer(0, fee, acc[6].Address, 100)), 300))
			txs = append(txs, muxdrv.Sign(acc[5].Key, muxdrv.TxTransfer(9, fee, acc[6].Address, 100)))
			txs = append(txs, muxdrv.Sign(acc[9].Key, muxdrv.TxTransfer(0, fee, acc[6].Address, 100)))
		}
		var mis []types.Misbehavior
		votes := muxdrv.VotesAll
		if i == 8 {
			mis = append(mis, c.DuplicateVote(g.Validators[2].ConsAddr, 1, c.Next-2), c.DuplicateVote(muxdrv.UnknownAddress(1), 1, c.Next-2))
			votes = muxdrv.VotesMask(5)
		}
		if i == 9 {
			votes = muxdrv.VotesNone
		}
		pi := i % 2
		prop, oth := a, b
		if pi == 1 {
			prop, oth = b, a
		}
		in := c.NewBlock(g.Validators[pi].ConsAddr, votes, mis)
		// background-ish calls
		if len(txs) > 0 {
			rc, err := oth.CheckTx(txs[0], false)
			fmt.Printf("  checktx code=%d gas=%d err=%v\n", rc.Code, rc.GasWanted, err)
		}
		gas, err := prop.EstimateGas(acc[0].Key.Public(), muxdrv.TxTransfer(0, nil, acc[1].Address, 100))
		fmt.Printf("  estimategas=%d err=%v\n", gas, err)
		list, err := prop.Propose(in, txs)
		must(err)
		r1, err := prop.Process(in, list)
		must(err)
		if i%3 == 2 {
			must(func() error { if oth.Cfg.OnDisk { return oth.Restart(nil) }; return nil }())
		}
		var r2 *muxdrv.BlockResult
		if i%2 == 0 {
			r2, err = oth.Replay(in, list)
		} else {
			r2, err = oth.Process(in, list)
		}
		must(err)
		c.Applied(r1)
		fmt.Printf("h=%d %s/%s eq=%v ntx=%d vu=%v\n", r1.Height, hex.EncodeToString(r1.AppHash)[:12], hex.EncodeToString(r2.AppHash)[:12], string(r1.AppHash) == string(r2.AppHash), len(r1.TxResults), r1.ValidatorUpdates)
		for k, t := range r1.TxResults {
			fmt.Printf("   tx%d code=%d/%s gas=%d %s\n", k, t.Code, t.Codespace, t.GasUsed, t.Log)
		}
	}
	d, err := muxdrv.DumpStaking(a, 0)
	must(err)
	fmt.Printf("supply=%s pool=%s accounts=%d dels=%d deb=%d govdep=%s\n", d.TotalSupply, d.CommonPool, len(d.Accounts), len(d.Delegations), len(d.Debonding), d.GovernanceDeposits)
	ka, _ := muxdrv.DumpState(a, 0)
	kb, _ := muxdrv.DumpState(b, 0)
	fmt.Println("diff", muxdrv.DiffKV(ka, kb, 5), len(ka), len(kb))
	_, err = muxdrv.DumpState(b, 3)
	fmt.Println("pruned b@3:", err)
	ps, _ := a.Proposals(0)
	for _, p := range ps {
		fmt.Println("proposal", p.ID, p.State)
	}
	vs, _ := a.CurrentValidators(0)
	fmt.Println("validators", vs)
}
