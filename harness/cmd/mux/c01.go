package main

// C01: four replicas execute the same block history on different execution
// paths and local configurations; after every height the observables named by
// the property are compared (the property's own oracle, S). The proposal-cache
// decisions and the dispatch order observed on the real multiplexer are
// recorded as correspondence cases for the Coq model Verif.Abci.Mux (K).

import (
	"bytes"
	"crypto/sha256"
	"encoding/hex"
	"encoding/json"
	"fmt"
	"os"
	"sort"
	"strings"
	"sync"
	"sync/atomic"
	"time"

	"github.com/cometbft/cometbft/abci/types"
	cmtproto "github.com/cometbft/cometbft/proto/tendermint/types"

	"github.com/oasisprotocol/oasis-core/go/consensus/cometbft/api"

	"github.com/oasisprotocol/oasis-core/go/common"
	"github.com/oasisprotocol/oasis-core/go/common/cbor"
	"github.com/oasisprotocol/oasis-core/go/common/crypto/signature"
	"github.com/oasisprotocol/oasis-core/go/common/node"
	"github.com/oasisprotocol/oasis-core/go/consensus/api/transaction"
	governance "github.com/oasisprotocol/oasis-core/go/governance/api"
	roothash "github.com/oasisprotocol/oasis-core/go/roothash/api"
	staking "github.com/oasisprotocol/oasis-core/go/staking/api"

	"verifharness/internal/coqout"
	"verifharness/internal/muxdrv"
	"verifharness/internal/prng"
)

const c01Header = "From Verif Require Import Lib.Base Abci.Mux.\n"

// c01Case identifies one history; it is replayable from these numbers alone.
type c01Case struct {
	Seed         uint64 `json:"seed"`
	Blocks       int    `json:"blocks"`
	NoBackground bool   `json:"no_background,omitempty"`
	// Tie selects the election-tie variant: 8 validator entities with EQUAL escrow, MaxValidators 3,
	// no rewards, an election every 2 blocks (tie-breaks at the cutoff must not depend on map order).
	Tie bool `json:"tie,omitempty"`
	// Procs: every replica additionally has a twin in its own OS process (see c01proc.go).
	Procs bool `json:"procs,omitempty"`
	// Runtimes: two compute runtimes with a shared compute node are registered and, once they
	// have committees, executor commitments for BOTH are put into the same block, so that
	// RuntimesToFinalize (roothash/api/block.go) has two entries to order.
	Runtimes bool `json:"runtimes,omitempty"`
	// Upgrade: every replica has an upgrade backend with a consensus upgrade due inside the
	// history; its migration writes state in EndBlock (before the system-tx validation).
	Upgrade bool `json:"upgrade,omitempty"`
	// GovUpgrade: every replica runs the REAL node-local upgrade manager (persistent store);
	// a governance upgrade proposal is submitted, voted through and closes inside the history.
	// The closing block is executed after failed rounds, after a restart before commit, and by
	// one replica whose operator pre-submitted the descriptor.
	GovUpgrade bool `json:"gov_upgrade,omitempty"`
	// Faults: a small harness-side application (muxdrv.FaultApp) is registered with the real mux on
	// every replica; in most blocks ONE replica suffers a one-off node-local fault (a panic after
	// state was written) inside ProcessProposal -- or the proposer inside PrepareProposal -- and
	// then gets the same block as decided, with no other proposal phase or restart in between.
	Faults bool `json:"faults,omitempty"`
	// informational
	Height  int64    `json:"height,omitempty"`
	Replica string   `json:"replica,omitempty"`
	Block   *blkDesc `json:"block,omitempty"`
	// for correspondence cases: index of the case inside the history
	Index int    `json:"index,omitempty"`
	Kind  string `json:"kind,omitempty"`
}

type blkDesc struct {
	Height   int64    `json:"height"`
	Proposer int      `json:"proposer"`
	Txs      []string `json:"txs"`
	TxKinds  []string `json:"tx_kinds"`
	Votes    string   `json:"votes"`
	Evidence []string `json:"evidence,omitempty"`
	Paths    []string `json:"paths"`
}

type c01Run struct {
	seed   uint64
	blocks int
	bg     bool
	tie    bool
	procs  bool
	rts    bool
	upg    bool
	gov      bool
	faults   bool
	abandoned bool
	faultApps []*muxdrv.FaultApp
	govStage int
	govID    uint64
	govClose int64
	rtStage int
	cnode  *muxdrv.Validator
	twins  []*twin
	sum    *coqout.Summary
	w      *coqout.Writer
	rng    *prng.R

	g        *muxdrv.Genesis
	reps     []*muxdrv.Replica
	chain    *muxdrv.Chain
	newVal   *muxdrv.Validator
	nvStage  int
	slashed  map[int]bool
	caseIdx  int
	txPool   [][]byte // recent txs for the background CheckTx
	poolMu   sync.Mutex
	bgOps    int64
	bgErrs   int64
	distinct int
	evals    int
}

func hx(b []byte) string { return hex.EncodeToString(b) }

// ---------- Coq term rendering ----------

func coqHeader(h *cmtproto.Header) string {
	return fmt.Sprintf("(mkHeader %d %d %s %s)", h.Height, h.Time.UnixNano(), coqout.Bytes(h.ProposerAddress), coqout.Bytes(h.NextValidatorsHash))
}

func coqMisb(ms []types.Misbehavior) string {
	var it []string
	for _, m := range ms {
		it = append(it, fmt.Sprintf("(mkMisb %d %s %d %d %d %d)", int(m.Type), coqout.Bytes(m.Validator.Address), m.Validator.Power, m.Height, m.Time.UnixNano(), m.TotalVotingPower))
	}
	return coqout.List(it)
}

// coqTxs renders a tx list for the model; every transaction is abstracted to the first
// 16 bytes of its SHA-256 (isEqual only compares transactions for byte equality, which
// the digest preserves up to collisions; raw transactions can be 33 kB).
func coqTxs(txs [][]byte) string {
	var it []string
	for _, t := range txs {
		d := sha256.Sum256(t)
		it = append(it, coqout.Bytes(d[:16]))
	}
	return coqout.List(it)
}

// ---------- the run ----------

// upgradeHeight: the upgrade is due when this height is committed (the migration runs in the next block).
func upgradeHeight(seed uint64) int64 { return 3 + int64(seed%5) }

func (c *c01Run) configs() []muxdrv.ReplicaConfig {
	cfgs := c.baseConfigs()
	if c.upg {
		for i := range cfgs {
			// the migration raises MaxTxSize from 32768 to 40000 (an in-block consensus parameter change)
			cfgs[i].Upgrade = &muxdrv.UpgradeSpec{AtHeight: upgradeHeight(c.seed), NewMaxTxSize: 40000}
		}
	}
	if c.gov {
		for i := range cfgs {
			cfgs[i].UpgradeManager = true
		}
	}
	if c.faults {
		if c.faultApps == nil {
			for range cfgs {
				c.faultApps = append(c.faultApps, &muxdrv.FaultApp{})
			}
		}
		for i := range cfgs {
			cfgs[i].ExtraApps = []api.Application{c.faultApps[i]}
		}
	}
	return cfgs
}

func (c *c01Run) baseConfigs() []muxdrv.ReplicaConfig {
	g := c.g
	return []muxdrv.ReplicaConfig{
		{Name: "r0-mem-pathbadger", Backend: "pathbadger", Identity: g.Validators[0].Identity, SanityInterval: 1},
		{Name: "r1-disk-badger", Backend: "badger", OnDisk: true, PruneKeepN: 2, MinGasPrice: 7, Identity: g.Validators[1].Identity, AppOrderSeed: c.seed*3 + 1},
		{Name: "r2-mem-badger", Backend: "badger", MinGasPrice: 1_000_000, Identity: g.Validators[2].Identity, AppOrderSeed: c.seed*5 + 2, Checkpointer: true},
		{Name: "r3-disk-pathbadger", Backend: "pathbadger", OnDisk: true, PruneKeepN: 3, MinGasPrice: 0, Identity: g.Validators[3].Identity, AppOrderSeed: c.seed*7 + 3, SanityInterval: 2},
	}
}

func (c *c01Run) close() {
	if c.abandoned {
		for _, r := range c.reps {
			if r != nil && strings.Contains(r.Cfg.DataDir, "muxdrv-") {
				_ = os.RemoveAll(r.Cfg.DataDir)
			}
		}
		return
	}
	for _, r := range c.reps {
		if r != nil {
			r.Close()
		}
	}
}

type violation struct {
	What   string   `json:"what"`
	Case   c01Case  `json:"case"`
	Detail []string `json:"detail,omitempty"`
}

func (c *c01Run) theCase() c01Case {
	return c01Case{Seed: c.seed, Blocks: c.blocks, NoBackground: !c.bg, Tie: c.tie, Procs: c.procs, Runtimes: c.rts, Upgrade: c.upg, GovUpgrade: c.gov, Faults: c.faults}
}

func c01GenesisOpts(seed uint64, tie bool) muxdrv.GenesisOpts {
	if tie {
		return muxdrv.GenesisOpts{Validators: 8, Accounts: 10, EpochInterval: 2, EqualEscrow: 160_000,
			MaxValidators: 3 + int(seed%2), NoRewards: true}
	}
	return muxdrv.GenesisOpts{Validators: 4, Accounts: 10, EpochInterval: int64(3 + seed%4)}
}

// run executes the history; it returns a violation or nil.
func (c *c01Run) run() *violation {
	c.rng = prng.New(c.seed ^ 0xc01c01)
	var err error
	gopts := c01GenesisOpts(c.seed, c.tie)
	if c.rts {
		gopts.EpochInterval = 3
	}
	if c.gov {
		gopts.EpochInterval = 2
	}
	c.g, err = muxdrv.NewGenesis(c.seed, gopts)
	if err != nil {
		return &violation{What: "genesis generation failed: " + err.Error(), Case: c.theCase()}
	}
	c.slashed = map[int]bool{}
	cfgs := c.configs()
	for _, cfg := range cfgs {
		r, err := muxdrv.NewReplica(c.g, cfg)
		if err != nil {
			c.close()
			return &violation{What: "replica " + cfg.Name + " failed to boot: " + err.Error(), Case: c.theCase()}
		}
		c.reps = append(c.reps, r)
	}
	defer c.close()
	if c.procs {
		for i, cfg := range cfgs {
			t, err := startTwin(c.seed, c.tie, c.rts, c.upg, i, c.bg, cfg.Name)
			if err != nil {
				for _, t2 := range c.twins {
					t2.close()
				}
				return &violation{What: "cannot start the process-separated replica: " + err.Error(), Case: c.theCase()}
			}
			c.twins = append(c.twins, t)
		}
		defer func() {
			var ops int64
			for _, t := range c.twins {
				t.close()
				ops += t.bg
			}
			c.sum.Extra["background_ops_in_child_processes"] = ops + toInt64(c.sum.Extra["background_ops_in_child_processes"])
		}()
	}
	c.chain = muxdrv.NewChain(c.g)
	c.newVal = muxdrv.NewValidator(c.seed, 0)
	c.cnode = muxdrv.ComputeNode(c.seed, 0, c.g.Validators[0])

	// dispatch-order correspondence (one case per replica)
	for i, r := range c.reps {
		c.orderCase(r, cfgs[i])
	}
	// genesis state must already agree
	if v := c.compareDumps(0, "after InitChain"); v != nil {
		return v
	}

	stop := make(chan struct{})
	var wg sync.WaitGroup
	if c.bg {
		for i := range c.reps {
			wg.Add(1)
			go c.background(i, stop, &wg)
		}
	}
	var viol *violation
	for b := 0; b < c.blocks; b++ {
		if viol = c.block(b); viol != nil {
			break
		}
	}
	close(stop)
	if anyBlocked.Load() {
		// a replica never returned from a call: its goroutine holds the replica's locks, so neither
		// the background load nor Close() can be waited for; the process exits after the summary.
		c.abandoned = true
		return viol
	}
	if berr := withDeadline("background load of history "+fmt.Sprint(c.seed), func() string { return "CheckTx/EstimateGas/query (a replica lock is held by a call that never returned)" }, wg.Wait); berr != nil {
		c.abandoned = true
		if viol == nil {
			viol = c.fail(berr.Error(), 0, -1, nil, nil)
		}
		return viol
	}
	if viol == nil {
		viol = c.compareDumps(0, "at the end of the history")
	}
	if viol == nil {
		c.commitInfoProbe()
	}
	c.sum.Extra["background_ops"] = atomic.LoadInt64(&c.bgOps) + toInt64(c.sum.Extra["background_ops"])
	return viol
}

// commitInfoProbe shows on the real code what the named hypothesis of
// cached_equals_reexecution is for: the proposer is handed its own block back with a
// DIFFERENT commit info. isEqual does not look at it, so the proposer reuses results
// computed with the commit info of PrepareProposal, while another replica executes the
// block as delivered. Informational only (CometBFT never does this); recorded in extra.
func (c *c01Run) commitInfoProbe() {
	h := c.chain.Next
	if h <= c.g.Doc.Height+1 {
		return
	}
	p, o := 0, 2
	prop, oth := c.reps[p], c.reps[o]
	in := c.chain.NewBlock(c.g.Validators[p].ConsAddr, muxdrv.VotesAll, nil)
	list, err := prop.Propose(in, nil)
	if err != nil || len(list) == 0 {
		return
	}
	inB := *in
	inB.LastCommit = c.chain.CommitInfo(h, muxdrv.VotesNone)
	hd := cmtproto.Header{Height: in.Height, Time: in.Time, ProposerAddress: in.Proposer}
	reused := prop.Srv.VerifProcessProposalWouldReuse(&hd, list, nil)
	out := map[string]any{"height": h, "proposer_reuses_cache": reused}
	resP, errP := prop.Process(&inB, list)
	resV, errV := oth.Replay(&inB, list)
	switch {
	case errP != nil:
		out["proposer"] = "failed: " + errP.Error()
	default:
		out["proposer"] = "committed " + hx(resP.AppHash)[:16] + " (results computed with the PrepareProposal commit info)"
	}
	switch {
	case errV != nil:
		e := errV.Error()
		if len(e) > 160 {
			e = e[:160]
		}
		out["other_replica"] = "rejects the block as delivered: " + e
	case errP == nil && bytes.Equal(resP.AppHash, resV.AppHash):
		out["other_replica"] = "agrees (commit info did not matter for this block)"
	default:
		out["other_replica"] = "committed a different state " + hx(resV.AppHash)[:16]
	}
	c.sum.Extra["commit_info_probe"] = out
	c.sum.Count("commit_info_probe", fmt.Sprintf("reused=%v other_agrees=%v", reused, errV == nil && errP == nil && bytes.Equal(resP.AppHash, resV.AppHash)))
}

func toInt64(v any) int64 {
	switch x := v.(type) {
	case int64:
		return x
	case float64:
		return int64(x)
	case int:
		return int64(x)
	}
	return 0
}

func (c *c01Run) orderCase(r *muxdrv.Replica, cfg muxdrv.ReplicaConfig) {
	names := r.Srv.VerifAppOrder()
	reg := r.RegOrder
	var regT, outT []string
	for _, n := range reg {
		regT = append(regT, coqout.Bytes([]byte(n)))
	}
	for _, n := range names {
		outT = append(outT, coqout.Bytes([]byte(n)))
	}
	cs := c.theCase()
	cs.Index, cs.Kind, cs.Replica = c.caseIdx, "order", cfg.Name
	c.caseIdx++
	c.w.Add(fmt.Sprintf("(COrder %s, ONames %s)", coqout.List(regT), coqout.List(outT)), cs)
	c.sum.Count("case_kind", "dispatch-order")
}

// ---------- transactions ----------

type txGen struct {
	raw   []byte
	kind  string
	class string // "valid" or the invalid respect
}

type sender struct {
	key  *muxdrv.Key
	kind string // "acct" / "entity"
	idx  int
}

func (c *c01Run) senders() []sender {
	var s []sender
	for i, a := range c.g.Accounts {
		s = append(s, sender{a.Key, "acct", i})
	}
	for i, v := range c.g.Validators {
		s = append(s, sender{v.Entity, "entity", i})
	}
	return s
}

func (c *c01Run) anyAddress() staking.Address {
	k := c.rng.Intn(len(c.g.Accounts) + len(c.g.Validators) + 1)
	switch {
	case k < len(c.g.Accounts):
		return c.g.Accounts[k].Address
	case k < len(c.g.Accounts)+len(c.g.Validators):
		return c.g.Validators[k-len(c.g.Accounts)].EntityAddress()
	default:
		return muxdrv.NewKey(fmt.Sprintf("fresh/%d", c.rng.Intn(5))).Address()
	}
}

func u64(qs string) uint64 {
	var v uint64
	fmt.Sscan(qs, &v)
	return v
}

func (c *c01Run) genTx(ref *muxdrv.Replica, s sender, sd *muxdrv.StakingDump) txGen {
	r := c.rng
	addr := s.key.Address()
	acc, err := ref.Account(0, addr)
	if err != nil {
		acc = &staking.Account{}
	}
	nonce := acc.General.Nonce
	bal := u64(acc.General.Balance.String())
	fee := muxdrv.Fee(uint64(r.Intn(40)), uint64(muxdrv.DefaultGas))
	invalid := r.Chance(30)
	class := "valid"
	pick := func(max uint64) uint64 {
		if max < 11 {
			return 10
		}
		hi := max / 50
		if hi < 11 {
			hi = 11
		}
		return 10 + r.U64()%(hi-10)
	}
	var tx *transaction.Transaction
	var kind string
	opCost := uint64(1000)
	k := r.Intn(100)
	if c.tie && k >= 33 && k < 58 {
		k = r.Intn(33) // keep the validators' escrows equal: no add/reclaim escrow
	}
	switch {
	case k < 25:
		kind, opCost = "transfer", 1000
		tx = muxdrv.TxTransfer(nonce, fee, c.anyAddress(), pick(bal))
	case k < 33:
		kind, opCost = "burn", 1000
		tx = muxdrv.TxBurn(nonce, fee, pick(bal))
	case k < 48:
		kind, opCost = "add-escrow", 1300
		tx = muxdrv.TxAddEscrow(nonce, fee, c.g.Validators[r.Intn(4)].EntityAddress(), pick(bal)*4)
	case k < 58:
		kind, opCost = "reclaim-escrow", 1300
		target := c.g.Validators[r.Intn(4)].EntityAddress()
		shares := 100 + r.U64()%900
		if sd != nil && r.Chance(85) {
			// prefer an escrow account the sender really has a delegation in
			var mine []muxdrv.DelegationDump
			for _, d := range sd.Delegations {
				if d.Delegator == addr.String() {
					mine = append(mine, d)
				}
			}
			if len(mine) == 0 && r.Chance(80) {
				kind, opCost = "add-escrow", 1300
				tx = muxdrv.TxAddEscrow(nonce, fee, target, pick(bal)*4)
				break
			}
			if len(mine) > 0 {
				d := mine[r.Intn(len(mine))]
				_ = target.UnmarshalText([]byte(d.Escrow))
				if have := u64(d.Shares); have > 0 {
					shares = 1 + r.U64()%have
					if r.Chance(10) {
						shares = have // reclaim everything
					}
				}
			}
		}
		tx = muxdrv.TxReclaimEscrow(nonce, fee, target, shares)
	case k < 66:
		kind, opCost = "allow", 1100
		tx = muxdrv.TxAllow(nonce, fee, c.g.Accounts[r.Intn(len(c.g.Accounts))].Address, r.Chance(25), 50+r.U64()%2000)
	case k < 74:
		kind, opCost = "withdraw", 1200
		from := c.g.Accounts[r.Intn(len(c.g.Accounts))].Address
		amt := 10 + r.U64()%200
		if sd != nil && r.Chance(85) {
			// prefer an account that granted the sender an allowance
			found := false
			for _, a := range sd.Accounts {
				if al, ok := a.Allowances[addr.String()]; ok && u64(al) >= 10 {
					_ = from.UnmarshalText([]byte(a.Address))
					amt = 10 + r.U64()%(u64(al)-9)
					found = true
					break
				}
			}
			if !found && r.Chance(80) {
				kind, opCost = "allow", 1100
				tx = muxdrv.TxAllow(nonce, fee, c.g.Accounts[r.Intn(len(c.g.Accounts))].Address, false, 50+r.U64()%2000)
				break
			}
		}
		tx = muxdrv.TxWithdraw(nonce, fee, from, amt)
	case k < 79 && s.kind != "entity" && r.Chance(85):
		kind, opCost = "burn", 1000
		tx = muxdrv.TxBurn(nonce, fee, pick(bal))
	case k < 79:
		kind, opCost = "amend-commission", 1500
		ep, _, _ := ref.Epoch(0)
		tx = muxdrv.TxAmendCommission(nonce, fee, uint64(ep)+uint64(1+r.Intn(3)), uint64(r.Intn(50_000)), 0, 0, 0)
	case k < 83:
		kind, opCost = "submit-proposal", 1700
		if r.Chance(70) {
			tx = muxdrv.TxSubmitChangeParams(nonce, fee, uint64(5+r.Intn(20)))
		} else {
			tx = muxdrv.TxSubmitCancelUpgrade(nonce, fee, uint64(r.Intn(3)))
		}
	case k < 90 && s.kind != "entity" && r.Chance(80):
		kind, opCost = "transfer", 1000
		tx = muxdrv.TxTransfer(nonce, fee, c.anyAddress(), pick(bal))
	case k < 90:
		kind, opCost = "cast-vote", 1100
		ps, _ := ref.Proposals(0)
		id := uint64(1)
		if len(ps) > 0 {
			id = ps[r.Intn(len(ps))].ID
		}
		vote := []governance.Vote{governance.VoteYes, governance.VoteNo, governance.VoteAbstain}[r.Intn(3)]
		tx = muxdrv.TxCastVote(nonce, fee, id, vote)
	case k < 94:
		kind, opCost = "register-entity", 1400
		var nodes []signature.PublicKey
		if s.kind == "entity" {
			nodes = []signature.PublicKey{c.g.Validators[s.idx].Node.Public()}
		}
		tx = muxdrv.TxRegisterEntity(nonce, fee, s.key, nodes)
	case k < 97:
		kind, opCost = "set-epoch(disabled)", 0
		tx = muxdrv.TxSetEpoch(nonce, fee, 99)
	default:
		kind, opCost = "unknown-method", 0
		tx = transaction.NewTransaction(nonce, fee, "verif.Nothing", uint64(7))
	}
	raw := muxdrv.Sign(s.key, tx)
	if !invalid {
		return txGen{raw, kind, class}
	}
	resign := func() []byte { return muxdrv.Sign(s.key, tx) }
	switch r.Intn(13) {
	case 0:
		class = "nonce+1"
		tx.Nonce = nonce + 1
		raw = resign()
	case 1:
		class = "nonce-stale"
		if nonce > 0 {
			tx.Nonce = nonce - 1
		} else {
			tx.Nonce = 1 << 40
		}
		raw = resign()
	case 2:
		class = "gas-zero"
		tx.Fee = muxdrv.Fee(0, 0)
		raw = resign()
	case 3:
		class = "gas-below-size"
		tx.Fee = muxdrv.Fee(5, uint64(len(raw)/2))
		raw = resign()
	case 4:
		class = "gas-below-op"
		tx.Fee = muxdrv.Fee(5, uint64(len(raw))+opCost/2)
		raw = resign()
	case 5:
		class = "fee-exceeds-balance"
		tx.Fee = muxdrv.Fee(bal+1+r.U64()%1000, uint64(muxdrv.DefaultGas))
		raw = resign()
	case 6:
		class = "wrong-chain-context"
		raw = muxdrv.SignRaw(s.key, tx, muxdrv.TxRawContext("0000000000000000"))
	case 7:
		class = "other-domain-context"
		raw = muxdrv.SignRaw(s.key, tx, []byte("oasis-core/registry: register entity"))
	case 8:
		class = "bit-flip"
		raw = muxdrv.FlipBit(raw, r.Intn(8*len(raw)))
	case 9:
		class = "wrong-signer"
		raw = muxdrv.WithSigner(raw, c.g.Accounts[(s.idx+1)%len(c.g.Accounts)].Key.Public())
	case 10:
		class = "truncated"
		raw = muxdrv.Truncate(raw, 1+r.Intn(20))
	case 11:
		class = "amount-exceeds-balance"
		switch kind {
		case "transfer":
			tx = muxdrv.TxTransfer(nonce, fee, c.anyAddress(), bal+1+r.U64()%1000)
		case "burn":
			tx = muxdrv.TxBurn(nonce, fee, bal+1)
		case "add-escrow":
			tx = muxdrv.TxAddEscrow(nonce, fee, c.g.Validators[r.Intn(4)].EntityAddress(), bal+1)
		case "reclaim-escrow":
			tx = muxdrv.TxReclaimEscrow(nonce, fee, c.g.Validators[r.Intn(4)].EntityAddress(), 1<<50)
		default:
			tx = muxdrv.TxTransfer(nonce, fee, c.anyAddress(), 3) // below the minimum transfer
			class = "below-min-transfer"
		}
		raw = muxdrv.Sign(s.key, tx)
	default:
		class = "oversized"
		tx = transaction.NewTransaction(nonce, fee, "verif.Nothing", bytes.Repeat([]byte{0x5a}, 33_000))
		raw = muxdrv.Sign(s.key, tx)
	}
	return txGen{raw, kind, class}
}

// newValidatorStep advances the registration of a brand-new validator by one step.
func (c *c01Run) newValidatorStep(ref *muxdrv.Replica) *txGen {
	nv := c.newVal
	fee := muxdrv.Fee(1, muxdrv.DefaultGas)
	switch c.nvStage {
	case 0:
		donor := c.g.Accounts[0]
		acc, err := ref.Account(0, donor.Address)
		if err != nil || u64(acc.General.Balance.String()) < 400_000 {
			return nil
		}
		c.nvStage++
		return &txGen{muxdrv.Sign(donor.Key, muxdrv.TxTransfer(acc.General.Nonce, fee, nv.EntityAddress(), 300_000)), "newval-fund", "valid"}
	case 1:
		acc, err := ref.Account(0, nv.EntityAddress())
		if err != nil || u64(acc.General.Balance.String()) < 250_000 {
			return nil
		}
		c.nvStage++
		return &txGen{muxdrv.Sign(nv.Entity, muxdrv.TxAddEscrow(acc.General.Nonce, fee, nv.EntityAddress(), 200_000)), "newval-escrow", "valid"}
	case 2:
		acc, _ := ref.Account(0, nv.EntityAddress())
		c.nvStage++
		return &txGen{muxdrv.Sign(nv.Entity, muxdrv.TxRegisterEntity(acc.General.Nonce, fee, nv.Entity, []signature.PublicKey{nv.Node.Public()})), "newval-entity", "valid"}
	case 3:
		acc, _ := ref.Account(0, nv.Node.Address())
		ep, _, _ := ref.Epoch(0)
		c.nvStage++
		return &txGen{muxdrv.Sign(nv.Node, muxdrv.TxRegisterNode(acc.General.Nonce, muxdrv.Fee(0, muxdrv.DefaultGas), nv, muxdrv.NodeDescriptor(nv, uint64(ep)+4, node.RoleValidator))), "newval-node", "valid"}
	}
	return nil
}

// govStep drives the governance-upgrade scenario: submit an upgrade proposal (far-away upgrade
// epoch, so the upgrade itself never becomes due inside the history), let all validator
// entities vote yes, and work out the height of the block that closes it.
func (c *c01Run) govStep(ref *muxdrv.Replica, ss *[]sender) []txGen {
	g := c.g
	drop := func(kind string, idx int) {
		out := (*ss)[:0]
		for _, x := range *ss {
			if !(x.kind == kind && x.idx == idx) {
				out = append(out, x)
			}
		}
		*ss = out
	}
	nonce := func(k *muxdrv.Key) (uint64, bool) {
		acc, err := ref.Account(0, k.Address())
		if err != nil {
			return 0, false
		}
		return acc.General.Nonce, true
	}
	fee := muxdrv.Fee(10, muxdrv.DefaultGas)
	switch c.govStage {
	case 0:
		ep, _, err := ref.Epoch(0)
		n, ok := nonce(g.Validators[0].Entity)
		if err != nil || !ok {
			return nil // nothing committed yet
		}
		drop("entity", 0)
		c.govStage = 1
		return []txGen{{muxdrv.Sign(g.Validators[0].Entity, muxdrv.TxSubmitUpgrade(n, fee, uint64(ep)+40)), "gov-submit-upgrade", "valid"}}
	case 1:
		ps, err := ref.Proposals(0)
		if err != nil {
			return nil
		}
		for _, pr := range ps {
			if pr.Content.Upgrade != nil {
				c.govID = pr.ID
				c.govClose = int64(pr.ClosesAt) * g.Opts.EpochInterval
			}
		}
		if c.govID == 0 {
			return nil
		}
		var out []txGen
		for i, v := range g.Validators {
			n, ok := nonce(v.Entity)
			if !ok {
				continue
			}
			drop("entity", i)
			out = append(out, txGen{muxdrv.Sign(v.Entity, muxdrv.TxCastVote(n, fee, c.govID, governance.VoteYes)), "gov-vote-yes", "valid"})
		}
		c.govStage = 2
		return out
	}
	return nil
}

// runtimeStep drives the runtime scenario of a "runtimes" history by one step and removes the
// senders it uses from the pool of random senders of this block.
func (c *c01Run) runtimeStep(ref *muxdrv.Replica, ss *[]sender) []txGen {
	g := c.g
	v0 := g.Validators[0]
	drop := func(kind string, idx int) {
		out := (*ss)[:0]
		for _, x := range *ss {
			if !(x.kind == kind && x.idx == idx) {
				out = append(out, x)
			}
		}
		*ss = out
	}
	nonce := func(k *muxdrv.Key) uint64 {
		if acc, err := ref.Account(0, k.Address()); err == nil {
			return acc.General.Nonce
		}
		return 0
	}
	rt1, rt2 := muxdrv.RuntimeID(c.seed, "rt1"), muxdrv.RuntimeID(c.seed, "rt2")
	big := muxdrv.Fee(10, 4*muxdrv.DefaultGas)
	var out []txGen
	switch c.rtStage {
	case 0:
		drop("acct", 8)
		drop("entity", 0)
		n8, ne := nonce(g.Accounts[8].Key), nonce(v0.Entity)
		out = append(out,
			txGen{muxdrv.Sign(g.Accounts[8].Key, muxdrv.TxTransfer(n8, big, c.cnode.Node.Address(), 5000)), "rt-fund-node", "valid"},
			txGen{muxdrv.Sign(v0.Entity, muxdrv.TxRegisterRuntime(ne, big, muxdrv.RuntimeDescriptor(rt1, v0.Entity.Public()))), "rt-register", "valid"},
			txGen{muxdrv.Sign(v0.Entity, muxdrv.TxRegisterRuntime(ne+1, big, muxdrv.RuntimeDescriptor(rt2, v0.Entity.Public()))), "rt-register", "valid"},
			txGen{muxdrv.Sign(v0.Entity, muxdrv.TxRegisterEntity(ne+2, big, v0.Entity, []signature.PublicKey{v0.Node.Public(), c.cnode.Node.Public()})), "rt-entity-nodes", "valid"})
		c.rtStage = 1
	case 1:
		nd := muxdrv.NodeDescriptor(c.cnode, 1000, node.RoleComputeWorker)
		nd.Runtimes = []*node.Runtime{{ID: rt1}, {ID: rt2}}
		out = append(out, txGen{muxdrv.Sign(c.cnode.Node, muxdrv.TxRegisterNode(nonce(c.cnode.Node), muxdrv.Fee(1, 4*muxdrv.DefaultGas), c.cnode, nd)), "rt-register-node", "valid"})
		c.rtStage = 2
	default:
		s1, s2 := ref.RuntimeState(0, rt1), ref.RuntimeState(0, rt2)
		if s1 == nil || s2 == nil || s1.Committee == nil || s2.Committee == nil || s1.LastBlock == nil || s2.LastBlock == nil {
			return nil
		}
		drop("acct", 1)
		n1 := nonce(g.Accounts[1].Key)
		// the submission order of the two commitments alternates; the finalization order must not depend on it
		ids := []struct {
			id common.Namespace
			st *roothash.RuntimeState
		}{{rt1, s1}, {rt2, s2}}
		if c.rng.Chance(50) {
			ids[0], ids[1] = ids[1], ids[0]
		}
		for k, x := range ids {
			ec := muxdrv.ExecutorCommit(x.id, x.st.LastBlock, c.cnode.Node, 0)
			out = append(out, txGen{muxdrv.Sign(g.Accounts[1].Key, muxdrv.TxExecutorCommit(n1+uint64(k), big, x.id, ec)), "rt-commit", "valid"})
		}
	}
	return out
}

// ---------- one block ----------

var pathNames = []string{"process", "replay", "stale-propose+process", "stale-propose+replay", "shadow-propose+process", "stale-same-header+process"}

func (c *c01Run) block(b int) *violation {
	r := c.rng
	g := c.g
	h := c.chain.Next
	// proposer: a genesis validator which is still in the validator set (fall back to any).
	cur := c.chain.ValidatorsAt(h)
	var cands []int
	for i, v := range g.Validators {
		if i >= len(c.reps) {
			break // only the first four validators have a replica that can propose
		}
		for _, cv := range cur {
			if bytes.Equal(cv.Address, v.ConsAddr) {
				cands = append(cands, i)
			}
		}
	}
	if len(cands) == 0 {
		cands = []int{0, 1, 2, 3}
	}
	p := cands[r.Intn(len(cands))]
	prop := c.reps[p]

	// transactions
	ntx := r.Intn(9)
	if r.Chance(15) {
		ntx = 0
	}
	ss := c.senders()
	sd, _ := muxdrv.DumpStaking(prop, 0)
	var gens []txGen
	if !c.tie && r.Chance(35) {
		if t := c.newValidatorStep(prop); t != nil {
			gens = append(gens, *t)
		}
	}
	if c.rts {
		gens = append(gens, c.runtimeStep(prop, &ss)...)
	}
	if c.gov {
		gens = append(gens, c.govStep(prop, &ss)...)
	}
	if c.upg && h == upgradeHeight(c.seed)+2 && len(ss) > 0 {
		// a transaction whose outcome depends on the parameter the migration just changed: 33 kB,
		// above the old MaxTxSize (32768) and below the new one (40000)
		k := r.Intn(len(ss))
		sd := ss[k]
		ss = append(ss[:k], ss[k+1:]...)
		var n uint64
		if acc, err := prop.Account(0, sd.key.Address()); err == nil {
			n = acc.General.Nonce
		}
		big := transaction.NewTransaction(n, muxdrv.Fee(50, 50_000), "verif.Nothing", bytes.Repeat([]byte{0x5a}, 33_000))
		gens = append(gens, txGen{muxdrv.Sign(sd.key, big), "param-sensitive-33kB", "valid"})
		c.sum.Count("upgrade_block", "parameter-sensitive tx in the next block, r3 restarted in between")
	}
	nFaultAdds := 0
	if c.faults {
		for j := 0; j < 1+r.Intn(3) && len(ss) > 0; j++ {
			k := r.Intn(len(ss))
			sd := ss[k]
			ss = append(ss[:k], ss[k+1:]...)
			var n uint64
			if acc, err := prop.Account(0, sd.key.Address()); err == nil {
				n = acc.General.Nonce
			}
			gens = append(gens, txGen{muxdrv.Sign(sd.key, muxdrv.TxFaultAdd(n, muxdrv.Fee(5, muxdrv.DefaultGas), 1+r.U64()%100)), "fault-add", "valid"})
			nFaultAdds++
		}
	}
	for i := 0; i < ntx && len(ss) > 0; i++ {
		k := r.Intn(len(ss))
		s := ss[k]
		ss = append(ss[:k], ss[k+1:]...)
		if s.kind == "acct" && s.idx == 0 && len(gens) > 0 && strings.HasPrefix(gens[0].kind, "newval-fund") {
			continue
		}
		gens = append(gens, c.genTx(prop, s, sd))
	}
	var cand [][]byte
	desc := &blkDesc{Height: h, Proposer: p}
	for _, t := range gens {
		cand = append(cand, t.raw)
		desc.Txs = append(desc.Txs, hx(t.raw))
		desc.TxKinds = append(desc.TxKinds, t.kind+"/"+t.class)
		c.sum.Count("tx_kind", t.kind)
		c.sum.Count("tx_class", t.class)
	}
	c.poolMu.Lock()
	c.txPool = append(c.txPool, cand...)
	if len(c.txPool) > 64 {
		c.txPool = c.txPool[len(c.txPool)-64:]
	}
	c.poolMu.Unlock()

	// votes
	var votes muxdrv.VotePattern
	switch r.Intn(6) {
	case 0:
		votes, desc.Votes = muxdrv.VotesNone, "none"
	case 1, 2:
		m := r.U64() % 32
		votes, desc.Votes = muxdrv.VotesMask(m), fmt.Sprintf("mask:%05b", m)
	case 3:
		votes, desc.Votes = muxdrv.VotesAllBut(g.Validators[r.Intn(4)].ConsAddr), "all-but-one"
	default:
		votes, desc.Votes = muxdrv.VotesAll, "all"
	}
	if h == g.Doc.Height {
		desc.Votes = "first-block(empty)"
	}
	c.sum.Count("votes", strings.SplitN(desc.Votes, ":", 2)[0])

	// evidence
	var mis []types.Misbehavior
	if h > g.Doc.Height+1 && r.Chance(12) {
		n := 1 + r.Intn(2)
		for i := 0; i < n; i++ {
			if !c.tie && r.Chance(50) && len(c.slashed) < 2 {
				vi := r.Intn(4)
				if vi == p {
					vi = (vi + 1) % 4
				}
				c.slashed[vi] = true
				var pw int64 = 1
				for _, cv := range cur {
					if bytes.Equal(cv.Address, g.Validators[vi].ConsAddr) {
						pw = cv.Power
					}
				}
				mis = append(mis, c.chain.DuplicateVote(g.Validators[vi].ConsAddr, pw, h-1-int64(r.Intn(2))))
				desc.Evidence = append(desc.Evidence, fmt.Sprintf("duplicate-vote:validator%d", vi))
				c.sum.Count("evidence", "known-validator")
			} else {
				mis = append(mis, c.chain.DuplicateVote(muxdrv.UnknownAddress(r.U64()%7), 5, h-1))
				desc.Evidence = append(desc.Evidence, "duplicate-vote:unknown")
				c.sum.Count("evidence", "unknown-validator")
			}
		}
	}
	if len(mis) == 0 {
		c.sum.Count("evidence", "none")
	}

	in := c.chain.NewBlock(g.Validators[p].ConsAddr, votes, mis)

	// restarts of the on-disk replicas (never the proposer before it proposes... it may, that is fine too)
	// the block right after the one in which the upgrade migration changed the consensus
	// parameters: one on-disk replica is restarted exactly here (it reloads the parameters from
	// the committed state), the others keep running (they rely on the cache refreshed at commit)
	afterMigration := c.upg && h == upgradeHeight(c.seed)+2
	for i, rp := range c.reps {
		restartNow := r.Chance(30)
		if afterMigration {
			restartNow = i == 3
		}
		if rp.Cfg.OnDisk && b > 0 && restartNow {
			ncfg := rp.Cfg
			ncfg.MinGasPrice = uint64(r.Intn(3)) * 11
			ncfg.PruneKeepN = uint64(1 + r.Intn(4))
			if err := c.restart(i, &ncfg); err != nil {
				return c.fail("restart of "+rp.Cfg.Name+" failed: "+err.Error(), h, i, desc, nil)
			}
			c.sum.Count("restarts", rp.Cfg.Name)
		}
	}

	// fault injection (fault histories): who, where
	victim, faultMode := -1, ""
	if c.faults && b > 0 && r.Chance(70) {
		switch r.Intn(4) {
		case 0:
			faultMode = "begin"
		default:
			faultMode = fmt.Sprintf("tx%d", 1+r.Intn(nFaultAdds))
		}
		if r.Chance(30) {
			victim = p // the proposer, inside PrepareProposal
		} else {
			victim = (p + 1 + r.Intn(len(c.reps)-1)) % len(c.reps)
		}
	}
	arm := func(i int) {
		if faultMode == "begin" {
			c.faultApps[i].ArmBegin()
		} else {
			var k int
			fmt.Sscanf(faultMode, "tx%d", &k)
			c.faultApps[i].ArmTx(k)
		}
	}
	if victim == p {
		arm(p)
		before := c.faultApps[p].Fired.Load()
		var failed [][]byte
		var ferr error
		if berr := withDeadline("replica "+c.reps[p].Cfg.Name, c.reps[p].CurrentCall, func() { failed, ferr = c.reps[p].Propose(in, cand) }); berr != nil {
			return c.fail(berr.Error(), h, p, desc, nil)
		}
		if ferr != nil {
			return c.fail("PrepareProposal with an injected fault did not recover: "+ferr.Error(), h, p, desc, nil)
		}
		fired := c.faultApps[p].Fired.Load() > before
		c.faultApps[p].Disarm()
		c.sum.Count("fault_injection", fmt.Sprintf("in-prepare(%s) fired=%v empty-proposal=%v", strings.TrimRight(faultMode, "0123456789"), fired, len(failed) == 0))
		if fired && len(failed) != 0 {
			return c.fail("PrepareProposal returned a proposal although the execution panicked", h, p, desc, nil)
		}
		// the proposer simply tries again in the next round
	}
	list, err := c.propose(p, in, cand)
	if err != nil {
		return c.fail("PrepareProposal failed on the proposer: "+err.Error(), h, p, desc, nil)
	}
	if len(list) == 0 {
		return c.fail("PrepareProposal returned an empty proposal (execution failed on the proposer)", h, p, desc, nil)
	}
	// proposer restarted between prepare and process: loses its cache, must re-execute.
	closing := c.gov && c.govClose > 0 && h == c.govClose
	forced := map[int]string{}
	if closing {
		// the block that closes the upgrade proposal: every kind of "executed before" must occur
		k := 0
		for i := range c.reps {
			if i == p {
				continue
			}
			switch k {
			case 0:
				// this node's operator pre-submitted the descriptor to the local upgrade manager
				if ps, err := prop.Proposals(0); err == nil {
					for _, pr := range ps {
						if pr.ID == c.govID && pr.Content.Upgrade != nil {
							d := pr.Content.Upgrade.Descriptor
							_ = c.reps[i].Upgrader().SubmitDescriptor(&d)
						}
					}
				}
				forced[i] = "replay"
				c.sum.Count("gov_closing_block", "pre-submitted descriptor + replay: "+c.reps[i].Cfg.Name)
			case 1:
				forced[i] = "stale-propose+process"
			default:
				forced[i] = "stale-propose+replay"
			}
			k++
		}
	}
	propPath := "propose+cached"
	if prop.Cfg.OnDisk && (r.Chance(15) || closing) {
		if err := c.restart(p, nil); err != nil {
			return c.fail("restart of proposer failed: "+err.Error(), h, p, desc, nil)
		}
		propPath = "propose+restart+process"
		c.sum.Count("restarts", prop.Cfg.Name)
	}

	results := make([]*muxdrv.BlockResult, len(c.reps))
	desc.Paths = make([]string, len(c.reps))
	// path assignment for the other replicas: at least one process and one replay.
	others := []int{}
	for i := range c.reps {
		if i != p {
			others = append(others, i)
		}
	}
	assign := []int{0, 1, r.Intn(len(pathNames))}
	for i := len(assign) - 1; i > 0; i-- {
		j := r.Intn(i + 1)
		assign[i], assign[j] = assign[j], assign[i]
	}
	if r.Chance(40) {
		assign[r.Intn(3)] = 2 + r.Intn(4)
	}

	var metaBodies = map[int][]byte{}
	exec := func(i int, path string) *violation {
		rp := c.reps[i]
		var res *muxdrv.BlockResult
		var err error
		switch path {
		case "propose+cached", "propose+restart+process", "process":
			c.decisionCase(rp, "process", in, list, desc, i)
			res, err = c.execOn(i, "process", in, list)
		case "replay":
			c.decisionCase(rp, "begin", in, list, desc, i)
			res, err = c.execOn(i, "replay", in, list)
		case "stale-propose+process", "stale-propose+replay":
			// the replica first builds its OWN proposal for this height from a different tx set
			// (an earlier round that failed), then gets the real block.
			own := *in
			own.Proposer = g.Validators[i].ConsAddr
			sub := cand
			if len(sub) > 0 {
				sub = sub[:len(sub)/2]
			}
			if _, err = c.propose(i, &own, sub); err != nil {
				return c.fail("stale PrepareProposal failed: "+err.Error(), h, i, desc, nil)
			}
			if path == "stale-propose+process" {
				c.decisionCase(rp, "process", in, list, desc, i)
				res, err = c.execOn(i, "process", in, list)
			} else {
				c.decisionCase(rp, "begin", in, list, desc, i)
				res, err = c.execOn(i, "replay", in, list)
			}
		case "fault-in-process+replay":
			// a one-off node-local fault makes this replica's ProcessProposal panic (recovered by
			// the mux into REJECT) after state was written; the block is decided by the others
			// and arrives through BeginBlock..Commit, nothing else in between.
			arm(i)
			before := c.faultApps[i].Fired.Load()
			var accepted bool
			var perr error
			if berr := withDeadline("replica "+rp.Cfg.Name, rp.CurrentCall, func() { accepted, perr = rp.ProcessProposal(in, list) }); berr != nil {
				return c.fail(berr.Error(), h, i, desc, nil)
			}
			if perr != nil {
				return c.fail("ProcessProposal with an injected fault did not recover: "+perr.Error(), h, i, desc, nil)
			}
			fired := c.faultApps[i].Fired.Load() > before
			c.faultApps[i].Disarm()
			c.sum.Count("fault_injection", fmt.Sprintf("in-process(%s) fired=%v accepted=%v", strings.TrimRight(faultMode, "0123456789"), fired, accepted))
			if fired && accepted {
				return c.fail("ProcessProposal accepted a proposal whose execution panicked", h, i, desc, nil)
			}
			c.decisionCase(rp, "begin", in, list, desc, i)
			res, err = c.execOn(i, "replay", in, list)
		case "stale-same-header+process":
			// the replica prepared a proposal under the SAME header with the same number of
			// transactions but different content (only the transaction comparison of isEqual
			// tells it apart from the real block).
			alt := make([][]byte, len(cand))
			for k := range cand {
				alt[k] = muxdrv.FlipBit(cand[k], 8*len(cand[k])-1)
			}
			if _, err = c.propose(i, in, alt); err != nil {
				return c.fail("stale PrepareProposal failed: "+err.Error(), h, i, desc, nil)
			}
			c.decisionCase(rp, "process", in, list, desc, i)
			res, err = c.execOn(i, "process", in, list)
		case "shadow-propose+process":
			// the replica prepares the SAME content under the same header (signing the metadata
			// with its own key): the metadata body must equal the proposer's.
			own, err2 := c.propose(i, in, cand)
			if err2 != nil {
				return c.fail("shadow PrepareProposal failed: "+err2.Error(), h, i, desc, nil)
			}
			metaBodies[i] = muxdrv.MetaBody(own)
			c.decisionCase(rp, "process", in, list, desc, i)
			res, err = c.execOn(i, "process", in, list)
		}
		if err != nil {
			return c.fail(fmt.Sprintf("block execution failed on path %s: %v", path, err), h, i, desc, nil)
		}
		results[i] = res
		desc.Paths[i] = path
		c.sum.Count("path", path)
		c.sum.Count("path_by_replica", rp.Cfg.Name+":"+path)
		c.evals++
		return nil
	}
	desc.Paths[p] = propPath
	// execution order of the replicas varies too
	order := append([]int{p}, others...)
	if r.Chance(50) {
		order = append(others, p)
	}
	oi := 0
	for _, i := range order {
		path := propPath
		if i != p {
			path = pathNames[assign[oi]]
			oi++
			if f, ok := forced[i]; ok {
				path = f
			}
			if i == victim {
				path = "fault-in-process+replay"
			}
		}
		if v := exec(i, path); v != nil {
			return v
		}
	}

	// ---- the oracle: all replicas agree on every observable ----
	ref := results[p]
	for i, res := range results {
		if i == p {
			continue
		}
		if d := diffResults(ref, res); d != "" {
			ka, _ := muxdrv.DumpState(c.reps[p], 0)
			kb, _ := muxdrv.DumpState(c.reps[i], 0)
			return c.fail(fmt.Sprintf("replicas %s (%s) and %s (%s) disagree at height %d: %s",
				c.reps[p].Cfg.Name, desc.Paths[p], c.reps[i].Cfg.Name, desc.Paths[i], h, d), h, i, desc, muxdrv.DiffKV(ka, kb, 12))
		}
	}
	pm := muxdrv.MetaBody(list)
	for i, mb := range metaBodies {
		if !bytes.Equal(mb, pm) {
			return c.fail(fmt.Sprintf("block-metadata body prepared by %s differs from the proposer's: %x vs %x", c.reps[i].Cfg.Name, mb, pm), h, i, desc, nil)
		}
		c.sum.Count("meta_body_compared", "equal")
	}
	if ref.MetaTx == nil {
		return c.fail("no block-metadata transaction in the proposer's block", h, p, desc, nil)
	}
	// metadata state root = the AppHash every replica committed
	var meta struct {
		StateRoot  []byte `json:"state_root"`
		EventsRoot []byte `json:"events_root"`
	}
	if err := cbor.Unmarshal(ref.MetaTx, &meta); err == nil && !bytes.Equal(meta.StateRoot, ref.AppHash) {
		return c.fail(fmt.Sprintf("metadata state root %x differs from the committed AppHash %x", meta.StateRoot, ref.AppHash), h, p, desc, nil)
	}

	for k, t := range ref.TxResults {
		if k == len(ref.TxResults)-1 {
			break
		}
		if k < len(desc.TxKinds) && strings.HasSuffix(desc.TxKinds[k], "/valid") && t.Code != 0 {
			lg := t.Log
			if len(lg) > 60 {
				lg = lg[:60]
			}
			c.sum.Count("valid_class_failures", strings.SplitN(desc.TxKinds[k], "/", 2)[0]+": "+lg)
		}
		if t.Code == 0 {
			c.sum.Count("tx_result", "ok")
		} else {
			c.sum.Count("tx_result", fmt.Sprintf("fail:%s/%d", t.Codespace, t.Code))
		}
	}
	if c.upg && h == upgradeHeight(c.seed)+1 {
		c.sum.Count("upgrade_block", fmt.Sprintf("executed on 4 replicas, paths %v", desc.Paths))
	}
	if closing {
		st := "?"
		if ps, err := c.reps[p].Proposals(0); err == nil {
			for _, pr := range ps {
				if pr.ID == c.govID {
					st = pr.State.String()
				}
			}
		}
		c.sum.Count("gov_closing_block", fmt.Sprintf("proposal %s; paths %v", st, desc.Paths))
	}
	if c.rts {
		okc := 0
		for k, t := range ref.TxResults {
			if k < len(desc.TxKinds) && strings.HasPrefix(desc.TxKinds[k], "rt-commit") && t.Code == 0 {
				okc++
			}
		}
		c.sum.Count("runtimes_to_finalize_entries", fmt.Sprint(okc))
	}
	if len(ref.ValidatorUpdates) > 0 {
		c.sum.Count("validator_updates", fmt.Sprintf("%d", len(ref.ValidatorUpdates)))
	} else {
		c.sum.Count("validator_updates", "0")
	}
	epochChanged := false
	for _, e := range ref.BeginEvents {
		for _, a := range e.Attrs {
			if a[0] == "epoch" {
				epochChanged = true
			}
		}
	}
	if epochChanged {
		c.sum.Count("epoch_transition", "yes")
	} else {
		c.sum.Count("epoch_transition", "no")
	}
	if len(cand) > 0 || len(mis) > 0 || epochChanged || (desc.Votes != "all" && h > g.Doc.Height) {
		c.distinct++
	}
	c.sum.Sample(map[string]any{"seed": c.seed, "height": h, "proposer": p, "paths": desc.Paths, "tx_kinds": desc.TxKinds,
		"votes": desc.Votes, "evidence": desc.Evidence, "app_hash": hx(ref.AppHash), "validator_updates": len(ref.ValidatorUpdates)}, 4)
	c.chain.Applied(ref)

	// every few blocks compare the full state dumps as well
	if b%4 == 3 {
		if v := c.compareDumps(h, "after height"); v != nil {
			v.Case.Block = desc
			return v
		}
	}
	return nil
}

func diffResults(a, b *muxdrv.BlockResult) string {
	if !bytes.Equal(a.AppHash, b.AppHash) {
		return fmt.Sprintf("AppHash %x vs %x", a.AppHash, b.AppHash)
	}
	if len(a.TxResults) != len(b.TxResults) {
		return fmt.Sprintf("number of tx results %d vs %d", len(a.TxResults), len(b.TxResults))
	}
	for i := range a.TxResults {
		x, y := a.TxResults[i], b.TxResults[i]
		if x.Code != y.Code || x.Codespace != y.Codespace || !bytes.Equal(x.Data, y.Data) || x.GasUsed != y.GasUsed {
			return fmt.Sprintf("tx %d result (code %d/%s data %x gas %d) vs (code %d/%s data %x gas %d)", i,
				x.Code, x.Codespace, x.Data, x.GasUsed, y.Code, y.Codespace, y.Data, y.GasUsed)
		}
		ex, _ := json.Marshal(x.Events)
		ey, _ := json.Marshal(y.Events)
		if !bytes.Equal(ex, ey) {
			return fmt.Sprintf("tx %d events %s vs %s", i, ex, ey)
		}
	}
	va, _ := json.Marshal(a.ValidatorUpdates)
	vb, _ := json.Marshal(b.ValidatorUpdates)
	if !bytes.Equal(va, vb) {
		return fmt.Sprintf("validator updates %s vs %s", va, vb)
	}
	if !bytes.Equal(a.MetaTx, b.MetaTx) {
		return fmt.Sprintf("block metadata body %x vs %x", a.MetaTx, b.MetaTx)
	}
	ea, _ := json.Marshal([]any{a.BeginEvents, a.EndEvents})
	eb, _ := json.Marshal([]any{b.BeginEvents, b.EndEvents})
	if !bytes.Equal(ea, eb) {
		return fmt.Sprintf("begin/end block events %s vs %s", ea, eb)
	}
	return ""
}

func (c *c01Run) compareDumps(h int64, when string) *violation {
	var ref []muxdrv.KV
	var refS []byte
	for i, rp := range c.reps {
		kv, err := muxdrv.DumpState(rp, 0)
		if err != nil {
			if h == 0 && when == "after InitChain" {
				return nil // nothing committed yet: state is not queryable before the first block
			}
			return c.fail("state dump failed on "+rp.Cfg.Name+": "+err.Error(), h, i, nil, nil)
		}
		sd, err := muxdrv.DumpStaking(rp, 0)
		if err != nil {
			return c.fail("staking dump failed on "+rp.Cfg.Name+": "+err.Error(), h, i, nil, nil)
		}
		sb, _ := json.Marshal(sd)
		if i == 0 {
			ref, refS = kv, sb
			continue
		}
		if d := muxdrv.DiffKV(ref, kv, 12); len(d) > 0 {
			return c.fail(fmt.Sprintf("full state dumps of %s and %s differ %s %d", c.reps[0].Cfg.Name, rp.Cfg.Name, when, h), h, i, nil, d)
		}
		if !bytes.Equal(refS, sb) {
			return c.fail(fmt.Sprintf("typed staking dumps of %s and %s differ %s %d", c.reps[0].Cfg.Name, rp.Cfg.Name, when, h), h, i, nil, nil)
		}
	}
	if err := c.twinDumps(); err != nil {
		return c.fail(err.Error(), h, -1, nil, nil)
	}
	c.sum.Count("state_dump_compared", "equal")
	return nil
}

func (c *c01Run) fail(what string, h int64, rep int, desc *blkDesc, detail []string) *violation {
	cs := c.theCase()
	cs.Height = h
	if h > 0 {
		cs.Blocks = int(h) // shrink: the prefix up to the failing height reproduces it
	}
	if rep >= 0 && rep < len(c.reps) {
		cs.Replica = c.reps[rep].Cfg.Name
	}
	cs.Block = desc
	return &violation{What: what, Case: cs, Detail: detail}
}

// decisionCase records what the real proposal cache decides for the incoming block,
// together with a snapshot of the cache, as a case for the Coq model.
func (c *c01Run) decisionCase(rp *muxdrv.Replica, kind string, in *muxdrv.BlockInput, list [][]byte, desc *blkDesc, rep int) {
	snap := rp.Srv.VerifProposal()
	cached := "None"
	if snap.Present {
		hdr := "None"
		if snap.Header != nil {
			hdr = "(Some " + coqHeader(snap.Header) + ")"
		}
		cached = fmt.Sprintf("(Some (mkProposal %s %s %s %s %s))", hdr, coqTxs(snap.Txs), coqMisb(snap.Misbehavior), coqout.Bytes(snap.Hash), coqout.Bool(snap.Executed))
	}
	hash := in.Hash
	if hash == nil {
		hash = muxdrv.BlockHash(in, list)
	}
	cs := c.theCase()
	cs.Index, cs.Kind, cs.Replica, cs.Height = c.caseIdx, kind, rp.Cfg.Name, in.Height
	c.caseIdx++
	var term string
	var got bool
	switch kind {
	case "process":
		hd := cmtproto.Header{Height: in.Height, Time: in.Time, ProposerAddress: in.Proposer}
		got = rp.Srv.VerifProcessProposalWouldReuse(&hd, list, in.Misbehavior)
		term = fmt.Sprintf("(CProcess %s %s %s %s, OBool %s)", cached, coqHeader(&hd), coqTxs(list), coqMisb(in.Misbehavior), coqout.Bool(got))
	default:
		got = rp.Srv.VerifBeginBlockWouldReuse(hash)
		term = fmt.Sprintf("(CBegin %s %s, OBool %s)", cached, coqout.Bytes(hash), coqout.Bool(got))
	}
	c.w.Add(term, cs)
	c.sum.Count("case_kind", fmt.Sprintf("%s-decision:%v", kind, got))
	c.sum.Count("cache_state", fmt.Sprintf("present=%v executed=%v", snap.Present, snap.Executed))
}

// ---------- background load: must not influence anything ----------

func (c *c01Run) background(i int, stop chan struct{}, wg *sync.WaitGroup) {
	defer wg.Done()
	r := prng.New(c.seed*977 + uint64(i))
	rp := c.reps[i]
	for {
		select {
		case <-stop:
			return
		default:
		}
		switch r.Intn(5) {
		case 0, 1:
			c.poolMu.Lock()
			var tx []byte
			if len(c.txPool) > 0 {
				tx = c.txPool[r.Intn(len(c.txPool))]
			}
			c.poolMu.Unlock()
			if tx != nil {
				if r.Chance(20) {
					tx = muxdrv.FlipBit(tx, r.Intn(8*len(tx)))
				}
				if _, err := rp.CheckTx(tx, r.Chance(30)); err != nil {
					atomic.AddInt64(&c.bgErrs, 1)
				}
			}
		case 2:
			a := c.g.Accounts[r.Intn(len(c.g.Accounts))]
			_, _ = rp.EstimateGas(a.Key.Public(), muxdrv.TxTransfer(0, nil, c.g.Accounts[0].Address, 100))
			_, _ = rp.EstimateGas(a.Key.Public(), muxdrv.TxAddEscrow(0, nil, c.g.Validators[0].EntityAddress(), 100))
		case 3:
			lh := rp.LastHeight()
			if lh > 0 {
				_, _ = muxdrv.DumpStaking(rp, 1+int64(r.Intn(int(lh))))
			}
		default:
			lh := rp.LastHeight()
			if lh > 0 {
				_, _ = rp.Account(1+int64(r.Intn(int(lh))), c.g.Accounts[r.Intn(len(c.g.Accounts))].Address)
				_, _ = rp.CurrentValidators(0)
			}
		}
		atomic.AddInt64(&c.bgOps, 1)
		time.Sleep(time.Duration(50+r.Intn(300)) * time.Microsecond)
	}
}

// ---------- entry point ----------

func init() {
	// C01_DEADLINE_MS overrides the per-operation watchdog budget (testing the watchdog itself)
	if v := os.Getenv("C01_DEADLINE_MS"); v != "" {
		var ms int
		if _, err := fmt.Sscan(v, &ms); err == nil && ms > 0 {
			callDeadline = time.Duration(ms) * time.Millisecond
		}
	}
}

func c01Main(seed uint64, out string, blocks, runs int, replay string, noBg bool, tieRuns, tieBlocks, procRuns, rtRuns, upgRuns, govRuns, faultRuns int) {
	sum := coqout.NewSummary("one evaluation = one block executed by one replica and compared; distinct_nontrivial = number of distinct (history, height) blocks that carry at least one user transaction, evidence, a non-unanimous vote pattern or an epoch transition (each executed on 4 replicas/paths)")
	w := coqout.NewWriter(out, c01Header, "run_case", "coutput_eqb", 60)
	var cases []c01Case
	if replay != "" {
		b, err := os.ReadFile(replay)
		if err != nil {
			fmt.Println("cannot read replay file:", err)
			os.Exit(2)
		}
		var cs c01Case
		var wrapped struct {
			Case *c01Case `json:"case"`
		}
		if err := json.Unmarshal(b, &wrapped); err == nil && wrapped.Case != nil && wrapped.Case.Blocks > 0 {
			cs = *wrapped.Case
		} else if err := json.Unmarshal(b, &cs); err != nil || cs.Blocks == 0 {
			fmt.Println("bad replay file")
			os.Exit(2)
		}
		cs.Height, cs.Replica, cs.Block, cs.Index, cs.Kind = 0, "", nil, 0, ""
		cases = append(cases, cs)
	} else {
		for i := 0; i < runs; i++ {
			cases = append(cases, c01Case{Seed: seed*1000 + uint64(i), Blocks: blocks, NoBackground: noBg, Procs: i < procRuns, Runtimes: i >= runs-rtRuns, Upgrade: i < upgRuns})
		}
		for i := 0; i < faultRuns; i++ {
			cases = append(cases, c01Case{Seed: seed*1000 + 800 + uint64(i), Blocks: blocks, NoBackground: noBg, Faults: true})
		}
		for i := 0; i < govRuns; i++ {
			cases = append(cases, c01Case{Seed: seed*1000 + 700 + uint64(i), Blocks: 12, NoBackground: noBg, GovUpgrade: true})
		}
		for i := 0; i < tieRuns; i++ {
			cases = append(cases, c01Case{Seed: seed*1000 + 500 + uint64(i), Blocks: tieBlocks, NoBackground: noBg, Tie: true, Procs: i < procRuns})
		}
	}
	for _, cs := range cases {
		run := &c01Run{seed: cs.Seed, blocks: cs.Blocks, bg: !cs.NoBackground, tie: cs.Tie, procs: cs.Procs, rts: cs.Runtimes, upg: cs.Upgrade, gov: cs.GovUpgrade, faults: cs.Faults, sum: sum, w: w}
		if cs.Faults {
			sum.Count("history_variant", "with-injected-faults")
		}
		if cs.GovUpgrade {
			sum.Count("history_variant", "with-governance-upgrade-proposal")
		}
		if cs.Upgrade {
			sum.Count("history_variant", "with-consensus-upgrade")
		}
		if cs.Runtimes {
			sum.Count("history_variant", "with-two-runtimes")
		}
		if cs.Procs {
			sum.Count("history_variant", "with-process-separated-twins")
		}
		if cs.Tie {
			sum.Count("history_variant", "election-tie")
		} else {
			sum.Count("history_variant", "standard")
		}
		v := run.run()
		sum.Evaluations += run.evals
		sum.DistinctNontrivial += run.distinct
		if v != nil {
			sum.Violations = append(sum.Violations, v)
			if anyBlocked.Load() {
				sum.Count("watchdog", "blocked call reported")
			}
			fmt.Printf("VIOLATION-CANDIDATE seed=%d height=%d: %s\n", cs.Seed, v.Case.Height, v.What)
			for _, d := range v.Detail {
				fmt.Println("   ", d)
			}
		}
		if anyBlocked.Load() {
			break // goroutines of the blocked replica are still around: report and leave
		}
	}
	if replay == "" && procRuns > 0 && !anyBlocked.Load() {
		debugFlagProbe(seed*1000+900, sum)
	}
	keys := make([]string, 0)
	for k := range sum.Histograms {
		keys = append(keys, k)
	}
	sort.Strings(keys)
	w.Close()
	sum.Write(out)
	fmt.Printf("c01: %d replica-block executions, %d nontrivial blocks, %d correspondence cases, %d violations\n", sum.Evaluations, sum.DistinctNontrivial, w.Total, len(sum.Violations))
	if anyBlocked.Load() {
		os.Exit(0) // do not wait for the blocked goroutines
	}
}
