package main

// Process-separated replicas for C01. Every in-process replica of a history gets a
// TWIN in its own OS process (a re-exec of this binary in "-mode replica"), which is
// sent exactly the same sequence of operations (propose / process / replay / restart
// with the same inputs) over a JSON line protocol on stdin/stdout. The twin's results
// must be byte-identical to the local replica's, so the four twins - four processes
// with their own Go map seeds, allocator state and goroutine scheduling, each with its
// own background CheckTx/EstimateGas/query load - agree with each other on every path.

import (
	"bufio"
	"bytes"
	"crypto/sha256"
	"encoding/hex"
	"encoding/json"
	"fmt"
	"io"
	"os"
	"os/exec"
	"sync"
	"sync/atomic"
	"time"

	"github.com/cometbft/cometbft/abci/types"
	"github.com/spf13/viper"

	cmdFlags "github.com/oasisprotocol/oasis-core/go/oasis-node/cmd/common/flags"

	"verifharness/internal/coqout"
	"verifharness/internal/muxdrv"
)

type wireVote struct {
	Addr   []byte `json:"a"`
	Power  int64  `json:"p"`
	Signed bool   `json:"s"`
}

type wireMisb struct {
	Type   int32  `json:"t"`
	Addr   []byte `json:"a"`
	Power  int64  `json:"p"`
	Height int64  `json:"h"`
	TimeNs int64  `json:"ns"`
	Total  int64  `json:"tot"`
}

type wireIn struct {
	Height   int64      `json:"height"`
	TimeNs   int64      `json:"time_ns"`
	Proposer []byte     `json:"proposer"`
	Round    int32      `json:"round"`
	Votes    []wireVote `json:"votes"`
	Misb     []wireMisb `json:"misb"`
	Hash     []byte     `json:"hash"`
}

type wireReq struct {
	Op      string   `json:"op"` // propose | process | replay | restart | dump | quit
	In      *wireIn  `json:"in,omitempty"`
	Txs     [][]byte `json:"txs,omitempty"`
	NewCfg  bool     `json:"new_cfg,omitempty"`
	MinGas  uint64   `json:"min_gas,omitempty"`
	KeepN   uint64   `json:"keep_n,omitempty"`
}

type wireResp struct {
	Err     string               `json:"err,omitempty"`
	Txs     [][]byte             `json:"txs,omitempty"`
	Res     *muxdrv.BlockResult  `json:"res,omitempty"`
	KVHash  string               `json:"kv_hash,omitempty"`
	StkHash string               `json:"stk_hash,omitempty"`
	BgOps   int64                `json:"bg_ops,omitempty"`
	Pid     int                  `json:"pid,omitempty"`
}

func toWire(in *muxdrv.BlockInput) *wireIn {
	w := &wireIn{Height: in.Height, TimeNs: in.Time.UnixNano(), Proposer: in.Proposer, Round: in.LastCommit.Round, Hash: in.Hash}
	for _, v := range in.LastCommit.Votes {
		w.Votes = append(w.Votes, wireVote{v.Validator.Address, v.Validator.Power, v.SignedLastBlock})
	}
	for _, m := range in.Misbehavior {
		w.Misb = append(w.Misb, wireMisb{int32(m.Type), m.Validator.Address, m.Validator.Power, m.Height, m.Time.UnixNano(), m.TotalVotingPower})
	}
	return w
}

func fromWire(w *wireIn) *muxdrv.BlockInput {
	in := &muxdrv.BlockInput{Height: w.Height, Time: time.Unix(0, w.TimeNs).UTC(), Proposer: w.Proposer, Hash: w.Hash}
	in.LastCommit.Round = w.Round
	for _, v := range w.Votes {
		in.LastCommit.Votes = append(in.LastCommit.Votes, types.VoteInfo{Validator: types.Validator{Address: v.Addr, Power: v.Power}, SignedLastBlock: v.Signed})
	}
	for _, m := range w.Misb {
		in.Misbehavior = append(in.Misbehavior, types.Misbehavior{Type: types.MisbehaviorType(m.Type),
			Validator: types.Validator{Address: m.Addr, Power: m.Power}, Height: m.Height, Time: time.Unix(0, m.TimeNs).UTC(), TotalVotingPower: m.Total})
	}
	return in
}

func dumpHashes(r *muxdrv.Replica) (string, string, error) {
	kv, err := muxdrv.DumpState(r, 0)
	if err != nil {
		return "", "", err
	}
	sd, err := muxdrv.DumpStaking(r, 0)
	if err != nil {
		return "", "", err
	}
	a, _ := json.Marshal(kv)
	b, _ := json.Marshal(sd)
	ha, hb := sha256.Sum256(a), sha256.Sum256(b)
	return hex.EncodeToString(ha[:]), hex.EncodeToString(hb[:]), nil
}

// ---------- parent side ----------

type twin struct {
	name string
	cmd  *exec.Cmd
	enc  *json.Encoder
	dec  *json.Decoder
	in   io.WriteCloser
	pid  int
	bg   int64
}

func startTwin(seed uint64, tie, rts, upg bool, idx int, bg bool, name string, extra ...string) (*twin, error) {
	exe, err := os.Executable()
	if err != nil {
		return nil, err
	}
	args := []string{"-mode", "replica", "-seed", fmt.Sprint(seed), "-idx", fmt.Sprint(idx)}
	if tie {
		args = append(args, "-tie")
	}
	if rts {
		args = append(args, "-runtimes")
	}
	if upg {
		args = append(args, "-upgrade")
	}
	if !bg {
		args = append(args, "-nobg")
	}
	args = append(args, extra...)
	cmd := exec.Command(exe, args...)
	cmd.Stderr = os.Stderr
	stdin, err := cmd.StdinPipe()
	if err != nil {
		return nil, err
	}
	stdout, err := cmd.StdoutPipe()
	if err != nil {
		return nil, err
	}
	if err := cmd.Start(); err != nil {
		return nil, err
	}
	t := &twin{name: name + "@proc", cmd: cmd, enc: json.NewEncoder(stdin), dec: json.NewDecoder(bufio.NewReaderSize(stdout, 1<<20)), in: stdin}
	var hello wireResp
	if err := t.dec.Decode(&hello); err != nil {
		_ = cmd.Process.Kill()
		return nil, fmt.Errorf("twin %s did not start: %w", name, err)
	}
	if hello.Err != "" {
		_ = cmd.Process.Kill()
		return nil, fmt.Errorf("twin %s failed to boot: %s", name, hello.Err)
	}
	t.pid = hello.Pid
	return t, nil
}

func (t *twin) call(req *wireReq) (*wireResp, error) {
	var resp wireResp
	var rerr error
	berr := withDeadline("process-separated "+t.name+" "+req.Op, func() string { return req.Op }, func() {
		if err := t.enc.Encode(req); err != nil {
			rerr = fmt.Errorf("twin %s: write: %w", t.name, err)
			return
		}
		if err := t.dec.Decode(&resp); err != nil {
			rerr = fmt.Errorf("twin %s: process died or protocol error: %w", t.name, err)
		}
	})
	if berr != nil {
		if t.cmd != nil && t.cmd.Process != nil {
			_ = t.cmd.Process.Kill()
		}
		return nil, berr
	}
	if rerr != nil {
		return nil, rerr
	}
	return &resp, nil
}

// ---------- watchdog ----------

// callDeadline is the budget of one replica operation (one Prepare/ProcessProposal, one
// BeginBlock..Commit sequence, one restart); a blown deadline is confirmed once with a doubled
// budget before it is reported.
var callDeadline = 60 * time.Second

// blockedError reports an operation that did not return.
type blockedError struct {
	Who  string
	Call string
	Wait time.Duration
}

func (e *blockedError) Error() string {
	return fmt.Sprintf("%s is blocked in %s (no return after %s)", e.Who, e.Call, e.Wait.Round(time.Second))
}

var anyBlocked atomic.Bool

// withDeadline runs f in a goroutine; nil if it returned in time.
func withDeadline(who string, current func() string, f func()) error {
	done := make(chan struct{})
	go func() {
		defer close(done)
		f()
	}()
	select {
	case <-done:
		return nil
	case <-time.After(callDeadline):
	}
	call := current()
	select {
	case <-done: // slow, not blocked
		return nil
	case <-time.After(2 * callDeadline):
	}
	anyBlocked.Store(true)
	if c2 := current(); c2 != "" {
		call = c2
	}
	return &blockedError{Who: who, Call: call, Wait: 3 * callDeadline}
}

func (t *twin) close() {
	if t == nil || t.cmd == nil {
		return
	}
	if r, err := t.call(&wireReq{Op: "quit"}); err == nil {
		t.bg = r.BgOps
	}
	_ = t.in.Close()
	done := make(chan struct{})
	go func() { _ = t.cmd.Wait(); close(done) }()
	select {
	case <-done:
	case <-time.After(10 * time.Second):
		_ = t.cmd.Process.Kill()
	}
	t.cmd = nil
}

// The wrappers below run an operation on the local replica and, when the history is
// process-separated, on its twin; a disagreement is returned as an error (=> violation).

func txListsEqual(a, b [][]byte) bool {
	if len(a) != len(b) {
		return false
	}
	for i := range a {
		if !bytes.Equal(a[i], b[i]) {
			return false
		}
	}
	return true
}

func (c *c01Run) propose(i int, in *muxdrv.BlockInput, cands [][]byte) ([][]byte, error) {
	var txs [][]byte
	var err error
	if berr := withDeadline("replica "+c.reps[i].Cfg.Name, c.reps[i].CurrentCall, func() { txs, err = c.reps[i].Propose(in, cands) }); berr != nil {
		return nil, berr
	}
	if err != nil || c.twins == nil {
		return txs, err
	}
	r, terr := c.twins[i].call(&wireReq{Op: "propose", In: toWire(in), Txs: cands})
	if terr != nil {
		return txs, terr
	}
	if r.Err != "" {
		return txs, fmt.Errorf("process-separated %s failed in PrepareProposal: %s", c.twins[i].name, r.Err)
	}
	if !txListsEqual(txs, r.Txs) {
		return txs, fmt.Errorf("process-separated %s (pid %d) prepared a different proposal than the in-process replica: metadata %x vs %x",
			c.twins[i].name, c.twins[i].pid, muxdrv.MetaBody(r.Txs), muxdrv.MetaBody(txs))
	}
	c.sum.Count("process_separated_ops", "propose")
	return txs, nil
}

func (c *c01Run) execOn(i int, op string, in *muxdrv.BlockInput, txs [][]byte) (*muxdrv.BlockResult, error) {
	var res *muxdrv.BlockResult
	var err error
	if berr := withDeadline("replica "+c.reps[i].Cfg.Name, c.reps[i].CurrentCall, func() {
		if op == "process" {
			res, err = c.reps[i].Process(in, txs)
		} else {
			res, err = c.reps[i].Replay(in, txs)
		}
	}); berr != nil {
		return nil, berr
	}
	if err != nil || c.twins == nil {
		return res, err
	}
	r, terr := c.twins[i].call(&wireReq{Op: op, In: toWire(in), Txs: txs})
	if terr != nil {
		return res, terr
	}
	if r.Err != "" || r.Res == nil {
		return res, fmt.Errorf("process-separated %s failed in %s: %s", c.twins[i].name, op, r.Err)
	}
	if d := diffResults(res, r.Res); d != "" {
		return res, fmt.Errorf("process-separated %s (pid %d) disagrees with the in-process replica at height %d: %s", c.twins[i].name, c.twins[i].pid, in.Height, d)
	}
	c.sum.Count("process_separated_ops", op)
	c.evals++ // the twin's execution was compared as well
	return res, nil
}

func (c *c01Run) restart(i int, ncfg *muxdrv.ReplicaConfig) error {
	var rerr error
	if berr := withDeadline("replica "+c.reps[i].Cfg.Name, func() string { return "Restart" }, func() { rerr = c.reps[i].Restart(ncfg) }); berr != nil {
		return berr
	}
	if rerr != nil {
		return rerr
	}
	if c.twins == nil {
		return nil
	}
	req := &wireReq{Op: "restart"}
	if ncfg != nil {
		req.NewCfg, req.MinGas, req.KeepN = true, ncfg.MinGasPrice, ncfg.PruneKeepN
	}
	r, terr := c.twins[i].call(req)
	if terr != nil {
		return terr
	}
	if r.Err != "" {
		return fmt.Errorf("process-separated %s failed to restart: %s", c.twins[i].name, r.Err)
	}
	c.sum.Count("process_separated_ops", "restart")
	return nil
}

// twinDumps compares the twins' full-state and staking dump digests with the local ones.
func (c *c01Run) twinDumps() error {
	if c.twins == nil {
		return nil
	}
	for i, t := range c.twins {
		ka, sa, err := dumpHashes(c.reps[i])
		if err != nil {
			return nil // nothing committed yet
		}
		r, terr := t.call(&wireReq{Op: "dump"})
		if terr != nil {
			return terr
		}
		if r.Err != "" {
			return fmt.Errorf("process-separated %s: dump failed: %s", t.name, r.Err)
		}
		if r.KVHash != ka || r.StkHash != sa {
			return fmt.Errorf("process-separated %s (pid %d): full state dump digest differs from the in-process replica (kv %s vs %s, staking %s vs %s)",
				t.name, t.pid, r.KVHash[:12], ka[:12], r.StkHash[:12], sa[:12])
		}
	}
	c.sum.Count("process_separated_ops", "dump-compared")
	return nil
}

// ---------- child side ----------

func replicaMain(seed uint64, tie, rts, upg bool, idx int, bg bool, noDebugFlag bool) {
	out := json.NewEncoder(os.Stdout)
	dec := json.NewDecoder(bufio.NewReaderSize(os.Stdin, 1<<20))
	c := &c01Run{seed: seed, tie: tie, upg: upg, bg: bg, sum: coqout.NewSummary("child")}
	gopts := c01GenesisOpts(seed, tie)
	if rts {
		gopts.EpochInterval = 3
	}
	g, err := muxdrv.NewGenesis(seed, gopts)
	if err != nil {
		_ = out.Encode(&wireResp{Err: "genesis: " + err.Error()})
		return
	}
	c.g = g
	if noDebugFlag {
		// run this replica WITHOUT the process-wide unsafe debug flag (debug.dont_blame_oasis)
		viper.Set(cmdFlags.CfgDebugDontBlameOasis, false)
	}
	cfg := c.configs()[idx]
	rp, err := muxdrv.NewReplica(g, cfg)
	if err != nil {
		_ = out.Encode(&wireResp{Err: "boot: " + err.Error()})
		return
	}
	defer rp.Close()
	c.reps = []*muxdrv.Replica{rp}
	_ = out.Encode(&wireResp{Pid: os.Getpid()})

	stop := make(chan struct{})
	var wg sync.WaitGroup
	if bg {
		wg.Add(1)
		go c.background(0, stop, &wg)
	}
	note := func(txs [][]byte) {
		c.poolMu.Lock()
		c.txPool = append(c.txPool, txs...)
		if len(c.txPool) > 64 {
			c.txPool = c.txPool[len(c.txPool)-64:]
		}
		c.poolMu.Unlock()
	}
	for {
		var req wireReq
		if err := dec.Decode(&req); err != nil {
			break
		}
		var resp wireResp
		switch req.Op {
		case "propose":
			note(req.Txs)
			txs, err := rp.Propose(fromWire(req.In), req.Txs)
			if err != nil {
				resp.Err = err.Error()
			}
			resp.Txs = txs
		case "process", "replay":
			var res *muxdrv.BlockResult
			var err error
			if req.Op == "process" {
				res, err = rp.Process(fromWire(req.In), req.Txs)
			} else {
				res, err = rp.Replay(fromWire(req.In), req.Txs)
			}
			if err != nil {
				resp.Err = err.Error()
			}
			resp.Res = res
		case "restart":
			var ncfg *muxdrv.ReplicaConfig
			if req.NewCfg {
				n := rp.Cfg
				n.MinGasPrice, n.PruneKeepN = req.MinGas, req.KeepN
				ncfg = &n
			}
			if err := rp.Restart(ncfg); err != nil {
				resp.Err = err.Error()
			}
		case "dump":
			a, b, err := dumpHashes(rp)
			if err != nil {
				resp.Err = err.Error()
			}
			resp.KVHash, resp.StkHash = a, b
		case "quit":
			close(stop)
			wg.Wait()
			resp.BgOps = c.bgOps
			_ = out.Encode(&resp)
			return
		default:
			resp.Err = "unknown op " + req.Op
		}
		_ = out.Encode(&resp)
	}
	close(stop)
	wg.Wait()
}

// debugFlagProbe documents, on the real code, what the class UnsafeDebugFlag of the site
// enumeration means: the SAME block is executed by a replica running with the process-wide
// unsafe flag debug.dont_blame_oasis (this process) and by one running without it (a child
// process). The block registers a runtime whose storage checkpoint interval is below the
// production minimum; registry/api/runtime.go StorageParameters.ValidateBasic skips that
// check when the flag is set. Informational only (the flag must never be set in production);
// recorded in summary.extra.debug_flag_probe.
func debugFlagProbe(seed uint64, sum *coqout.Summary) {
	g, err := muxdrv.NewGenesis(seed, c01GenesisOpts(seed, false))
	if err != nil {
		return
	}
	c := &c01Run{seed: seed, g: g, sum: coqout.NewSummary("probe")}
	cfg := c.configs()[0]
	rp, err := muxdrv.NewReplica(g, cfg)
	if err != nil {
		return
	}
	defer rp.Close()
	tw, err := startTwin(seed, false, false, false, 0, false, cfg.Name, "-nodebugflag")
	if err != nil {
		sum.Extra["debug_flag_probe"] = "child without the flag did not boot: " + err.Error()
		return
	}
	defer tw.close()
	v0 := g.Validators[0]
	rt := muxdrv.RuntimeDescriptor(muxdrv.RuntimeID(seed, "probe"), v0.Entity.Public())
	rt.Storage.CheckpointInterval, rt.Storage.CheckpointNumKept, rt.Storage.CheckpointChunkSize = 5, 1, 1024
	tx := muxdrv.Sign(v0.Entity, muxdrv.TxRegisterRuntime(0, muxdrv.Fee(10, 4*muxdrv.DefaultGas), rt))
	chain := muxdrv.NewChain(g)
	in := chain.NewBlock(v0.ConsAddr, muxdrv.VotesAll, nil)
	list, err := rp.Propose(in, [][]byte{tx})
	if err != nil || len(list) == 0 {
		return
	}
	res, err := rp.Process(in, list)
	if err != nil {
		return
	}
	out := map[string]any{"tx": "registry.RegisterRuntime with storage checkpoint_interval=5",
		"with_flag": fmt.Sprintf("code %d %s, app hash %s", res.TxResults[0].Code, res.TxResults[0].Log, hex.EncodeToString(res.AppHash)[:16])}
	r, terr := tw.call(&wireReq{Op: "replay", In: toWire(in), Txs: list})
	switch {
	case terr != nil:
		out["without_flag"] = "child failed: " + terr.Error()
	case r.Err != "":
		e := r.Err
		if len(e) > 200 {
			e = e[:200]
		}
		out["without_flag"] = "rejects the block: " + e
	default:
		out["without_flag"] = fmt.Sprintf("code %d %s, app hash %s", r.Res.TxResults[0].Code, r.Res.TxResults[0].Log, hex.EncodeToString(r.Res.AppHash)[:16])
	}
	sum.Extra["debug_flag_probe"] = out
}
