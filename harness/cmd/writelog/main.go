// Command writelog checks C13 on the real storage stack.
//
// A scenario owns two real local storage backends (go/storage/database over
// badger or pathbadger, temp directories).  In the first one a chain of roots
// is produced by committing generated batches through the real MKVS tree; for
// every pair of consecutive roots the write log served by the backend
// (GetDiff = NodeDB.GetWriteLog) is recorded, together with the contents at
// both roots read back through the tree iterator.  The second backend follows
// through LocalBackend.Apply (storage/api root cache = ApplyWriteLog +
// CommitKnown): first with corrupted variants of the served log, then with the
// served log itself.
//
// K: every pair becomes a Coq case for Verif.WriteLog.Model.run_case.
// S: an independent Go reference on maps (no Coq) judges the property itself.
package main

import (
	"bytes"
	"context"
	"encoding/binary"
	"encoding/hex"
	"encoding/json"
	"errors"
	"flag"
	"fmt"
	"os"
	"path/filepath"
	"sort"
	"strings"

	"github.com/oasisprotocol/oasis-core/go/common"
	"github.com/oasisprotocol/oasis-core/go/common/crypto/hash"
	"github.com/oasisprotocol/oasis-core/go/storage/api"
	"github.com/oasisprotocol/oasis-core/go/storage/database"
	"github.com/oasisprotocol/oasis-core/go/storage/mkvs"
	nodedb "github.com/oasisprotocol/oasis-core/go/storage/mkvs/db/api"
	"github.com/oasisprotocol/oasis-core/go/storage/mkvs/db/pathbadger"
	"github.com/oasisprotocol/oasis-core/go/storage/mkvs/node"
	"github.com/oasisprotocol/oasis-core/go/storage/mkvs/writelog"

	"verifharness/internal/coqout"
	"verifharness/internal/prng"
)

// ---------- case description (replayable) ----------

type Op struct {
	K string `json:"k"`           // "ins" | "rem"
	Key string `json:"key"`       // hex
	Val string `json:"val,omitempty"` // hex
}

// Version is one database version: one batch (state roots, and most IO roots)
// or two chained batches inside the same version (IO: empty -> i -> io).
type Version struct {
	Batches [][]Op `json:"batches"`
	// Fork: the batches are competing candidates committed from the same parent root in this
	// version (instead of a chain); candidate Pick (mod their number) is finalized.
	Fork bool `json:"fork,omitempty"`
	Pick int  `json:"pick,omitempty"`
	// Parents (fork versions): where candidate j starts: 0 = the root the version starts from,
	// i > 0 = candidate i-1 of this same version (committed earlier). Missing = all 0.
	Parents []int `json:"parents,omitempty"`
	// Reject (chain versions, first batch): after RejectAt operations the SAME tree object is
	// committed in a way the node database rejects ("finalized": into the previous, finalized
	// version; "nofollow": five versions ahead; "namespace": a foreign namespace); the remaining
	// operations follow and then the real commit.
	Reject   string `json:"reject,omitempty"`
	RejectAt int    `json:"reject_at,omitempty"`
}

type Scenario struct {
	noTwin bool // set on the twin run made to attribute a finding (not part of the description)
	// SeqBurn: the fixed pathbadger scenario around the uint16 sequence counter (runSeqBurn)
	SeqBurn bool `json:"seqburn,omitempty"`
	Backend  string    `json:"backend"`
	Backend2 string    `json:"backend2"`
	Type     string    `json:"type"` // "state" | "io"
	Seed     uint64    `json:"seed"` // corruption stream
	Versions []Version `json:"versions"`
}

type kv struct{ k, v []byte }

type entry struct {
	k   []byte
	v   []byte
	del bool
}

// ---------- independent reference on Go maps (S) ----------

func applyRef(old []kv, wl []entry) []kv {
	m := map[string][]byte{}
	for _, e := range old {
		m[string(e.k)] = e.v
	}
	for _, e := range wl {
		if e.del {
			delete(m, string(e.k))
		} else {
			m[string(e.k)] = e.v
		}
	}
	var out []kv
	for k, v := range m {
		out = append(out, kv{[]byte(k), v})
	}
	sort.Slice(out, func(i, j int) bool { return bytes.Compare(out[i].k, out[j].k) < 0 })
	return out
}

func kvEqual(a, b []kv) bool {
	if len(a) != len(b) {
		return false
	}
	for i := range a {
		if !bytes.Equal(a[i].k, b[i].k) || !bytes.Equal(a[i].v, b[i].v) {
			return false
		}
	}
	return true
}

// ---------- Coq rendering ----------

func coqKVs(m []kv) string {
	var s []string
	for _, e := range m {
		s = append(s, "("+coqout.Bytes(e.k)+", "+coqout.Bytes(e.v)+")")
	}
	return coqout.List(s)
}

func coqLog(wl []entry) string {
	var s []string
	for _, e := range wl {
		s = append(s, "("+coqout.Bytes(e.k)+", "+coqout.OptBytes(e.v, !e.del)+")")
	}
	return coqout.List(s)
}

func coqOps(ops []Op) string {
	var s []string
	for _, o := range ops {
		k, _ := hex.DecodeString(o.Key)
		v, _ := hex.DecodeString(o.Val)
		if o.K == "ins" {
			s = append(s, "OInsert "+coqout.Bytes(k)+" "+coqout.Bytes(v))
		} else {
			s = append(s, "ORemove "+coqout.Bytes(k))
		}
	}
	return coqout.List(s)
}

// coqHist renders the operations as a history with the rejected commit attempt at position at
// (at < 0: none).
func coqHist(ops []Op, at int) string {
	var s []string
	for i, o := range ops {
		if i == at {
			s = append(s, "HRejected")
		}
		k, _ := hex.DecodeString(o.Key)
		v, _ := hex.DecodeString(o.Val)
		if o.K == "ins" {
			s = append(s, "HOp (OInsert "+coqout.Bytes(k)+" "+coqout.Bytes(v)+")")
		} else {
			s = append(s, "HOp (ORemove "+coqout.Bytes(k)+")")
		}
	}
	if at >= len(ops) {
		s = append(s, "HRejected")
	}
	return coqout.List(s)
}

var badNs = common.NewTestNamespaceFromSeed([]byte("verif C13 writelog: some other namespace"), 0)

// ---------- the real thing ----------

var testNs = common.NewTestNamespaceFromSeed([]byte("verif C13 writelog"), 0)

type backend struct {
	impl api.LocalBackend
	dir  string
}

func openBackend(name string) (*backend, error) {
	dir, err := os.MkdirTemp("", "verif-c13-")
	if err != nil {
		return nil, err
	}
	cfg := api.Config{
		Backend:      name,
		DB:           filepath.Join(dir, database.DefaultFileName(name)),
		Namespace:    testNs,
		MaxCacheSize: 16 * 1024 * 1024,
		NoFsync:      true,
	}
	impl, err := database.New(&cfg)
	if err != nil {
		os.RemoveAll(dir)
		return nil, err
	}
	return &backend{impl: impl, dir: dir}, nil
}

func (b *backend) close() {
	b.impl.Cleanup()
	os.RemoveAll(b.dir)
}

func readContents(ctx context.Context, ndb nodedb.NodeDB, root node.Root) ([]kv, error) {
	t := mkvs.NewWithRoot(nil, ndb, root)
	defer t.Close()
	it := t.NewIterator(ctx)
	defer it.Close()
	var out []kv
	for it.Rewind(); it.Valid(); it.Next() {
		out = append(out, kv{append([]byte{}, it.Key()...), append([]byte{}, it.Value()...)})
	}
	return out, it.Err()
}

func foldLog(it writelog.Iterator) ([]entry, error) {
	var out []entry
	for {
		more, err := it.Next()
		if err != nil {
			return nil, err
		}
		if !more {
			return out, nil
		}
		e, err := it.Value()
		if err != nil {
			return nil, err
		}
		out = append(out, entry{k: e.Key, v: e.Value, del: e.Value == nil})
	}
}

func sortLog(wl []entry) []entry {
	out := append([]entry{}, wl...)
	sort.SliceStable(out, func(i, j int) bool { return bytes.Compare(out[i].k, out[j].k) < 0 })
	return out
}

func toAPILog(wl []entry) api.WriteLog {
	out := make(api.WriteLog, 0, len(wl))
	for _, e := range wl {
		if e.del {
			out = append(out, writelog.LogEntry{Key: e.k, Value: nil})
		} else {
			v := e.v
			if v == nil {
				v = []byte{}
			}
			out = append(out, writelog.LogEntry{Key: e.k, Value: v})
		}
	}
	return out
}

func logEqual(a, b []entry) bool {
	if len(a) != len(b) {
		return false
	}
	for i := range a {
		if !bytes.Equal(a[i].k, b[i].k) || a[i].del != b[i].del || !bytes.Equal(a[i].v, b[i].v) {
			return false
		}
	}
	return true
}

func applyClass(err error) string {
	switch {
	case err == nil:
		return "AOk"
	case errors.Is(err, api.ErrExpectedRootMismatch):
		return "AMismatch"
	case errors.Is(err, api.ErrRootMustFollowOld):
		return "AFollow"
	}
	return "AOther"
}

// an Apply attempt against the second backend
type attempt struct {
	kind    string
	wl      []entry
	dstVer  uint64
	dstHash hash.Hash
	dstKV   []kv // contents the destination hash stands for (model side)
	// through the storage worker's decision (worker.go:383-396, 1139-1172) instead of a bare Apply
	worker bool
	// a start root other than the pair's (missing-start attempts)
	otherSrc bool
	srcHash  hash.Hash
	srcKV    []kv
}

// lightMode: only the served log is applied on the second database (pathbadger log stream)
var lightMode bool

// storeMode: record the trace of calls on a pathbadger first database for PathStore.v
var storeMode bool

var keyPool = [][]byte{
	[]byte("a"), []byte("ab"), []byte("abc"), []byte("abd"), []byte("ac"), []byte("b"), []byte("ba"),
	[]byte("bb"), {0x61, 0x00}, {0x00}, {0xff}, {0x61, 0x62, 0x00}, []byte("c"), []byte("ca"),
	[]byte("abcd"), {0x61, 0x62, 0xff, 0x01},
}
var valPool = [][]byte{{}, []byte("x"), []byte("y"), []byte("zz"), bytes.Repeat([]byte("L"), 40)}

func otherVal(r *prng.R, v []byte) []byte {
	for {
		c := valPool[r.Intn(len(valPool))]
		if !bytes.Equal(c, v) {
			return c
		}
	}
}

func corruptions(r *prng.R, served []entry, old, new []kv, srcVer, dstVer uint64, srcHash, dstHash hash.Hash, sum func(string)) []attempt {
	var out []attempt
	mk := func(kind string, wl []entry) {
		out = append(out, attempt{kind: kind, wl: wl, dstVer: dstVer, dstHash: dstHash, dstKV: new})
		sum(kind)
	}
	clone := func() []entry { return append([]entry{}, served...) }
	n := len(served)
	inLog := map[string]bool{}
	for _, e := range served {
		inLog[string(e.k)] = true
	}
	if n > 0 {
		// dropped entry
		i := r.Intn(n)
		c := clone()
		mk("drop", append(c[:i], c[i+1:]...))
		// duplicated with a different value, before or after the original
		i = r.Intn(n)
		d := entry{k: served[i].k, v: otherVal(r, served[i].v)}
		if !served[i].del && r.Chance(25) {
			d = entry{k: served[i].k, del: true}
		}
		pos := r.Intn(n + 1)
		c = clone()
		c = append(c[:pos], append([]entry{d}, c[pos:]...)...)
		if pos <= i {
			mk("dup-before", c)
		} else {
			mk("dup-after", c)
		}
		// altered value / kind
		i = r.Intn(n)
		c = clone()
		if c[i].del {
			c[i] = entry{k: c[i].k, v: valPool[r.Intn(len(valPool))]}
			mk("alter-del-to-put", c)
		} else if r.Chance(30) {
			c[i] = entry{k: c[i].k, del: true}
			mk("alter-put-to-del", c)
		} else {
			c[i] = entry{k: c[i].k, v: otherVal(r, c[i].v)}
			mk("alter-value", c)
		}
		// altered key
		i = r.Intn(n)
		c = clone()
		nk := keyPool[r.Intn(len(keyPool))]
		if r.Chance(50) || bytes.Equal(nk, c[i].k) {
			nk = append(append([]byte{}, c[i].k...), 0x01)
		}
		c[i] = entry{k: nk, v: c[i].v, del: c[i].del}
		mk("alter-key", c)
		if n > 1 {
			mk("truncate", []entry{})
		}
	}
	// added entry
	{
		k := keyPool[r.Intn(len(keyPool))]
		for tries := 0; inLog[string(k)] && tries < 8; tries++ {
			k = keyPool[r.Intn(len(keyPool))]
		}
		if inLog[string(k)] {
			k = []byte("zzz")
		}
		e := entry{k: k, v: valPool[r.Intn(len(valPool))]}
		kind := "add-put"
		if r.Chance(30) {
			e = entry{k: k, del: true}
			kind = "add-del"
		}
		pos := r.Intn(n + 1)
		c := clone()
		c = append(c[:pos], append([]entry{e}, c[pos:]...)...)
		mk(kind, c)
	}
	// correct log, wrong announced root: the start root's hash at the new version, or the
	// root of the end contents plus one more binding
	if !srcHash.Equal(&dstHash) && !srcHash.IsEmpty() && r.Chance(50) {
		out = append(out, attempt{kind: "wrong-expected-start", wl: clone(), dstVer: dstVer, dstHash: srcHash, dstKV: old})
		sum("wrong-expected-start")
	} else {
		other := applyRef(new, []entry{{k: []byte("zzzz"), v: []byte("q")}})
		out = append(out, attempt{kind: "wrong-expected-other", wl: clone(), dstVer: dstVer, dstHash: hashOf(other), dstKV: other})
		sum("wrong-expected-other")
	}
	// a start root the applying database does not hold (contents of the real one plus a binding)
	if r.Chance(60) {
		ghost := applyRef(old, []entry{{k: []byte("zzzy"), v: []byte("g")}})
		wl := clone()
		kind := "missing-start"
		if r.Chance(35) {
			wl = []entry{}
			kind = "missing-start-empty-log"
		}
		out = append(out, attempt{kind: kind, wl: wl, dstVer: dstVer, dstHash: dstHash, dstKV: new,
			otherSrc: true, srcHash: hashOf(ghost), srcKV: ghost})
		sum(kind)
	}
	// announced root that does not follow the start root
	if r.Chance(50) {
		out = append(out, attempt{kind: "no-follow", wl: clone(), dstVer: srcVer + 2, dstHash: dstHash, dstKV: new})
		sum("no-follow")
	}
	// reordered (harmless): last before the served log itself
	if n > 1 {
		c := clone()
		for i := n - 1; i > 0; i-- {
			j := r.Intn(i + 1)
			c[i], c[j] = c[j], c[i]
		}
		if logEqual(c, served) {
			for i, j := 0, n-1; i < j; i, j = i+1, j-1 {
				c[i], c[j] = c[j], c[i]
			}
		}
		mk("reorder", c)
	}
	// an insertion equal to a binding that exists and is not touched by the log (harmless)
	for _, e := range old {
		if !inLog[string(e.k)] {
			pos := r.Intn(n + 1)
			c := clone()
			c = append(c[:pos], append([]entry{{k: e.k, v: e.v}}, c[pos:]...)...)
			mk("insert-equal-existing", c)
			break
		}
	}
	mk("served", clone())
	// about half of the attempts go through the storage worker's decision; afterwards the
	// worker is asked once more (it must skip: the root is there)
	for i := range out {
		if r.Chance(50) {
			out[i].worker = true
		}
	}
	// Attempts that the reference considers effective corruptions go first: an accepted
	// harmless variant stores the root, and every later Apply for it is bypassed
	// (root_cache.go:39).  The order is only a matter of test strength; the verdicts come
	// from the model (K) and from the oracle in runScenario (S).
	var bad, good []attempt
	for _, a := range out {
		follows := a.dstVer == srcVer || a.dstVer == srcVer+1
		if a.otherSrc || !follows || !kvEqual(applyRef(old, a.wl), a.dstKV) {
			bad = append(bad, a)
		} else {
			good = append(good, a)
		}
	}
	all := append(bad, good...)
	again := attempt{kind: "worker-again", wl: []entry{{k: []byte("junk"), v: []byte("j")}}, dstVer: dstVer, dstHash: dstHash, dstKV: new, worker: true}
	sum("worker-again")
	return append(all, again)
}

// attributeUnresolvable reads back the stored internal log of (start, end) and decides whether
// every reference that does not resolve is (1) the invalid pointer or (2) the root slot of an older
// version, AND belongs to a key that the storing batch only re-inserted with the value it had.
func attributeUnresolvable(clog []entry, ops []Op, oldKV []kv, start, end node.Root, ndb nodedb.NodeDB) (string, bool) {
	il, err := pathbadger.VerifInternalWriteLog(ndb, start, end)
	if err != nil || len(il.Entries) != len(clog) {
		return "", false
	}
	mechs := map[string]bool{}
	for i, e := range il.Entries {
		if e.Kind != 0x01 || e.Node.Found || (e.Version == end.Version && e.Index == 0) {
			continue
		}
		switch {
		case e.Version == ^uint64(0) && e.Index == ^uint32(0):
			mechs["invalid pointer of an embedded leaf"] = true
		case e.Index == 0 && e.Version < end.Version:
			mechs[fmt.Sprintf("root slot of version %d, end version %d", e.Version, end.Version)] = true
		default:
			return "", false
		}
		// the key of this entry: only same-value re-insertions in the storing batch
		k := clog[i].k
		var had []byte
		present := false
		for _, o := range oldKV {
			if bytes.Equal(o.k, k) {
				had, present = o.v, true
			}
		}
		if !present || clog[i].del || !bytes.Equal(clog[i].v, had) {
			return "", false
		}
		for _, o := range ops {
			if o.Key == hx(k) && !(o.K == "ins" && o.Val == hx(had)) {
				return "", false
			}
		}
	}
	if len(mechs) == 0 {
		return "", false
	}
	var names []string
	for m := range mechs {
		names = append(names, m)
	}
	sort.Strings(names)
	return strings.Join(names, " + "), true
}

// hashOf computes the root hash of given contents with an in-memory tree (nothing persisted).
func hashOf(m []kv) hash.Hash {
	ctx := context.Background()
	t := mkvs.New(nil, nil, node.RootTypeState)
	defer t.Close()
	for _, e := range m {
		if err := t.Insert(ctx, e.k, e.v); err != nil {
			panic(err)
		}
	}
	_, h, err := t.Commit(ctx, testNs, 0, mkvs.NoPersist())
	if err != nil {
		panic(err)
	}
	return h
}

type pairResult struct {
	store   bool // a case of the pathbadger storage stream (one trace per scenario)
	enc     bool // a case of the stored-log encoding stream
	pb      bool // a case of the pathbadger internal-log stream
	coq     string
	desc    map[string]any
	nontriv bool
	key     string
}

type finding struct {
	key, what string
}

const keyDiscardSharedNode = "C13:badger-finalize-discarding-a-candidate-deletes-node-shared-with-finalized-root"
const keyEmbeddedLeaf = "C13:pathbadger-unservable-log-after-same-value-insert-of-embedded-leaf"

type runResult struct {
	findings   []finding
	pairs      []pairResult
	violations []string // S
	hist       map[string]int
	panicked   bool
}

type storedRoot struct {
	ver  uint64
	kvs  []kv
	hash hash.Hash
}

// runSeqBurn: one version of a pathbadger database; root A is committed (sequence number 0,
// final node slots), then sequence numbers are burnt with abandoned batches (NewBatch + Reset,
// what every rejected Apply does) up to the uint16 bound, and competing roots B, C, D with the same
// shape and other values are committed after 65534, 65535 and 65536 reservation attempts.  The unchanged
// code grants 65534 to B and answers "too many non-finalized roots" to C and D; whatever is
// granted, the log served for (R0, A) must stay A's.
func runSeqBurn(sc Scenario) (res runResult) {
	res.hist = map[string]int{}
	defer func() {
		if e := recover(); e != nil {
			res.violations = append(res.violations, fmt.Sprintf("implementation panicked: %v", e))
			res.panicked = true
		}
	}()
	ctx := context.Background()
	b1, err := openBackend("pathbadger")
	if err != nil {
		panic(err)
	}
	defer b1.close()
	ndb := b1.impl.NodeDB()
	var emptyHash hash.Hash
	emptyHash.Empty()
	root0 := node.Root{Namespace: testNs, Version: 0, Type: node.RootTypeState, Hash: emptyHash}
	hashIDs := map[hash.Hash]int{emptyHash: 0}
	rid := func(r node.Root) string {
		id, ok := hashIDs[r.Hash]
		if !ok {
			id = len(hashIDs)
			hashIDs[r.Hash] = id
		}
		return fmt.Sprintf("(%d, %d)", r.Version, id)
	}
	node2coq := func(n pathbadger.VerifStoredNode) string {
		switch {
		case !n.Internal:
			return fmt.Sprintf("(SLeaf %s %s)", coqout.Bytes(n.LeafKey), coqout.Bytes(n.LeafValue))
		case n.HasLeaf:
			return fmt.Sprintf("(SInternal (Some (%s, %s)))", coqout.Bytes(n.LeafKey), coqout.Bytes(n.LeafValue))
		}
		return "(SInternal None)"
	}
	var calls, obs []string
	type stored struct {
		root node.Root
		log  []entry
	}
	var roots []stored
	tooMany := func(err error) bool {
		return err != nil && strings.Contains(err.Error(), "too many non-finalized roots")
	}
	commit := func(val string) {
		t := mkvs.NewWithRoot(nil, ndb, root0)
		defer t.Close()
		for _, k := range []string{"a", "b"} {
			if err := t.Insert(ctx, []byte(k), []byte(val)); err != nil {
				panic(err)
			}
		}
		cwl, h, err := t.Commit(ctx, testNs, 1)
		end := node.Root{Namespace: testNs, Version: 1, Type: node.RootTypeState, Hash: h}
		if tooMany(err) {
			// the end root is not known to the database; the model only needs an identifier
			end.Hash = hashOf([]kv{{[]byte("a"), []byte(val)}, {[]byte("b"), []byte(val)}})
			calls = append(calls, fmt.Sprintf("TCommit (mkBatch %s %s [] [] None [])", rid(root0), rid(end)))
			obs = append(obs, "ORefused")
			res.hist["seqburn:commit-refused"]++
			return
		}
		if err != nil {
			panic(fmt.Errorf("commit: %w", err))
		}
		cb, err := pathbadger.VerifReadCommittedBatch(ndb, root0, end)
		if err != nil {
			panic(fmt.Errorf("hook: %w", err))
		}
		var nodes, removed, raw []string
		for _, u := range cb.Updated {
			if u.Removed {
				removed = append(removed, fmt.Sprintf("(%d, %d)", u.Version, u.Index))
			} else if u.Node.Found {
				nodes = append(nodes, fmt.Sprintf("((%d, %d), %s)", u.Version, u.Index, node2coq(u.Node)))
			}
		}
		for _, e := range cb.Log {
			switch {
			case len(e) == 13 && e[0] == 0x01:
				raw = append(raw, fmt.Sprintf("IInsert (%d, %d)", binary.BigEndian.Uint64(e[1:9]), binary.BigEndian.Uint32(e[9:13])))
			case len(e) >= 1 && e[0] == 0x02:
				raw = append(raw, "IDelete "+coqout.Bytes(e[1:]))
			default:
				raw = append(raw, "IBad")
			}
		}
		rootNode := "None"
		if cb.RootNode.Found {
			rootNode = "(Some " + node2coq(cb.RootNode) + ")"
		}
		calls = append(calls, fmt.Sprintf("TCommit (mkBatch %s %s %s %s %s %s)", rid(root0), rid(end),
			coqout.List(nodes), coqout.List(removed), rootNode, coqout.List(raw)))
		obs = append(obs, fmt.Sprintf("OSeq %d", cb.SeqNo))
		res.hist[fmt.Sprintf("seqburn:commit-seq:%d", cb.SeqNo)]++
		var committed []entry
		for _, e := range cwl {
			committed = append(committed, entry{k: e.Key, v: e.Value, del: e.Value == nil})
		}
		roots = append(roots, stored{end, sortLog(committed)})
	}
	burn := func(n int) {
		granted := 0
		for i := 0; i < n; i++ {
			b, err := ndb.NewBatch(root0, 1, false)
			if tooMany(err) {
				continue
			}
			if err != nil {
				panic(fmt.Errorf("NewBatch: %w", err))
			}
			b.Reset()
			granted++
		}
		calls = append(calls, fmt.Sprintf("TBurn 1 %d", n))
		obs = append(obs, fmt.Sprintf("OBurn %d", granted))
		res.hist["seqburn:reservations-granted"] += granted
		res.hist["seqburn:reservations-refused"] += n - granted
	}
	get := func(when string, st stored) {
		it, err := b1.impl.GetDiff(ctx, &api.GetDiffRequest{StartRoot: root0, EndRoot: st.root})
		var log []entry
		if err == nil {
			log, err = foldLog(it)
		}
		o := "GError"
		switch {
		case err == nil:
			o = "(GServed " + coqLog(log) + ")"
			// S: a served log is the one committed for that root
			if !logEqual(sortLog(log), st.log) {
				res.violations = append(res.violations, fmt.Sprintf("seqburn (%s): the write log served for root %s is not the one committed for it (another root's nodes overwrote its final slots)", when, rid(st.root)))
			}
		case errors.Is(err, nodedb.ErrWriteLogNotFound):
			o = "GNotFound"
		case errors.Is(err, nodedb.ErrRootNotFound):
			o = "GRootNotFound"
		}
		res.hist["seqburn:get:"+strings.Trim(strings.SplitN(o, " ", 2)[0], "(")]++
		calls = append(calls, fmt.Sprintf("TGet %s %s", rid(root0), rid(st.root)))
		obs = append(obs, "OGet "+o)
	}

	commit("1")  // A: reservation 1, sequence number 0
	burn(65533)  // reservations 2..65534
	commit("2")  // B: after 65534 reservations
	commit("3")  // C: after 65535 (a wrapping counter would grant 65535 here ...)
	commit("4")  // D: after 65536 (... and 0 again here, A's number)
	for _, st := range roots {
		get("pending", st)
	}
	if len(roots) >= 2 {
		pick := roots[1]
		if err := ndb.Finalize([]node.Root{pick.root}); err != nil {
			panic(fmt.Errorf("finalize: %w", err))
		}
		calls = append(calls, fmt.Sprintf("TFinalize 1 %s", rid(pick.root)))
		obs = append(obs, "ODone")
		for _, st := range roots {
			get("finalized", st)
		}
	}
	res.pairs = append(res.pairs, pairResult{store: true,
		coq:  fmt.Sprintf("(%s,\n  %s)", coqout.List(calls), coqout.List(obs)),
		desc: map[string]any{"case": sc}, nontriv: true, key: "seqburn"})
	return res
}

func runScenario(sc Scenario) (res runResult) {
	if sc.SeqBurn {
		return runSeqBurn(sc)
	}
	res.hist = map[string]int{}
	defer func() {
		if e := recover(); e != nil {
			what := fmt.Sprintf("implementation panicked: %v", e)
			res.panicked = true
			// recognised defect outside C13's statement (node database, C06/C07 territory): after
			// badger discards a losing candidate, a node that candidate re-created with the same
			// hash as a node of the finalized root is gone, and the finalized root is unreadable
			if strings.Contains(what, "mkvs: node not found in node db") && (sc.Backend == "badger" || sc.Backend2 == "badger") {
				res.findings = append(res.findings, finding{keyDiscardSharedNode, what})
				return
			}
			res.violations = append(res.violations, what)
		}
	}()
	viol := func(f string, a ...any) { res.violations = append(res.violations, fmt.Sprintf(f, a...)) }
	ctx := context.Background()
	b1, err := openBackend(sc.Backend)
	if err != nil {
		panic(err)
	}
	defer b1.close()
	b2, err := openBackend(sc.Backend2)
	if err != nil {
		panic(err)
	}
	defer b2.close()
	ndb1, ndb2 := b1.impl.NodeDB(), b2.impl.NodeDB()

	rootType := node.RootTypeState
	tyN := 1
	if sc.Type == "io" {
		rootType = node.RootTypeIO
		tyN = 2
	}
	var emptyHash hash.Hash
	emptyHash.Empty()
	mkRoot := func(ver uint64, h hash.Hash) node.Root {
		return node.Root{Namespace: testNs, Version: ver, Type: rootType, Hash: h}
	}
	coqRoot := func(ver uint64, m []kv) string {
		return fmt.Sprintf("(mkRoot %d %d %s)", ver, tyN, coqKVs(m))
	}

	// chain state: the root the next version starts from
	prev := storedRoot{ver: 0, hash: emptyHash}
	var db2roots []storedRoot // roots stored in the second backend (recent ones)
	pairIdx := 0
	type qres struct {
		status string // served | refused | error
		log    []entry // sorted by key
		raw    []entry // in the order served
		err    error
	}
	type cand struct {
		start, end storedRoot
		ops        []Op
		committed  []entry // what Tree.Commit returned, sorted by key
		clog       []entry // the same in the order Commit returned it
		seq        int     // batches opened before this one for the same (version, type) in the first database
		skip       bool    // the end root is the start root itself
		sOnly      bool    // judged by the oracle only (same root stored twice; see below)
		oldKV      []kv
		newKV      []kv
		idx        int
		fin2       string // Coq: last finalized version of the second database
		queries    []string // Coq: (backend, seq, fstate)
		served     []string // Coq: option log
		coqAtt     []string
		coqRes     []string
		db2coq     []string
		applied    bool
		emit       bool
		rejectAt   int   // position of the rejected commit attempt among the operations (-1: none)
		vi, bi     int   // where the batch sits in the scenario
		storer     *cand // the candidate whose commit stored the log for this (start, end) pair
	}
	coqBackend := map[string]string{"badger": "Badger", "pathbadger": "PathBadger"}[sc.Backend]
	// trace of database calls (pathbadger storage model)
	tracing := storeMode && sc.Backend == "pathbadger"
	var traceCalls, traceObs []string
	hashIDs := map[hash.Hash]int{emptyHash: 0}
	ridOf := func(r node.Root) string {
		id, ok := hashIDs[r.Hash]
		if !ok {
			id = len(hashIDs)
			hashIDs[r.Hash] = id
		}
		return fmt.Sprintf("(%d, %d)", r.Version, id)
	}
	coqStored := func(n pathbadger.VerifStoredNode) string {
		switch {
		case !n.Internal:
			return fmt.Sprintf("(SLeaf %s %s)", coqout.Bytes(n.LeafKey), coqout.Bytes(n.LeafValue))
		case n.HasLeaf:
			return fmt.Sprintf("(SInternal (Some (%s, %s)))", coqout.Bytes(n.LeafKey), coqout.Bytes(n.LeafValue))
		}
		return "(SInternal None)"
	}
	coqRaw := func(log [][]byte) []string {
		var raw []string
		for _, e := range log {
			switch {
			case len(e) == 13 && e[0] == 0x01:
				raw = append(raw, fmt.Sprintf("IInsert (%d, %d)", binary.BigEndian.Uint64(e[1:9]), binary.BigEndian.Uint32(e[9:13])))
			case len(e) >= 1 && e[0] == 0x02:
				raw = append(raw, "IDelete "+coqout.Bytes(e[1:]))
			default:
				raw = append(raw, "IBad")
			}
		}
		return raw
	}
	traceCommit := func(startRoot, endRoot node.Root, seqGuess int, dup bool) {
		if !tracing {
			return
		}
		cb, err := pathbadger.VerifReadCommittedBatch(ndb1, startRoot, endRoot)
		if err != nil {
			panic(fmt.Errorf("hook: %w", err))
		}
		var nodes, removed []string
		for _, u := range cb.Updated {
			if u.Removed {
				removed = append(removed, fmt.Sprintf("(%d, %d)", u.Version, u.Index))
			} else if u.Node.Found {
				nodes = append(nodes, fmt.Sprintf("((%d, %d), %s)", u.Version, u.Index, coqStored(u.Node)))
			}
		}
		rootNode := "None"
		if cb.RootNode.Found {
			rootNode = "(Some " + coqStored(cb.RootNode) + ")"
		}
		log := coqRaw(cb.Log)
		seq := int(cb.SeqNo)
		if dup {
			// the root was already stored: this commit stored nothing; what the batch carried is
			// not observable (and not used by the model)
			nodes, removed, log, seq = nil, nil, nil, seqGuess
		}
		traceCalls = append(traceCalls, fmt.Sprintf("TCommit (mkBatch %s %s %s %s %s %s)", ridOf(startRoot), ridOf(endRoot),
			coqout.List(nodes), coqout.List(removed), rootNode, coqout.List(log)))
		traceObs = append(traceObs, fmt.Sprintf("OSeq %d", seq))
		res.hist[fmt.Sprintf("store:commit-seq:%d", min(seq, 3))]++
		if cb.RawLog != nil && !dup {
			res.pairs = append(res.pairs, pairResult{enc: true,
				coq:  fmt.Sprintf("(%s, %s)", coqout.List(log), coqout.Bytes(cb.RawLog)),
				desc: map[string]any{"case": sc}, nontriv: len(cb.Log) >= 2, key: hex.EncodeToString(cb.RawLog)})
		}
	}
	traceFinalize := func(r node.Root) {
		if tracing {
			traceCalls = append(traceCalls, fmt.Sprintf("TFinalize %d %s", r.Version, ridOf(r)))
			traceObs = append(traceObs, "ODone")
		}
	}
	traceGet := func(startRoot, endRoot node.Root, status string, raw []entry, err error) {
		if !tracing {
			return
		}
		obs := "GError"
		switch {
		case status == "served":
			obs = "(GServed " + coqLog(raw) + ")"
		case errors.Is(err, nodedb.ErrWriteLogNotFound):
			obs = "GNotFound"
		case errors.Is(err, nodedb.ErrRootNotFound):
			obs = "GRootNotFound"
		case errors.Is(err, nodedb.ErrRootMustFollowOld):
			obs = "GMustFollow"
		}
		res.hist["store:get:"+strings.Trim(strings.SplitN(obs, " ", 2)[0], "(")]++
		traceCalls = append(traceCalls, fmt.Sprintf("TGet %s %s", ridOf(startRoot), ridOf(endRoot)))
		traceObs = append(traceObs, "OGet "+obs)
	}
	defer func() {
		if tracing && len(traceCalls) > 0 && !res.panicked {
			res.pairs = append(res.pairs, pairResult{store: true,
				coq:  fmt.Sprintf("(%s,\n  %s)", coqout.List(traceCalls), coqout.List(traceObs)),
				desc: map[string]any{"case": sc}, nontriv: len(traceCalls) >= 6, key: strings.Join(traceCalls, ";")})
		}
	}()
	query := func(startRoot, endRoot node.Root) qres {
		it, err := b1.impl.GetDiff(ctx, &api.GetDiffRequest{StartRoot: startRoot, EndRoot: endRoot})
		var log []entry
		if err == nil {
			log, err = foldLog(it)
		}
		switch {
		case err == nil:
			traceGet(startRoot, endRoot, "served", log, nil)
			return qres{status: "served", log: sortLog(log), raw: log}
		case errors.Is(err, nodedb.ErrWriteLogNotFound) || errors.Is(err, nodedb.ErrRootNotFound):
			traceGet(startRoot, endRoot, "refused", nil, err)
			return qres{status: "refused", err: err}
		}
		traceGet(startRoot, endRoot, "error", nil, err)
		return qres{status: "error", err: err}
	}
	// judge one answer of the database (S) and record it for the model (K)
	judge := func(p *cand, q qres, fstate string) {
		p.queries = append(p.queries, fmt.Sprintf("(%s, %d, %s)", coqBackend, p.seq, fstate))
		tag := ""
		if p.sOnly {
			tag = "same-root:"
		}
		res.hist["served:"+tag+fstate+":"+q.status]++
		switch q.status {
		case "served":
			p.served = append(p.served, "(Some "+coqLog(q.log)+")")
			seenKey := map[string]bool{}
			for _, e := range q.log {
				// (when the same root was committed twice badger may answer with the two-hop
				// concatenation through the other parent, badger.go:363-372: keys repeat)
				if seenKey[string(e.k)] && !p.sOnly {
					viol("pair %d (%s): served write log has key %x twice", p.idx, fstate, e.k)
				}
				seenKey[string(e.k)] = true
			}
			if got := applyRef(p.oldKV, q.log); !kvEqual(got, p.newKV) {
				what := fmt.Sprintf("pair %d (%s): served write log applied to the start contents does not give the end contents", p.idx, fstate)
				// (regression: badger once streamed a two-hop answer newest hop first, fixed in
				// /repo d35310a; a wrong order is a violation)
				viol("%s", what)
			} else if !p.sOnly && !logEqual(q.log, p.committed) {
				viol("pair %d (%s): the served write log differs from the one Commit returned", p.idx, fstate)
			}
		case "refused":
			p.served = append(p.served, "None")
			// refusal is allowed only where the code documents it: nil logs are not stored; pathbadger
			// does not serve pending roots with a non-zero sequence number; roots that lost
			// finalization are removed; committing a root that is already stored stores nothing
			// ("Root already exists, no need to do anything", badger.go:1055-1063)
			allowed := len(p.committed) == 0 || fstate == "FinalizedOther" || p.sOnly ||
				(fstate == "Pending" && sc.Backend == "pathbadger" && p.seq != 0)
			if !allowed {
				viol("pair %d (%s): no write log served for a stored pair of consecutive roots: %v", p.idx, fstate, q.err)
			}
		default:
			what := fmt.Sprintf("pair %d: the database cannot serve the write log of a stored pair of consecutive roots (log of %d entries at commit): %v", p.idx, len(p.committed), q.err)
			// Recognised defect (pathbadger): the stored internal log holds an insertion whose
			// reference was never written by the batch and cannot be resolved -- the invalid pointer
			// of a leaf embedded in an internal node, or the root slot of the start version for a
			// leaf that is the whole tree -- because the key was only re-inserted with the value it
			// already had.  Attributed on that stored state (read back through the hook), on the
			// batch that stored the log, and on a twin run without the re-insertions being clean.
			attributed := false
			if sc.Backend == "pathbadger" && strings.Contains(q.err.Error(), "mkvs/pathbadger: failed to fetch node") {
				if mech, ok := attributeUnresolvable(p.storer.clog, p.storer.ops, p.storer.oldKV,
					mkRoot(p.start.ver, p.start.hash), mkRoot(p.end.ver, p.end.hash), ndb1); ok {
					twinClean := true
					if !sc.noTwin {
						twin := cloneScenario(sc)
						twin.noTwin = true
						var kept []Op
						for _, o := range twin.Versions[p.storer.vi].Batches[p.storer.bi] {
							drop := false
							if o.K == "ins" {
								for _, e := range p.storer.oldKV {
									if hx(e.k) == o.Key && hx(e.v) == o.Val {
										drop = true
									}
								}
							}
							if !drop {
								kept = append(kept, o)
							}
						}
						twin.Versions[p.storer.vi].Batches[p.storer.bi] = kept
						tr := runScenario(twin)
						for _, v := range tr.violations {
							twinClean = twinClean && !strings.HasPrefix(v, fmt.Sprintf("pair %d", p.idx))
						}
						for _, f := range tr.findings {
							twinClean = twinClean && !strings.HasPrefix(f.what, fmt.Sprintf("pair %d:", p.idx))
						}
						res.hist["finding-twin:"+map[bool]string{true: "clean", false: "not-clean"}[twinClean]]++
					}
					if twinClean {
						attributed = true
						res.hist["finding-mechanism:"+mech]++
						res.findings = append(res.findings, finding{keyEmbeddedLeaf, what + " [stored reference: " + mech + "]"})
					}
				}
			}
			if !attributed {
				if sc.Backend == "badger" && strings.Contains(q.err.Error(), "mkvs: node not found in node db") {
					res.findings = append(res.findings, finding{keyDiscardSharedNode, what})
				} else {
					viol("%s", what)
				}
			}
			p.emit = false // no observation the model could be compared with
		}
	}
	fin2 := "None" // last finalized version of the second database, as a Coq term
	// one Apply on the second database, judged (S) and recorded (K)
	attemptOn := func(p *cand, ai int, a attempt) {
		startRoot := mkRoot(p.start.ver, p.start.hash)
		srcKV := p.oldKV
		if a.otherSrc {
			startRoot = mkRoot(p.start.ver, a.srcHash)
			srcKV = a.srcKV
		}
		dst := mkRoot(a.dstVer, a.dstHash)
		hadBefore := ndb2.HasRoot(dst)
		var err error
		skipped := false
		wl := a.wl
		if a.worker {
			// port of fetchDiff (worker.go:383-396): roots the database has are not fetched;
			// a root with the hash of the previous one gets the empty log, no peer is asked
			if ndb2.HasRoot(dst) {
				skipped = true
			} else if dst.Hash.Equal(&startRoot.Hash) {
				wl = []entry{}
			}
		}
		if !skipped {
			err = b2.impl.Apply(ctx, &api.ApplyRequest{
				Namespace: testNs, RootType: rootType,
				SrcRound: startRoot.Version, SrcRoot: startRoot.Hash,
				DstRound: a.dstVer, DstRoot: a.dstHash,
				WriteLog: toAPILog(wl),
			})
		}
		cls := applyClass(err)
		if skipped {
			cls = "ASkipped"
		}
		if a.worker {
			res.hist["worker:"+cls]++
		}
		has := ndb2.HasRoot(dst)
		if err != nil && !a.otherSrc && sc.Backend2 == "badger" && strings.Contains(err.Error(), "mkvs: node not found in node db") {
			// the second database lost a node of a finalized root (node database defect, see
			// keyDiscardSharedNode): nothing about C13 can be judged on it any more
			panic(err)
		}
		res.hist["result:"+a.kind+":"+cls]++
		if cls == "AOther" {
			res.hist["other-error:"+a.kind+": "+err.Error()]++
		}
		p.coqAtt = append(p.coqAtt, fmt.Sprintf("mkAttempt %s %s %s", coqRoot(startRoot.Version, srcKV), coqRoot(a.dstVer, a.dstKV), coqLog(a.wl))+" "+coqout.Bool(a.worker))
		p.coqRes = append(p.coqRes, fmt.Sprintf("(%s, %s)", cls, coqout.Bool(has)))

		// S: the property, judged on maps only
		follows := a.dstVer == startRoot.Version || a.dstVer == startRoot.Version+1
		good := !a.otherSrc && a.kind != "finalized-version" && kvEqual(applyRef(p.oldKV, wl), a.dstKV)
		switch {
		case err == nil && !has:
			viol("pair %d attempt %d (%s): Apply succeeded but the expected root is not stored", p.idx, ai, a.kind)
		case err == nil && follows && !hadBefore && !good:
			viol("pair %d attempt %d (%s): an Apply that must not store the expected root was accepted and the root is now stored", p.idx, ai, a.kind)
		case err != nil && follows && !hadBefore && has:
			viol("pair %d attempt %d (%s): Apply failed (%v) but the expected root appeared in the database", p.idx, ai, a.kind, err)
		case err != nil && follows && good:
			viol("pair %d attempt %d (%s): a log that produces exactly the announced contents was rejected: %v", p.idx, ai, a.kind, err)
		}
		if !skipped && err == nil && has && !hadBefore && !(a.dstVer == p.end.ver && a.dstHash.Equal(&p.end.hash)) {
			// an accepted Apply for another root than the pair's end root (the worker's
			// empty-log rule for an announced root with the previous hash): it is stored now
			db2roots = append(db2roots, storedRoot{ver: a.dstVer, kvs: a.dstKV, hash: a.dstHash})
		}
		if err == nil && has {
			got, rerr := readContents(ctx, ndb2, dst)
			if rerr != nil && sc.Backend2 == "badger" && strings.Contains(rerr.Error(), "mkvs: node not found in node db") {
				panic(rerr) // node database defect, see keyDiscardSharedNode
			}
			if rerr != nil {
				viol("pair %d attempt %d (%s): stored root unreadable: %v", p.idx, ai, a.kind, rerr)
			} else if !kvEqual(got, a.dstKV) {
				viol("pair %d attempt %d (%s): the root stored after Apply has other contents than announced", p.idx, ai, a.kind)
			}
		}
	}
	db2coqNow := func() []string {
		var out []string
		for _, sr := range db2roots {
			out = append(out, fmt.Sprintf("(%s, %s)", coqRoot(sr.ver, sr.kvs), coqKVs(sr.kvs)))
		}
		return out
	}
	// Apply attempts on the second database for one pair; returns false when it cannot follow
	follow := func(p *cand, served []entry) bool {
		startRoot, endRoot := mkRoot(p.start.ver, p.start.hash), mkRoot(p.end.ver, p.end.hash)
		res.hist[fmt.Sprintf("loglen:%d", min(len(served), 8))]++
		r := prng.New(sc.Seed*1000003 + uint64(p.idx))
		atts := corruptions(r, served, p.oldKV, p.newKV, startRoot.Version, endRoot.Version, startRoot.Hash, endRoot.Hash,
			func(k string) { res.hist["attempt:"+k]++ })
		if lightMode {
			for _, a := range atts {
				if a.kind == "served" {
					a.worker = false
					atts = []attempt{a}
					break
				}
			}
		}
		p.db2coq = db2coqNow()
		p.fin2 = fin2
		for ai, a := range atts {
			attemptOn(p, ai, a)
		}
		if !ndb2.HasRoot(endRoot) {
			viol("pair %d: the served write log did not take the second database to the end root", p.idx)
			return false
		}
		p.applied = true
		db2roots = append(db2roots, storedRoot{ver: endRoot.Version, kvs: p.newKV, hash: endRoot.Hash})
		return true
	}
	// keep the second database following with the log Commit returned (no observation recorded)
	followSilently := func(p *cand) bool {
		startRoot, endRoot := mkRoot(p.start.ver, p.start.hash), mkRoot(p.end.ver, p.end.hash)
		if ndb2.HasRoot(endRoot) {
			p.applied = true
			return true
		}
		if aerr := b2.impl.Apply(ctx, &api.ApplyRequest{Namespace: testNs, RootType: rootType,
			SrcRound: startRoot.Version, SrcRoot: startRoot.Hash, DstRound: endRoot.Version, DstRoot: endRoot.Hash,
			WriteLog: toAPILog(p.committed)}); aerr != nil {
			viol("pair %d: the log returned by Commit is rejected by Apply: %v", p.idx, aerr)
			return false
		}
		p.applied = true
		db2roots = append(db2roots, storedRoot{ver: endRoot.Version, kvs: p.newKV, hash: endRoot.Hash})
		return true
	}
	emitCase := func(p *cand) {
		term := fmt.Sprintf("(let o : kvmap := %s in let n : kvmap := %s in\n (mkCase o %s %s %s %s %s %s,\n  mkObs %s %s n true %s))",
			coqKVs(p.oldKV), coqKVs(p.newKV), coqHist(p.ops, p.rejectAt), coqout.List(p.db2coq), coqout.Bool(sc.Backend2 == "pathbadger"), p.fin2, coqout.List(p.coqAtt), coqout.List(p.queries),
			coqLog(p.committed), coqout.List(p.served), coqout.List(p.coqRes))
		res.pairs = append(res.pairs, pairResult{coq: term, desc: map[string]any{"case": sc, "pair": p.idx},
			nontriv: len(p.committed) >= 2, key: coqKVs(p.oldKV) + coqOps(p.ops)})
	}
	// pathbadger: the stored internal log and the nodes it references, against PathLog.v
	emitPb := func(p *cand, q qres) {
		il, err := pathbadger.VerifInternalWriteLog(ndb1, mkRoot(p.start.ver, p.start.hash), mkRoot(p.end.ver, p.end.hash))
		if err != nil {
			viol("pair %d: stored internal write log unreadable: %v", p.idx, err)
			return
		}
		coqNode := func(n pathbadger.VerifStoredNode) string {
			switch {
			case !n.Internal:
				return fmt.Sprintf("(SLeaf %s %s)", coqout.Bytes(n.LeafKey), coqout.Bytes(n.LeafValue))
			case n.HasLeaf:
				return fmt.Sprintf("(SInternal (Some (%s, %s)))", coqout.Bytes(n.LeafKey), coqout.Bytes(n.LeafValue))
			}
			return "(SInternal None)"
		}
		var raw, store, shape, invalid []string
		for _, e := range il.Entries {
			switch e.Kind {
			case 0x01:
				raw = append(raw, fmt.Sprintf("IInsert (%d, %d)", e.Version, e.Index))
				if e.Node.Found {
					store = append(store, fmt.Sprintf("((%d, %d), %s)", e.Version, e.Index, coqNode(e.Node)))
				}
				shape = append(shape, "None")
				inv := e.Version == ^uint64(0) && e.Index == ^uint32(0)
				oldRoot := !inv && e.Index == 0 && e.Version < p.end.ver
				switch {
				case inv:
					invalid = append(invalid, "1")
				case oldRoot:
					invalid = append(invalid, "2")
				default:
					invalid = append(invalid, "0")
				}
				if inv {
					res.hist["pblog:insert-invalid-pointer"]++
				} else if oldRoot {
					res.hist["pblog:insert-old-root-slot"]++
				} else if e.Version == p.end.ver {
					res.hist["pblog:insert-new-position"]++
				} else {
					res.hist["pblog:insert-old-position"]++
				}
			case 0x02:
				raw = append(raw, "IDelete "+coqout.Bytes(e.Key))
				shape = append(shape, "(Some "+coqout.Bytes(e.Key)+")")
				invalid = append(invalid, "0")
				res.hist["pblog:delete"]++
			default:
				raw = append(raw, "IBad")
				shape = append(shape, "None")
				invalid = append(invalid, "0")
			}
		}
		rootNode := "None"
		if il.RootNode.Found {
			rootNode = "(Some " + coqNode(il.RootNode) + ")"
		}
		servedTerm := "None"
		if q.status == "served" {
			servedTerm = "(Some " + coqLog(q.raw) + ")"
		}
		term := fmt.Sprintf("(mkPb %s %s %s %s %s %s %d,\n  mkPbObs %s %s %s)",
			coqKVs(p.oldKV), coqOps(p.ops), coqLog(p.clog), coqout.List(raw), coqout.List(store), rootNode, p.end.ver,
			coqout.List(shape), coqout.List(invalid), servedTerm)
		res.pairs = append(res.pairs, pairResult{pb: true, coq: term, desc: map[string]any{"case": sc, "pair": p.idx},
			nontriv: len(p.committed) >= 2, key: coqKVs(p.oldKV) + coqOps(p.ops)})
	}

	for vi, ver := range sc.Versions {
		version := uint64(vi + 1)
		vstart := prev
		if sc.Type == "io" {
			// IO trees are rebuilt from the empty root in every version
			vstart = storedRoot{ver: version, hash: emptyHash}
		}
		var cands []*cand
		parentOf := make([]int, len(ver.Batches)) // -1 = the version's start root, else candidate index
		for bi, ops := range ver.Batches {
			start := vstart
			parentOf[bi] = -1
			switch {
			case !ver.Fork && bi > 0:
				start, parentOf[bi] = cands[bi-1].end, bi-1 // chain inside the version (IO: empty -> i -> io)
			case ver.Fork && bi < len(ver.Parents) && ver.Parents[bi] > 0 && ver.Parents[bi] <= bi:
				start, parentOf[bi] = cands[ver.Parents[bi]-1].end, ver.Parents[bi]-1
			}
			startRoot := mkRoot(start.ver, start.hash)
			t := mkvs.NewWithRoot(nil, ndb1, startRoot)
			rejectAt := -1
			reject := func(at int) {
				// a Commit of this same tree object that the node database must reject
				if storeMode || ver.Fork || bi != 0 || ver.Reject == "" || rejectAt >= 0 {
					return
				}
				var err error
				kind := ""
				for _, kd := range []string{ver.Reject, "finalized", "namespace", "nofollow"} {
					if (kd == "finalized" && version >= 2) || (kd != "finalized" && !start.hash.IsEmpty()) {
						kind = kd
						break
					}
				}
				switch kind {
				case "finalized":
					_, _, err = t.Commit(ctx, testNs, version-1)
				case "nofollow":
					_, _, err = t.Commit(ctx, testNs, version+5)
				case "namespace":
					_, _, err = t.Commit(ctx, badNs, version)
				default:
					res.hist["reject:not-applicable"]++
					return
				}
				if err == nil {
					panic(fmt.Errorf("a commit that must be rejected (%s) was accepted", kind))
				}
				rejectAt = at
				cls := "other: " + err.Error()
				switch {
				case errors.Is(err, nodedb.ErrAlreadyFinalized):
					cls = "already-finalized"
				case errors.Is(err, nodedb.ErrRootMustFollowOld):
					cls = "must-follow"
				case errors.Is(err, nodedb.ErrBadNamespace):
					cls = "bad-namespace"
				case strings.Contains(err.Error(), "child roots in the same version"):
					cls = "pathbadger-newbatch-same-version-child"
				}
				res.hist["reject:"+sc.Backend+":"+kind+":"+cls]++
			}
			for oi, o := range ops {
				if oi == ver.RejectAt {
					reject(oi)
				}
				k, _ := hex.DecodeString(o.Key)
				v, _ := hex.DecodeString(o.Val)
				var err error
				if o.K == "ins" {
					err = t.Insert(ctx, k, v)
				} else {
					err = t.Remove(ctx, k)
				}
				if err != nil {
					panic(fmt.Errorf("tree op: %w", err))
				}
			}
			if ver.RejectAt >= len(ops) {
				reject(len(ops))
			}
			cwl, h, err := t.Commit(ctx, testNs, version)
			t.Close()
			if err != nil {
				panic(fmt.Errorf("commit: %w", err))
			}
			end := storedRoot{ver: version, hash: h}
			var committed []entry
			for _, e := range cwl {
				committed = append(committed, entry{k: e.Key, v: e.Value, del: e.Value == nil})
			}
			pairIdx++
			p := &cand{start: start, end: end, ops: ops, committed: sortLog(committed), clog: committed, seq: bi, idx: pairIdx, emit: true, vi: vi, bi: bi, rejectAt: rejectAt}
			p.storer = p
			for _, q := range cands {
				if q.end.hash.Equal(&end.hash) && q.start.hash.Equal(&start.hash) && q.start.ver == start.ver && p.storer == p {
					p.storer = q
				}
			}
			if start.ver == end.ver && start.hash.Equal(&end.hash) {
				p.skip = true
				res.hist["pair:skipped-same-root"]++
			}
			for _, q := range cands {
				if q.end.hash.Equal(&end.hash) && !p.skip {
					// The same root stored a second time.  The second commit stores nothing
					// (badger.go:1055-1063), so the pair may be unservable or be served with the
					// first batch's log: judged by "served => correct" only.
					p.sOnly, q.sOnly = true, true
				}
			}
			dup := p.skip
			for _, q := range cands {
				if q.end.hash.Equal(&end.hash) {
					dup = true
				}
			}
			traceCommit(startRoot, mkRoot(end.ver, end.hash), bi, dup)
			cands = append(cands, p)
		}
		pick := len(cands) - 1
		if ver.Fork {
			pick = ver.Pick % len(cands)
			res.hist[fmt.Sprintf("forks:%d", len(cands))]++
		}
		// finalization is transitive along the derivation links the database stored, and a link
		// is stored only by the FIRST commit of a root (badger.go:1055-1063, 1087-1101)
		firstOf := map[hash.Hash]int{}
		for i, p := range cands {
			if _, ok := firstOf[p.end.hash]; !ok && !p.skip {
				firstOf[p.end.hash] = i
			}
		}
		finalizedHash := map[hash.Hash]bool{}
		for i, ok := firstOf[cands[pick].end.hash]; ok && i >= 0; {
			finalizedHash[cands[i].end.hash] = true
			if parentOf[i] < 0 || cands[parentOf[i]].end.hash.IsEmpty() {
				break // no link is stored from an empty old root (badger.go:1082)
			}
			i, ok = firstOf[cands[parentOf[i]].end.hash]
		}
		finalizedHash[cands[pick].end.hash] = true
		// contents, read back through the real tree before anything is discarded
		for _, p := range cands {
			if p.skip {
				continue
			}
			if p.sOnly {
				res.hist["pair:same-root-twice"]++
			}
			var err error
			if p.oldKV, err = readContents(ctx, ndb1, mkRoot(p.start.ver, p.start.hash)); err != nil {
				panic(fmt.Errorf("read old: %w", err))
			}
			if p.newKV, err = readContents(ctx, ndb1, mkRoot(p.end.ver, p.end.hash)); err != nil {
				panic(fmt.Errorf("read new: %w", err))
			}
			var refLog []entry
			for _, o := range p.ops {
				k, _ := hex.DecodeString(o.Key)
				v, _ := hex.DecodeString(o.Val)
				if o.K == "ins" {
					refLog = append(refLog, entry{k: k, v: v})
				} else {
					refLog = append(refLog, entry{k: k, del: true})
				}
			}
			if !kvEqual(applyRef(p.oldKV, refLog), p.newKV) {
				viol("pair %d: contents at the end root differ from the batch applied to the start contents", p.idx)
			}
		}
		// competing candidates: ask for every one of them before finalization
		if ver.Fork {
			for i, p := range cands {
				if p.skip {
					continue
				}
				if parentOf[i] >= 0 {
					res.hist["pair:child-of-candidate"]++
				}
				q := query(mkRoot(p.start.ver, p.start.hash), mkRoot(p.end.ver, p.end.hash))
				judge(p, q, "Pending")
				if q.status == "served" && !p.sOnly && ndb2.HasRoot(mkRoot(p.start.ver, p.start.hash)) {
					if !follow(p, q.log) {
						return res
					}
				}
			}
		}
		// multi-hop answers (badger.go:363-372): start of the first hop -> end of the second
		twoHop := func(phase string) {
			for i, p := range cands {
				j := parentOf[i]
				if j < 0 || parentOf[j] >= 0 || p.skip || cands[j].skip || sc.Backend != "badger" {
					continue
				}
				if phase == "finalized" && !finalizedHash[p.end.hash] {
					continue
				}
				first := cands[j]
				q := query(mkRoot(first.start.ver, first.start.hash), mkRoot(p.end.ver, p.end.hash))
				res.hist["twohop:"+phase+":"+q.status]++
				switch q.status {
				case "served":
					overlap := false
					seen := map[string]bool{}
					for _, e := range q.raw {
						if seen[string(e.k)] {
							overlap = true
						}
						seen[string(e.k)] = true
					}
					if overlap {
						res.hist["twohop:hops-write-the-same-key"]++
					}
					if got := applyRef(first.oldKV, q.raw); !kvEqual(got, p.newKV) {
						viol("pair %d+%d (%s): the two-hop write log applied to the start contents does not give the end contents", first.idx, p.idx, phase)
					}
				case "error":
					if strings.Contains(q.err.Error(), "mkvs: node not found in node db") {
						res.findings = append(res.findings, finding{keyDiscardSharedNode, fmt.Sprintf("pair %d+%d (%s): two-hop write log: %v", first.idx, p.idx, phase, q.err)})
					} else {
						viol("pair %d+%d (%s): two-hop write log: %v", first.idx, p.idx, phase, q.err)
					}
				}
			}
		}
		if ver.Fork {
			twoHop("pending")
		}
		fin := []node.Root{mkRoot(cands[pick].end.ver, cands[pick].end.hash)}
		if err := ndb1.Finalize(fin); err != nil {
			panic(fmt.Errorf("finalize db1: %w", err))
		}
		traceFinalize(fin[0])
		for _, p := range cands {
			if p.skip {
				continue
			}
			fstate := "FinalizedThis"
			if !finalizedHash[p.end.hash] {
				fstate = "FinalizedOther"
			}
			q := query(mkRoot(p.start.ver, p.start.hash), mkRoot(p.end.ver, p.end.hash))
			judge(p, q, fstate)
			if sc.Backend == "pathbadger" && fstate == "FinalizedThis" && !p.sOnly && len(p.committed) > 0 && q.status != "refused" {
				emitPb(p, q)
			}
			if finalizedHash[p.end.hash] && !p.applied && !ndb2.HasRoot(mkRoot(p.end.ver, p.end.hash)) {
				switch {
				case p.sOnly:
					if !followSilently(p) {
						return res
					}
				case q.status == "served":
					if !follow(p, q.log) {
						return res
					}
				case q.status == "refused" && len(p.committed) == 0:
					if !follow(p, nil) { // an empty batch: the empty log is what there is to apply
						return res
					}
				default:
					if !followSilently(p) {
						return res
					}
				}
			}
		}
		twoHop("finalized")
		for _, p := range cands {
			if p.skip || !p.emit || p.sOnly {
				continue
			}
			if p.fin2 == "" {
				p.fin2 = fin2
			}
			emitCase(p)
		}
		if !ndb2.HasRoot(fin[0]) {
			viol("version %d: the second database does not hold the finalized root", version)
			return res
		}
		if err := ndb2.Finalize(fin); err != nil {
			panic(fmt.Errorf("finalize db2: %w", err))
		}
		fin2 = fmt.Sprintf("(Some %d)", version)
		// roots of this version that lost finalization are gone from the second database
		var kept []storedRoot
		for _, sr := range db2roots {
			if sr.ver != version || finalizedHash[sr.hash] {
				kept = append(kept, sr)
			}
		}
		if len(kept) > 8 {
			kept = kept[len(kept)-8:]
		}
		db2roots = kept
		// a candidate that lost: its (correct) log can no longer be applied, the version is closed
		for _, p := range cands {
			if p.skip || p.sOnly || finalizedHash[p.end.hash] || parentOf[p.seq] >= 0 || lightMode {
				continue
			}
			if ndb2.HasRoot(mkRoot(p.start.ver, p.start.hash)) {
				late := &cand{rejectAt: -1, start: p.start, end: p.end, ops: p.ops, committed: p.committed, oldKV: p.oldKV, newKV: p.newKV,
					idx: p.idx, fin2: fin2, db2coq: db2coqNow()}
				res.hist["attempt:finalized-version"]++
				attemptOn(late, 0, attempt{kind: "finalized-version", wl: p.committed, dstVer: p.end.ver, dstHash: p.end.hash, dstKV: p.newKV})
				emitCase(late)
			}
			break
		}
		prev = cands[pick].end
	}
	return res
}

// ---------- generation ----------

func hx(b []byte) string { return hex.EncodeToString(b) }

func genBatch(r *prng.R, cur map[string][]byte, count func(string)) []Op {
	var ops []Op
	ins := func(k, v []byte) {
		ops = append(ops, Op{K: "ins", Key: hx(k), Val: hx(v)})
		cur[string(k)] = v
	}
	rem := func(k []byte) {
		ops = append(ops, Op{K: "rem", Key: hx(k)})
		delete(cur, string(k))
	}
	anyKey := func() []byte { return keyPool[r.Intn(len(keyPool))] }
	presentKey := func() []byte {
		if len(cur) == 0 {
			return anyKey()
		}
		ks := make([]string, 0, len(cur))
		for k := range cur {
			ks = append(ks, k)
		}
		sort.Strings(ks)
		return []byte(ks[r.Intn(len(ks))])
	}
	val := func() []byte { return valPool[r.Intn(len(valPool))] }
	if r.Chance(6) {
		count("empty-batch")
		return ops
	}
	n := r.Range(1, 7)
	for i := 0; i < n; i++ {
		switch x := r.Intn(100); {
		case x < 22:
			count("insert")
			ins(anyKey(), val())
		case x < 34:
			k := presentKey()
			if v, ok := cur[string(k)]; ok {
				count("overwrite-same-value")
				ins(k, v)
			} else {
				count("insert")
				ins(k, val())
			}
		case x < 44:
			count("overwrite-other-value")
			k := presentKey()
			ins(k, otherVal(r, cur[string(k)]))
		case x < 56:
			count("remove-present")
			rem(presentKey())
		case x < 62:
			count("remove-any")
			rem(anyKey())
		case x < 74:
			k := presentKey()
			if r.Chance(30) {
				k = anyKey()
			}
			old, had := cur[string(k)]
			rem(k)
			if had && r.Chance(40) {
				count("remove-then-reinsert-same")
				ins(k, old)
			} else {
				count("remove-then-reinsert")
				ins(k, val())
			}
		case x < 86:
			k := anyKey()
			if _, ok := cur[string(k)]; ok {
				count("insert-then-remove-existing")
			} else {
				count("insert-then-remove-new")
			}
			ins(k, val())
			if r.Chance(30) {
				ins(anyKey(), val())
			}
			rem(k)
			if r.Chance(20) {
				rem(k)
			}
		case x < 94:
			count("empty-value")
			ins(anyKey(), []byte{})
		default:
			count("remove-twice")
			k := presentKey()
			rem(k)
			rem(k)
		}
	}
	return ops
}

func genScenario(r *prng.R, idx int, count func(string)) Scenario {
	backends := []string{"badger", "pathbadger"}
	sc := Scenario{Backend: backends[idx%2], Backend2: backends[(idx/2)%2], Seed: r.U64() % 1000000}
	sc.Type = "state"
	if idx%3 == 2 {
		sc.Type = "io"
	}
	nv := r.Range(3, 7)
	cur := map[string][]byte{}
	cp := func(m map[string][]byte) map[string][]byte {
		c := map[string][]byte{}
		for k, v := range m {
			c[k] = v
		}
		return c
	}
	for v := 0; v < nv; v++ {
		if sc.Type == "io" {
			cur = map[string][]byte{}
		}
		if r.Chance(40) {
			// 2-3 competing candidates from the same parent
			count("fork-version")
			n := r.Range(2, 3)
			ver := Version{Fork: true, Pick: r.Intn(n)}
			var maps []map[string][]byte
			simulate := func(m map[string][]byte, ops []Op) {
				for _, o := range ops {
					k, _ := hex.DecodeString(o.Key)
					if o.K == "ins" {
						v, _ := hex.DecodeString(o.Val)
						m[string(k)] = v
					} else {
						delete(m, string(k))
					}
				}
			}
			// pathbadger refuses children of IO roots and "child roots in the same version"
			// (pathbadger.go:683-695): candidates built on another candidate exist only on badger
			childOK := sc.Type == "state" && sc.Backend == "badger" && sc.Backend2 == "badger"
			if n == 3 && childOK && r.Chance(20) {
				// diamond: the same root reached from two different parents inside the version:
				// P -X-> A, A -Z-> R and P -X;Z-> R (in either order)
				count("fork-diamond")
				mx := cp(cur)
				x := genBatch(r, mx, count)
				mxz := cp(mx)
				z := genBatch(r, mxz, count)
				xz := append(append([]Op{}, x...), z...)
				if r.Chance(50) {
					ver.Batches, ver.Parents = [][]Op{x, z, xz}, []int{0, 1, 0}
				} else {
					ver.Batches, ver.Parents = [][]Op{x, xz, z}, []int{0, 0, 1}
				}
				maps = []map[string][]byte{mx, mxz, mxz}
				if ver.Parents[1] == 0 {
					maps = []map[string][]byte{mx, mxz, mxz}
				}
				cur = maps[ver.Pick]
				sc.Versions = append(sc.Versions, ver)
				continue
			}
			for j := 0; j < n; j++ {
				m := cp(cur)
				var ops []Op
				parent := 0
				x := r.Intn(100)
				switch {
				case j > 0 && x < 35:
					// same shape as the first candidate, other values
					count("fork-value-variant")
					for _, o := range ver.Batches[0] {
						if o.K == "ins" {
							v0, _ := hex.DecodeString(o.Val)
							ops = append(ops, Op{K: "ins", Key: o.Key, Val: hx(otherVal(r, v0))})
						} else {
							ops = append(ops, o)
						}
					}
					simulate(m, ops)
				case j > 0 && x < 50:
					// the same root a second time: the first candidate's batch plus operations without effect
					count("fork-same-root")
					ops = append(ops, ver.Batches[0]...)
					if len(ver.Parents) > 0 && ver.Parents[0] != 0 {
						parent = ver.Parents[0]
					}
					if r.Chance(60) {
						ops = append(ops, Op{K: "ins", Key: hx([]byte("zq")), Val: hx([]byte("x"))}, Op{K: "rem", Key: hx([]byte("zq"))})
					}
					simulate(m, ops)
				case j > 0 && x < 70 && childOK:
					// built on the previous candidate of this same version (a different parent)
					count("fork-child-of-candidate")
					parent = j
					m = cp(maps[j-1])
					ops = genBatch(r, m, count)
				default:
					ops = genBatch(r, m, count)
				}
				ver.Batches = append(ver.Batches, ops)
				ver.Parents = append(ver.Parents, parent)
				maps = append(maps, m)
			}
			cur = maps[ver.Pick]
			sc.Versions = append(sc.Versions, ver)
			continue
		}
		ver := Version{Batches: [][]Op{genBatch(r, cur, count)}}
		if r.Chance(30) {
			ver.Reject = []string{"finalized", "nofollow", "namespace"}[r.Intn(3)]
			ver.RejectAt = r.Intn(len(ver.Batches[0]) + 1)
			count("rejected-commit-" + ver.Reject)
		}
		// pathbadger refuses child roots of IO roots ("roots of type 'io-root' cannot have
		// child roots"), so two hops inside one version exist only on badger
		if sc.Type == "io" && sc.Backend == "badger" && sc.Backend2 == "badger" && r.Chance(50) {
			ver.Batches = append(ver.Batches, genBatch(r, cur, count))
		}
		sc.Versions = append(sc.Versions, ver)
	}
	return sc
}

// regressionScenarios are always part of the stream: inputs on which the implementation once
// violated the property (see known_findings.json).
func regressionScenarios() []Scenario {
	ins := func(k, v string) Op { return Op{K: "ins", Key: hx([]byte(k)), Val: hx([]byte(v))} }
	var out []Scenario
	// badger: the same root reached directly and through a two-hop path whose hops write the
	// same key, child first / direct first, every candidate finalized in turn
	for pick := 0; pick < 3; pick++ {
		out = append(out,
			Scenario{Backend: "badger", Backend2: "badger", Type: "state", Seed: 1, Versions: []Version{
				{Fork: true, Pick: pick, Parents: []int{0, 1, 0}, Batches: [][]Op{{ins("ab", "x")}, {ins("ab", "")}, {ins("ab", "")}}},
				{Batches: [][]Op{{ins("c", "y")}}}}},
			Scenario{Backend: "badger", Backend2: "badger", Type: "state", Seed: 2, Versions: []Version{
				{Batches: [][]Op{{ins("ab", "q"), ins("b", "y")}}},
				{Fork: true, Pick: pick, Parents: []int{0, 0, 1}, Batches: [][]Op{{ins("ab", "x"), ins("abc", "z")}, {ins("ab", "x"), ins("abc", "z"), ins("ab", ""), {K: "rem", Key: hx([]byte("abc"))}}, {ins("ab", ""), {K: "rem", Key: hx([]byte("abc"))}}}}}})
	}
	// badger IO: empty -> i -> io inside one version with overlapping keys
	out = append(out, Scenario{Backend: "badger", Backend2: "badger", Type: "io", Seed: 3, Versions: []Version{
		{Batches: [][]Op{{ins("a", "1"), ins("ab", "2")}, {ins("a", "3"), {K: "rem", Key: hx([]byte("ab"))}, ins("b", "")}}}}})
	// pathbadger: re-insertion of the unchanged value of an embedded leaf (known finding)
	out = append(out, Scenario{Backend: "pathbadger", Backend2: "pathbadger", Type: "state", Seed: 4, Versions: []Version{
		{Batches: [][]Op{{ins("c", "")}}}, {Batches: [][]Op{{ins("ca", "")}}}, {Batches: [][]Op{{ins("c", "")}}}}})
	return out
}

// encScenarios: logs whose stored form needs the longer CBOR heads (>= 24 entries, entries of
// >= 24 and >= 256 bytes).
func encScenarios() []Scenario {
	var insAll, remAll []Op
	for i := 0; i < 30; i++ {
		k := hx([]byte(fmt.Sprintf("k%02d", i)))
		insAll = append(insAll, Op{K: "ins", Key: k, Val: hx([]byte("v"))})
		remAll = append(remAll, Op{K: "rem", Key: k})
	}
	for _, n := range []int{23, 24, 40, 255, 256, 300} {
		k := hx(bytes.Repeat([]byte("K"), n))
		insAll = append(insAll, Op{K: "ins", Key: k, Val: hx([]byte("w"))})
		remAll = append(remAll, Op{K: "rem", Key: k})
	}
	return []Scenario{{Backend: "pathbadger", Backend2: "pathbadger", Type: "state", Seed: 7,
		Versions: []Version{{Batches: [][]Op{insAll}}, {Batches: [][]Op{remAll}}, {Batches: [][]Op{insAll[:25]}}}}}
}

func violKind(s string) string {
	var sb strings.Builder
	for _, ch := range s {
		if ch < '0' || ch > '9' {
			sb.WriteRune(ch)
		}
	}
	w := sb.String()
	if i := strings.Index(w, ": "); i >= 0 {
		w = w[i+2:]
	}
	if len(w) > 60 {
		w = w[:60]
	}
	return w
}

func hasKind(res runResult, kind string) bool {
	for _, v := range res.violations {
		if violKind(v) == kind {
			return true
		}
	}
	return false
}

// shrink: fewer versions, then fewer operations, as long as a violation of the
// same kind remains (bounded number of re-runs; every run opens fresh
// databases).
func shrink(sc Scenario, kind string) Scenario {
	return shrinkWith(sc, func(c Scenario) bool { return hasKind(runScenario(c), kind) })
}

func shrinkWith(sc Scenario, pred func(Scenario) bool) Scenario {
	budget := 60
	try := func(c Scenario) bool {
		if budget <= 0 {
			return false
		}
		budget--
		return pred(c)
	}
	for len(sc.Versions) > 1 {
		c := sc
		c.Versions = sc.Versions[:len(sc.Versions)-1]
		if !try(c) {
			break
		}
		sc = c
	}
	for len(sc.Versions) > 1 && sc.Type == "io" {
		c := sc
		c.Versions = sc.Versions[1:]
		if !try(c) {
			break
		}
		sc = c
	}
	for i := 0; i < len(sc.Versions) && len(sc.Versions) > 1; i++ {
		c := cloneScenario(sc)
		c.Versions = append(c.Versions[:i], c.Versions[i+1:]...)
		if try(c) {
			sc = c
			i--
		}
	}
	for vi := range sc.Versions {
		for bi := range sc.Versions[vi].Batches {
			for i := 0; i < len(sc.Versions[vi].Batches[bi]); i++ {
				c := cloneScenario(sc)
				b := c.Versions[vi].Batches[bi]
				c.Versions[vi].Batches[bi] = append(append([]Op{}, b[:i]...), b[i+1:]...)
				if try(c) {
					sc = c
					i--
				}
			}
		}
	}
	return sc
}

func shrinkFinding(sc Scenario, key string) Scenario {
	has := func(c Scenario) bool {
		for _, f := range runScenario(c).findings {
			if f.key == key {
				return true
			}
		}
		return false
	}
	return shrinkWith(sc, has)
}

func cloneScenario(sc Scenario) Scenario {
	b, _ := json.Marshal(sc)
	var c Scenario
	_ = json.Unmarshal(b, &c)
	return c
}

func main() {
	seed := flag.Uint64("seed", 1, "seed")
	n := flag.Int("cases", 40, "number of generated scenarios")
	out := flag.String("out", "", "output directory")
	replay := flag.String("replay", "", "replay a case description (JSON file)")
	mode := flag.String("mode", "sync", "sync: write log / Apply cases; pblog: pathbadger internal write log cases")
	flag.Parse()
	if *out == "" {
		fmt.Fprintln(os.Stderr, "need -out")
		os.Exit(2)
	}
	hdr := "From Verif Require Import Lib.Base WriteLog.Model.\n"
	wb := coqout.NewWriter(*out, hdr, "run_case", "wobs_eqb", 10)
	if *mode == "pbstore" {
		lightMode, storeMode = true, true
		hdr = "From Verif Require Import Lib.Base WriteLog.Model WriteLog.PathLog WriteLog.PathStore.\n"
		wb = coqout.NewWriter(*out, hdr, "run_trace_case", "trace_eqb", 6)
	}
	if *mode == "pbenc" {
		lightMode, storeMode = true, true
		hdr = "From Verif Require Import Lib.Base WriteLog.Model WriteLog.PathLog WriteLog.LogCodec.\n"
		wb = coqout.NewWriter(*out, hdr, "encode_log", "bytes_eqb", 60)
	}
	if *mode == "pblog" {
		lightMode = true
		hdr = "From Verif Require Import Lib.Base WriteLog.Model WriteLog.PathLog.\n"
		wb = coqout.NewWriter(*out, hdr, "run_pbcase", "pbobs_eqb", 25)
	}
	sum := coqout.NewSummary("scenarios = 3-7 versions (40% of them with 2-3 competing candidate roots from the same parent, half of the extra candidates value-variants of the first, queried before and after finalizing a random one; the rest linear) over two real storage backends (badger/pathbadger in all four combinations; state roots chained across versions, IO roots rebuilt from the empty root with 1-2 hops per version); batches of 0-7 pattern instances (insert, overwrite same/other value, remove present/absent, remove-then-reinsert, insert-then-remove, empty value, repeated remove) over 16 keys with shared prefixes and 5 values incl. empty and 40 bytes; every pair of consecutive roots is one evaluation with 4-11 Apply attempts (corrupted logs first, the served log last); non-trivial = served log has >= 2 entries; distinct = distinct (start contents, batch) among those")
	var scs []Scenario
	if *replay != "" {
		b, err := os.ReadFile(*replay)
		if err != nil {
			panic(err)
		}
		var wrap struct {
			Case *Scenario `json:"case"`
			Desc *struct {
				Case *Scenario `json:"case"`
			} `json:"desc"`
		}
		var sc Scenario
		if json.Unmarshal(b, &wrap) == nil && wrap.Case != nil {
			sc = *wrap.Case
		} else if wrap.Desc != nil && wrap.Desc.Case != nil {
			sc = *wrap.Desc.Case
		} else if err := json.Unmarshal(b, &sc); err != nil {
			panic(err)
		}
		scs = []Scenario{sc}
	} else {
		if *mode == "sync" {
			scs = append(scs, regressionScenarios()...)
		}
		if *mode == "pbenc" {
			scs = append(scs, encScenarios()...)
		}
		if *mode == "pbstore" {
			scs = append(scs, Scenario{SeqBurn: true, Backend: "pathbadger", Backend2: "pathbadger", Type: "state"})
		}
		r := prng.New(*seed)
		for i := 0; i < *n; i++ {
			sc := genScenario(r.Fork(), i, func(k string) { sum.Count("pattern", k) })
			if *mode == "pblog" || *mode == "pbstore" || *mode == "pbenc" {
				sc.Backend = "pathbadger"
				for vi := range sc.Versions {
					sc.Versions[vi].Parents = nil // pathbadger has no child roots inside a version
				}
				if sc.Type == "io" {
					for vi := range sc.Versions {
						if !sc.Versions[vi].Fork && len(sc.Versions[vi].Batches) > 1 {
							sc.Versions[vi].Batches = sc.Versions[vi].Batches[:1]
						}
					}
				}
			}
			scs = append(scs, sc)
		}
	}
	seen := map[string]bool{}
	shrunk := 0 // every shrink re-runs the scenario on fresh databases: only the first few are minimised
	for _, sc := range scs {
		res := runScenario(sc)
		sum.Count("scenario", sc.Backend+"->"+sc.Backend2+":"+sc.Type)
		for k, v := range res.hist {
			parts := strings.SplitN(k, ":", 2)
			for j := 0; j < v; j++ {
				sum.Count(parts[0], parts[1])
			}
		}
		for _, p := range res.pairs {
			if p.pb != (*mode == "pblog") || p.store != (*mode == "pbstore") || p.enc != (*mode == "pbenc") {
				continue
			}
			sum.Evaluations++
			wb.Add(p.coq, p.desc)
			if p.nontriv && !seen[p.key] {
				seen[p.key] = true
				sum.DistinctNontrivial++
			}
		}
		sum.Sample(sc, 2)
		seenKeys := map[string]bool{}
		for _, f := range res.findings {
			if seenKeys[f.key] {
				continue
			}
			seenKeys[f.key] = true
			small := sc
			if shrunk < 3 {
				shrunk++
				small = shrinkFinding(sc, f.key)
			}
			sum.Findings = append(sum.Findings, coqout.Finding{Key: f.key, What: f.what, Replay: map[string]any{"case": small}})
		}
		if len(res.violations) > 0 {
			kind := violKind(res.violations[0])
			small := sc
			if len(sum.Violations) >= 20 {
				continue
			}
			if shrunk < 3 {
				shrunk++
				small = shrink(sc, kind)
			}
			what := res.violations[0]
			if r2 := runScenario(small); len(r2.violations) > 0 {
				for _, v := range r2.violations {
					if violKind(v) == kind {
						what = v
						break
					}
				}
			}
			sum.Violations = append(sum.Violations, map[string]any{"what": what, "case": small})
		}
	}
	wb.Close()
	sum.Write(*out)
}
