package main

import (
	"bytes"
	"context"
	"fmt"

	"github.com/oasisprotocol/oasis-core/go/common/cbor"
	consensus "github.com/oasisprotocol/oasis-core/go/consensus/api"
	cmtconsensus "github.com/oasisprotocol/oasis-core/go/consensus/cometbft/consensus"
	"github.com/oasisprotocol/oasis-core/go/consensus/cometbft/light"
	"github.com/oasisprotocol/oasis-core/go/consensus/cometbft/stateless"
	"github.com/oasisprotocol/oasis-core/go/storage/mkvs/syncer"

	"verifharness/internal/coqout"
	"verifharness/internal/muxdrv"
)

// State reads end to end: Core.GetParameters with the REAL light query factory
// (consensus.NewLightQueryFactory(core, provider.State())): the oasis
// parameters are read from the executed multiplexer state through a remote
// mkvs tree rooted at Core.StateRoot(height) (next verified header's AppHash,
// or the metadata transaction at the latest height), the provider's storage
// being the untrusted read syncer.  Oracle only (no Coq case: the mkvs proof
// verifier is another property's model): honest -> accepted; provider state
// tampered with -> an error or the same value, never a different value.

type stateProvider struct {
	apiProvider
	state syncer.ReadSyncer
	txs   map[int64][][]byte
}

func (p *stateProvider) State() syncer.ReadSyncer { return p.state }
func (p *stateProvider) GetTransactions(_ context.Context, h int64) ([][]byte, error) {
	return p.txs[h], nil
}

// tamperSyncer flips one byte in the last proof entry of every response.
type tamperSyncer struct {
	syncer.ReadSyncer
	at int
}

func (t *tamperSyncer) SyncGet(ctx context.Context, req *syncer.GetRequest) (*syncer.ProofResponse, error) {
	rsp, err := t.ReadSyncer.SyncGet(ctx, req)
	if err == nil && len(rsp.Proof.Entries) > 0 {
		cp := *rsp
		cp.Proof.Entries = append([][]byte{}, rsp.Proof.Entries...)
		i := t.at % len(cp.Proof.Entries)
		e := append([]byte{}, cp.Proof.Entries[i]...)
		if len(e) > 0 {
			e[(t.at*7)%len(e)] ^= 0x10
		}
		cp.Proof.Entries[i] = e
		return &cp, nil
	}
	return rsp, err
}

func muxStateReads(sum *coqout.Summary, tps []*tuple, rep *muxdrv.Replica) {
	defer func() {
		if p := recover(); p != nil {
			sum.Violations = append(sum.Violations, map[string]any{"what": "state read through the public API panicked: " + fmt.Sprint(p) + " @ " + panicSite(), "case": map[string]any{"kind": "mux-state-read"}})
		}
	}()
	var c BCase
	txs := map[int64][][]byte{}
	for _, tp := range tps {
		c.Chain = append(c.Chain, tp.header)
		txs[tp.height] = tp.txs
	}
	lc := must(light.VerifNewClientWithTrustedLightBlocks(chainLightBlocks(c)))
	ctx := context.Background()
	run := func(tp *tuple, params *consensus.Parameters, st syncer.ReadSyncer) (*consensus.Parameters, error) {
		prov := &stateProvider{apiProvider: apiProvider{c: BCase{Params: params}}, state: st, txs: txs}
		core := stateless.NewCore(prov, lc, stateless.Config{})
		core.SetQueriers(nil, cmtconsensus.NewLightQueryFactory(core, st), nil)
		return core.GetParameters(ctx, tp.height)
	}
	store := rep.Srv.State().Storage()
	for i, tp := range tps {
		if tp.params == nil {
			continue
		}
		where := fmt.Sprintf("height latest-%d", len(tps)-1-i)
		viol := func(what string) {
			sum.Violations = append(sum.Violations, map[string]any{"what": what + " (" + where + ")", "case": map[string]any{"kind": "mux-state-read", "height": tp.height}})
		}
		if _, err := run(tp, tp.params, store); err != nil {
			sum.Count("state_read", "honest-rejected")
			viol("harness error: honest parameters with honest state rejected: " + err.Error())
		} else {
			sum.Count("state_read", "honest-accepted")
		}
		alt := *tp.params
		alt.Parameters.MinGasPrice += 3
		if _, err := run(tp, &alt, store); err == nil {
			viol("GetParameters accepted oasis parameters that differ from the verified state")
		} else {
			sum.Count("state_read", "altered-parameters-rejected")
		}
		for k := 0; k < 6; k++ {
			got, err := run(tp, tp.params, &tamperSyncer{ReadSyncer: store, at: k + 3*i})
			switch {
			case err != nil:
				sum.Count("state_read", "tampered-proof-rejected")
			case bytes.Equal(cbor.Marshal(got.Parameters), cbor.Marshal(tp.params.Parameters)):
				sum.Count("state_read", "tampered-proof-harmless")
			default:
				viol("a tampered state proof changed the parameters read from state")
			}
		}
		// state of another height served for this one
		if i > 0 {
			other := *tps[i-1].params
			other.Height = tp.height
			if _, err := run(tp, &other, store); err == nil && !bytes.Equal(cbor.Marshal(other.Parameters), cbor.Marshal(tp.params.Parameters)) {
				viol("GetParameters accepted parameters of another height")
			}
		}
	}
}
