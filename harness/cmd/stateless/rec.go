package main

import (
	"crypto/sha256"
	"fmt"
	"math/bits"
	"strings"

	"verifharness/internal/coqout"
)

// rec is the recording reference: an independent re-statement of the simple
// Merkle tree that remembers every (preimage, digest) pair it computes with
// the real SHA-256, so that the Coq model can be evaluated with a finite
// hash table.
type rec struct {
	seen  map[string]bool
	pairs [][2][]byte
}

func newRec() *rec { return &rec{seen: map[string]bool{}} }

func (r *rec) H(x []byte) []byte {
	d := sha256.Sum256(x)
	if !r.seen[string(x)] {
		r.seen[string(x)] = true
		r.pairs = append(r.pairs, [2][]byte{append([]byte{}, x...), d[:]})
	}
	return d[:]
}

func (r *rec) leaf(x []byte) []byte { return r.H(append([]byte{0}, x...)) }
func (r *rec) inner(a, b []byte) []byte {
	return r.H(append(append([]byte{1}, a...), b...))
}

func splitPoint(n uint64) uint64 {
	k := uint64(1) << uint(bits.Len64(n)-1)
	if k == n {
		k >>= 1
	}
	return k
}

func (r *rec) root(items [][]byte) []byte {
	switch len(items) {
	case 0:
		return r.H(nil)
	case 1:
		return r.leaf(items[0])
	}
	k := splitPoint(uint64(len(items)))
	return r.inner(r.root(items[:k]), r.root(items[k:]))
}

func (r *rec) hashAll(txs [][]byte) [][]byte {
	out := make([][]byte, len(txs))
	for i, t := range txs {
		out[i] = r.H(t)
	}
	return out
}

func (r *rec) txRoot(txs [][]byte) []byte { return r.root(r.hashAll(txs)) }

// aunts of leaf i, bottom-up.
func (r *rec) aunts(items [][]byte, i int) [][]byte {
	if len(items) <= 1 {
		return nil
	}
	k := int(splitPoint(uint64(len(items))))
	if i < k {
		return append(r.aunts(items[:k], i), r.root(items[k:]))
	}
	return append(r.aunts(items[k:], i-k), r.root(items[:k]))
}

// computeFromAunts mirrors the model (not the Go code) closely enough to
// record the digests the model will ask for.
func (r *rec) computeFromAunts(index, total int64, leaf []byte, aunts [][]byte) ([]byte, bool) {
	if index >= total || index < 0 || total <= 0 {
		return nil, false
	}
	if total == 1 {
		if len(aunts) != 0 {
			return nil, false
		}
		return leaf, true
	}
	if len(aunts) == 0 {
		return nil, false
	}
	k := int64(splitPoint(uint64(total)))
	last := aunts[len(aunts)-1]
	if index < k {
		l, ok := r.computeFromAunts(index, k, leaf, aunts[:len(aunts)-1])
		if !ok {
			return nil, false
		}
		return r.inner(l, last), true
	}
	rr, ok := r.computeFromAunts(index-k, total-k, leaf, aunts[:len(aunts)-1])
	if !ok {
		return nil, false
	}
	return r.inner(last, rr), true
}

// verifyTx records what verify_tx of the model evaluates.
func (r *rec) verifyTx(p *proofJ, tx []byte) {
	h := r.H(tx)
	r.leaf(h)
	if p != nil {
		r.computeFromAunts(p.Index, p.Total, p.LeafHash, p.Aunts)
	}
}

func (r *rec) coq() string {
	items := make([]string, len(r.pairs))
	for i, p := range r.pairs {
		items[i] = "(" + coqout.Bytes(p[0]) + ", " + coqout.Bytes(p[1]) + ")"
	}
	return coqout.List(items)
}

// ---------- Coq term helpers ----------
func zs(v int64) string { return fmt.Sprintf("(%d)%%Z", v) }
func ns(v uint64) string { return fmt.Sprintf("%d", v) }
func bytesList(bs [][]byte) string {
	items := make([]string, len(bs))
	for i, b := range bs {
		items[i] = coqout.Bytes(b)
	}
	return coqout.List(items)
}
func optBytes(b []byte) string { return coqout.OptBytes(b, b != nil) }

type proofJ struct {
	Total    int64    `json:"total"`
	Index    int64    `json:"index"`
	LeafHash []byte   `json:"leaf_hash"`
	Aunts    [][]byte `json:"aunts"`
}

func (p *proofJ) coq() string {
	return fmt.Sprintf("(mkProof %s %s %s %s)", zs(p.Total), zs(p.Index), coqout.Bytes(p.LeafHash), bytesList(p.Aunts))
}
func optProof(p *proofJ) string {
	if p == nil {
		return "None"
	}
	return "(Some " + p.coq() + ")"
}

func merkleVerdict(err error) string {
	if err == nil {
		return "MOk"
	}
	s := err.Error()
	switch {
	case strings.Contains(s, "invalid root hash: cannot be nil"):
		return "MNilRoot"
	case strings.Contains(s, "proof total must be positive"):
		return "MTotalNeg"
	case strings.Contains(s, "proof index cannot be negative"):
		return "MIndexNeg"
	case strings.Contains(s, "invalid leaf hash"):
		return "MLeafHash"
	case strings.Contains(s, "compute root hash"):
		return "MCompute"
	case strings.Contains(s, "invalid root hash: wanted"):
		return "MRoot"
	default:
		return "MDecode"
	}
}
