package main

import (
	"crypto/sha256"
	"encoding/hex"
	"fmt"
	"math/bits"
	"strings"

	"verifharness/internal/coqout"
)

// rec is the recording reference: an independent re-statement of the simple
// Merkle tree that remembers every (preimage, digest) pair it computes with
// the real SHA-256, so that the Coq model can be evaluated with a finite
// hash table.
type rec struct {
	seen  map[string]bool
	pairs []pair // preimage parts, digest
}

type pair struct {
	parts [][]byte
	d     []byte
}

func newRec() *rec { return &rec{seen: map[string]bool{}} }

func (r *rec) hp(parts ...[]byte) []byte {
	var x []byte
	for _, p := range parts {
		x = append(x, p...)
	}
	d := sha256.Sum256(x)
	if !r.seen[string(x)] {
		r.seen[string(x)] = true
		cp := make([][]byte, len(parts))
		for i, p := range parts {
			cp[i] = append([]byte{}, p...)
		}
		r.pairs = append(r.pairs, pair{cp, d[:]})
	}
	return d[:]
}

func (r *rec) H(x []byte) []byte        { return r.hp(x) }
func (r *rec) leaf(x []byte) []byte     { return r.hp([]byte{0}, x) }
func (r *rec) inner(a, b []byte) []byte { return r.hp([]byte{1}, a, b) }

func splitPoint(n uint64) uint64 {
	k := uint64(1) << uint(bits.Len64(n)-1)
	if k == n {
		k >>= 1
	}
	return k
}

func (r *rec) root(items [][]byte) []byte {
	switch len(items) {
	case 0:
		return r.H(nil)
	case 1:
		return r.leaf(items[0])
	}
	k := splitPoint(uint64(len(items)))
	return r.inner(r.root(items[:k]), r.root(items[k:]))
}

func (r *rec) hashAll(txs [][]byte) [][]byte {
	out := make([][]byte, len(txs))
	for i, t := range txs {
		out[i] = r.H(t)
	}
	return out
}

func (r *rec) txRoot(txs [][]byte) []byte { return r.root(r.hashAll(txs)) }

// aunts of leaf i, bottom-up.
func (r *rec) aunts(items [][]byte, i int) [][]byte {
	if len(items) <= 1 {
		return nil
	}
	k := int(splitPoint(uint64(len(items))))
	if i < k {
		return append(r.aunts(items[:k], i), r.root(items[k:]))
	}
	return append(r.aunts(items[k:], i-k), r.root(items[:k]))
}

// computeFromAunts mirrors the model (not the Go code) closely enough to
// record the digests the model will ask for.
func (r *rec) computeFromAunts(index, total int64, leaf []byte, aunts [][]byte) ([]byte, bool) {
	if index >= total || index < 0 || total <= 0 {
		return nil, false
	}
	if total == 1 {
		if len(aunts) != 0 {
			return nil, false
		}
		return leaf, true
	}
	if len(aunts) == 0 {
		return nil, false
	}
	k := int64(splitPoint(uint64(total)))
	last := aunts[len(aunts)-1]
	if index < k {
		l, ok := r.computeFromAunts(index, k, leaf, aunts[:len(aunts)-1])
		if !ok {
			return nil, false
		}
		return r.inner(l, last), true
	}
	rr, ok := r.computeFromAunts(index-k, total-k, leaf, aunts[:len(aunts)-1])
	if !ok {
		return nil, false
	}
	return r.inner(last, rr), true
}

// verifyTx records what verify_tx of the model evaluates.
func (r *rec) verifyTx(p *proofJ, tx []byte) {
	h := r.H(tx)
	r.leaf(h)
	if p != nil {
		r.computeFromAunts(p.Index, p.Total, p.LeafHash, p.Aunts)
	}
}

func (r *rec) coq(t *tb) string {
	items := make([]string, len(r.pairs))
	for i, p := range r.pairs {
		var ps []string
		for _, part := range p.parts {
			if len(part) > 0 {
				ps = append(ps, t.B(part))
			}
		}
		pre := "(@nil N)"
		if len(ps) > 0 {
			pre = "(" + strings.Join(ps, " ++ ") + ")"
		}
		items[i] = "(" + pre + ", " + t.B(p.d) + ")"
	}
	return coqout.List(items)
}

// tb builds one case term: byte strings of 16 bytes or more are let-bound
// once (digests recur in tables, proofs and preimages) and written as
// primitive-integer words (Stateless/Hex.v).
type tb struct {
	names map[string]string
	order []string // names in definition order
	lits  []string // literal of each name
}

func newTB() *tb { return &tb{names: map[string]string{}} }

func hbLit(b []byte) string {
	if len(b) == 0 {
		return "(@nil N)"
	}
	if len(b) == 1 {
		return fmt.Sprintf("[%d]", b[0])
	}
	var ws []string
	for i := 0; i < len(b); i += 7 {
		j := i + 7
		if j > len(b) {
			j = len(b)
		}
		ws = append(ws, "0x"+hex.EncodeToString(b[i:j]))
	}
	return fmt.Sprintf("(hb %d [%s]%%uint63)", len(b), strings.Join(ws, ";"))
}

func (t *tb) B(b []byte) string {
	if len(b) < 16 {
		return hbLit(b)
	}
	if n, ok := t.names[string(b)]; ok {
		return n
	}
	n := fmt.Sprintf("«%d»", len(t.names))
	t.names[string(b)] = n
	t.order = append(t.order, n)
	t.lits = append(t.lits, hbLit(b))
	return n
}

// names are written «k» in the term and renamed when the term is emitted.
func (t *tb) rename(prefix, term string) string {
	return strings.NewReplacer("«", prefix+"d", "»", "").Replace(term)
}

// wrap gives the self-contained form of a case: nested lets.
func (t *tb) wrap(term string) string {
	var sb strings.Builder
	sb.WriteString("(")
	for i, n := range t.order {
		sb.WriteString("let " + n + " := " + t.lits[i] + " in\n")
	}
	sb.WriteString(term + ")")
	return t.rename("", sb.String())
}

func (t *tb) list(bs [][]byte) string {
	items := make([]string, len(bs))
	for i, b := range bs {
		items[i] = t.B(b)
	}
	return coqout.List(items)
}
func (t *tb) opt(b []byte) string {
	if b == nil {
		return "None"
	}
	return "(Some " + t.B(b) + ")"
}

// ---------- Coq term helpers ----------
func zs(v int64) string  { return fmt.Sprintf("(%d)%%Z", v) }
func ns(v uint64) string { return fmt.Sprintf("%d", v) }

type proofJ struct {
	Total    int64    `json:"total"`
	Index    int64    `json:"index"`
	LeafHash []byte   `json:"leaf_hash"`
	Aunts    [][]byte `json:"aunts"`
}

func (p *proofJ) coq(t *tb) string {
	return fmt.Sprintf("(mkProof %s %s %s %s)", zs(p.Total), zs(p.Index), t.B(p.LeafHash), t.list(p.Aunts))
}
func optProof(t *tb, p *proofJ) string {
	if p == nil {
		return "None"
	}
	return "(Some " + p.coq(t) + ")"
}

func merkleVerdict(err error) string {
	if err == nil {
		return "MOk"
	}
	s := err.Error()
	switch {
	case strings.Contains(s, "invalid root hash: cannot be nil"):
		return "MNilRoot"
	case strings.Contains(s, "proof total must be positive"):
		return "MTotalNeg"
	case strings.Contains(s, "proof index cannot be negative"):
		return "MIndexNeg"
	case strings.Contains(s, "invalid leaf hash"):
		return "MLeafHash"
	case strings.Contains(s, "compute root hash"):
		return "MCompute"
	case strings.Contains(s, "invalid root hash: wanted"):
		return "MRoot"
	default:
		return "MDecode"
	}
}
