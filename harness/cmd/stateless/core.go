package main

import (
	"bytes"
	"context"
	"fmt"
	"time"

	cmted "github.com/cometbft/cometbft/crypto/ed25519"
	cmttypes "github.com/cometbft/cometbft/types"

	"github.com/oasisprotocol/oasis-core/go/common/cbor"
	"github.com/oasisprotocol/oasis-core/go/common/crypto/hash"
	consensus "github.com/oasisprotocol/oasis-core/go/consensus/api"
	cmtapi "github.com/oasisprotocol/oasis-core/go/consensus/cometbft/api"
	"github.com/oasisprotocol/oasis-core/go/consensus/cometbft/full"
	"github.com/oasisprotocol/oasis-core/go/consensus/cometbft/stateless"

	"verifharness/internal/prng"
)

// The public Core methods (GetBlockResults, GetTransactionsWithResults,
// StateRoot) over a real light.Client whose trusted store is preloaded with a
// chain of consecutive light blocks (verif seam
// light.VerifNewClientWithTrustedLightBlocks) and an untrusted provider stub.

// stubProvider is the untrusted provider: it serves one (possibly altered)
// results / transactions response whatever height is asked for; every other
// method panics through the nil embedded interface.
type stubProvider struct {
	consensus.Backend
	results *consensus.BlockResults
	txs     [][]byte
}

func (p *stubProvider) GetBlockResults(context.Context, int64) (*consensus.BlockResults, error) {
	if p.results == nil {
		return nil, consensus.ErrVersionNotFound
	}
	cp := *p.results
	return &cp, nil
}

func (p *stubProvider) GetTransactions(context.Context, int64) ([][]byte, error) {
	return p.txs, nil
}

func runCore(res *bresult, c BCase, lb *cmttypes.LightBlock, t *tb, r *rec) (q, out string, accept bool) {
	lc, lbs, _ := caseLightClient(c)
	var next *cmttypes.LightBlock
	for _, x := range lbs {
		if x.Height == c.Height+1 {
			next = x
		}
	}
	last := lbs[len(lbs)-1].Height
	core := stateless.NewCore(&stubProvider{results: c.Results, txs: c.Txs}, lc, stateless.Config{})
	ctx := context.Background()
	bad := func(what string) {
		res.violation = fmt.Sprintf("%s (%s / %s, height = latest trusted - %d)", what, c.Kind, c.Alter, last-c.Height)
	}
	nrh := "None"
	if next != nil {
		nrh = "(Some " + t.opt(next.LastResultsHash) + ")"
	}
	resultsOracle := func(a resultsAbs) {
		h := absResults(c.Honest.Results)
		if a.height != h.height || !eqLists(a.det, h.det) {
			if c.Height < last {
				bad("altered hash-covered transaction results accepted below the latest trusted height")
			} else {
				res.free = append(res.free, "TxsResults at the latest trusted height")
			}
		}
	}
	switch c.Kind {
	case "core-results":
		_, err := core.GetBlockResults(ctx, c.Height)
		res.verdict = bindVerdict(c.Kind, err)
		a := absResults(c.Results)
		q = fmt.Sprintf("QCoreResults %s %s %s", zs(last), a.coq(t, r), nrh)
		if err == nil {
			accept = true
			resultsOracle(a)
		}
	case "core-txresults":
		_, err := core.GetTransactionsWithResults(ctx, c.Height)
		res.verdict = bindVerdict(c.Kind, err)
		a := absResults(c.Results)
		r.txRoot(c.Txs)
		// the conversion of the results is abstract in the model
		convOK := true
		if meta, e := cmtapi.NewBlockResultsMeta(c.Results); e == nil {
			func() {
				defer func() {
					if recover() != nil {
						convOK = false
					}
				}()
				_, e2 := full.TransactionResultsFromCometBFT(c.Height, c.Txs, meta.TxsResults)
				convOK = e2 == nil
			}()
		}
		q = fmt.Sprintf("QCoreTxResults %s %s %s %s %s", zs(last), t.list(c.Txs), a.coq(t, r), nrh, map[bool]string{true: "true", false: "false"}[convOK])
		if err == nil {
			accept = true
			if !eqLists(c.Txs, c.Honest.Txs) {
				bad("GetTransactionsWithResults accepted an altered transaction list")
			}
			resultsOracle(a)
		}
	case "core-stateroot":
		root, err := core.StateRoot(ctx, c.Height)
		m := "MtBadSigned"
		if len(c.Txs) > 0 {
			m = absMetaTx(c.Txs[len(c.Txs)-1])
		}
		r.txRoot(c.Txs)
		nx := "None"
		if next != nil {
			nx = "(Some " + lbCoq(t, next) + ")"
		}
		q = fmt.Sprintf("QCoreStateRoot %s %s %s", nx, t.list(c.Txs), m)
		if err == nil {
			accept = true
			res.verdict = "SrOk"
			out = "(SrOk " + t.B(root.Hash[:]) + ")"
			if uint64(c.Height) != root.Version {
				bad("StateRoot returned a root for another version")
			}
			if !bytes.Equal(root.Hash[:], c.Honest.ResultsHash) { // Honest.ResultsHash carries the honest state root here
				bad("StateRoot returned a state root that differs from the one bound to the verified headers")
			}
		} else {
			res.verdict = bindVerdict(c.Kind, err)
		}
	}
	return q, out, accept
}

// genCoreCases builds a chain of consecutive heights base .. base+n-1 (the
// last one is the latest trusted height) and, for the heights latest-2,
// latest-1 and latest, genuine and altered provider responses.
func genCoreCases(r *prng.R, idx int) []BCase {
	bases := []int64{1, 40, 25300000, 1 << 40}
	base := bases[idx%len(bases)]
	n := 3 + idx%2
	var tps []*tuple
	appHash, lrh := r.Bytes(32), r.Bytes(32)
	// a signed chain: five validator keys, the set alternates between {0,1,2,3} and {0,1,2,4}
	var privs []cmted.PrivKey
	keys := map[string]cmted.PrivKey{}
	for k := 0; k < 5; k++ {
		p := cmted.GenPrivKeyFromSecret(r.Bytes(16))
		privs = append(privs, p)
		keys[string(p.PubKey().Address())] = p
	}
	setAt := func(i int) *cmttypes.ValidatorSet {
		ix := []int{0, 1, 2, 3}
		if i%2 == 1 {
			ix = []int{0, 1, 2, 4}
		}
		var vs []*cmttypes.Validator
		for _, k := range ix {
			vs = append(vs, cmttypes.NewValidator(privs[k].PubKey(), int64(10+k)))
		}
		return cmttypes.NewValidatorSet(vs)
	}
	link := &chainLink{ts: time.Unix(1_700_000_000+int64(r.Intn(1000000)), 0).UTC()}
	if base > 1 {
		link.lastBlockID = cmttypes.BlockID{Hash: r.Bytes(32), PartSetHeader: cmttypes.PartSetHeader{Total: 1, Hash: r.Bytes(32)}}
	}
	for i := 0; i < n; i++ {
		if i == n-1 && idx%3 == 2 {
			appHash = appHash[:31] // malformed app hash in the latest header: height latest-1 falls back to the metadata transaction
		}
		link.vals, link.nextVals = setAt(i), setAt(i+1)
		tp := mkTupleAt(r.Fork(), fmt.Sprintf("chain-%d-%d", idx, i), base+int64(i), appHash, lrh, link)
		cm := signCommit(&tp.hdr, link.vals, keys)
		tp.commit = must(cm.ToProto().Marshal())
		tps = append(tps, tp)
		appHash, lrh = tp.root, tp.resultsHash
		link = &chainLink{lastBlockID: cm.BlockID, lastCommit: cm, ts: link.ts.Add(6 * time.Second)}
	}
	return chainCases(r, tps)
}

// chainCases: for every height of a chain of consecutive tuples (the last one
// is the latest trusted height) the public-API twins of the verify cases and
// the Core-level results / state-root cases.
func chainCases(r *prng.R, tps []*tuple) []BCase {
	n := len(tps)
	var chain [][]byte
	for _, tp := range tps {
		chain = append(chain, tp.header)
	}
	var vals, commits [][]byte
	for _, tp := range tps {
		vals = append(vals, tp.valsProto)
		if tp.commit != nil {
			commits = append(commits, tp.commit)
		}
	}
	if len(commits) != len(tps) {
		commits = nil
	}
	cs := apiTwins(r.Fork(), tps, chain, vals)
	for i := 0; i < n; i++ {
		tp := tps[i]
		mk := func(kind, label string, rs *consensus.BlockResults, txs [][]byte, honest *BCase) {
			cs = append(cs, BCase{Kind: kind, Alter: label, Header: tp.header, Chain: chain, Height: tp.height, Results: rs, Txs: txs, Honest: honest})
		}
		hon := &BCase{Kind: "core", Alter: "genuine", Results: tp.results, Txs: tp.txs, ResultsHash: tp.root}
		nres := 0
		if m, err := cmtapi.NewBlockResultsMeta(tp.results); err == nil {
			nres = len(m.TxsResults)
		}
		alts := []struct {
			label string
			rs    *consensus.BlockResults
		}{
			{"genuine", tp.results},
			{"result-code-changed", alterResults(tp.results, func(m *cmtapi.BlockResultsMeta) {
				j := r.Intn(nres)
				c := *m.TxsResults[j]
				c.Code ^= 1
				m.TxsResults[j] = &c
			})},
			{"result-gasused+1000", alterResults(tp.results, func(m *cmtapi.BlockResultsMeta) {
				j := r.Intn(nres)
				c := *m.TxsResults[j]
				c.GasUsed += 1000
				m.TxsResults[j] = &c
			})},
			{"result-data-changed", alterResults(tp.results, func(m *cmtapi.BlockResultsMeta) {
				j := r.Intn(nres)
				c := *m.TxsResults[j]
				c.Data = append(append([]byte{}, c.Data...), 1)
				m.TxsResults[j] = &c
			})},
			{"result-log-changed", alterResults(tp.results, func(m *cmtapi.BlockResultsMeta) {
				j := r.Intn(nres)
				c := *m.TxsResults[j]
				c.Log += "!"
				m.TxsResults[j] = &c
			})},
			{"result-dropped", alterResults(tp.results, func(m *cmtapi.BlockResultsMeta) { m.TxsResults = m.TxsResults[:nres-1] })},
			{"result-duplicated", alterResults(tp.results, func(m *cmtapi.BlockResultsMeta) { m.TxsResults = append(m.TxsResults, m.TxsResults[0]) })},
			{"results-of-other-height", func() *consensus.BlockResults {
				o := tps[(i+1)%n].results
				return &consensus.BlockResults{Height: tp.results.Height, Meta: o.Meta}
			}()},
			{"height+1", &consensus.BlockResults{Height: tp.results.Height + 1, Meta: tp.results.Meta}},
			{"height-1", &consensus.BlockResults{Height: tp.results.Height - 1, Meta: tp.results.Meta}},
			{"meta-garbage", &consensus.BlockResults{Height: tp.results.Height, Meta: r.Bytes(1 + r.Intn(12))}},
		}
		for _, a := range alts {
			mk("core-results", a.label, a.rs, tp.txs, hon)
			mk("core-txresults", a.label, a.rs, tp.txs, hon)
		}
		// transactions altered (GetTransactionsWithResults, StateRoot)
		flipped := make([][]byte, len(tp.txs))
		copy(flipped, tp.txs)
		j := r.Intn(len(flipped))
		flipped[j] = flip(flipped[j], r.Intn(4096))
		mk("core-txresults", "tx-bitflip", tp.results, flipped, hon)
		mk("core-txresults", "tx-dropped", tp.results, tp.txs[:len(tp.txs)-1], hon)
		mk("core-stateroot", "genuine", nil, tp.txs, hon)
		mk("core-stateroot", "tx-bitflip", nil, flipped, hon)
		mk("core-stateroot", "txs-empty", nil, nil, hon)
		// a forged (unsigned) metadata transaction with another root appended
		forged := append(append([][]byte{}, tp.txs...), cborMetaTx(r, r.Bytes(32)))
		mk("core-stateroot", "forged-meta-tx-appended", nil, forged, hon)
		mk("core-stateroot", "only-forged-meta-tx", nil, forged[len(forged)-1:], hon)
	}
	// signed chains: the light client runs over in-memory providers
	for k := range cs {
		cs[k].ChainVals, cs[k].ChainCommits = vals, commits
	}
	if commits != nil {
		// a forged light block (corrupted commit signatures) at the requested height
		tp := tps[n-1]
		if tp.block != nil {
			hb := &BCase{Block: tp.block, Txs: tp.txs}
			for _, f := range []string{"primary", "all"} {
				cs = append(cs,
					BCase{Kind: "api-block", Alter: "light-block-forged-at-" + f, Forge: f, Header: tp.header, Chain: chain, ChainVals: vals, ChainCommits: commits, Height: tp.height, Block: tp.block, Honest: hb},
					BCase{Kind: "api-txs", Alter: "light-block-forged-at-" + f, Forge: f, Header: tp.header, Chain: chain, ChainVals: vals, ChainCommits: commits, Height: tp.height, Txs: tp.txs, Honest: hb})
			}
		}
	}
	return cs
}

func alterResults(rs *consensus.BlockResults, f func(m *cmtapi.BlockResultsMeta)) *consensus.BlockResults {
	m := must(cmtapi.NewBlockResultsMeta(rs))
	f(m)
	return &consensus.BlockResults{Height: rs.Height, Meta: cbor.Marshal(m)}
}

func cborMetaTx(r *prng.R, root []byte) []byte {
	var h hash.Hash
	copy(h[:], root)
	return cbor.Marshal(metaTx(r, h))
}
