package main

import (
	"bytes"
	"context"
	"encoding/binary"
	"encoding/json"
	"errors"
	"fmt"
	"os"
	"path/filepath"
	"runtime/debug"
	"sort"
	"strings"
	"time"

	abci "github.com/cometbft/cometbft/abci/types"
	cmted "github.com/cometbft/cometbft/crypto/ed25519"
	cmtproto "github.com/cometbft/cometbft/proto/tendermint/types"
	cmtversion "github.com/cometbft/cometbft/proto/tendermint/version"
	cmtcoretypes "github.com/cometbft/cometbft/rpc/core/types"
	cmttypes "github.com/cometbft/cometbft/types"

	"github.com/oasisprotocol/oasis-core/go/common/cbor"
	"github.com/oasisprotocol/oasis-core/go/common/crypto/hash"
	"github.com/oasisprotocol/oasis-core/go/common/crypto/signature"
	memsigner "github.com/oasisprotocol/oasis-core/go/common/crypto/signature/signers/memory"
	consensus "github.com/oasisprotocol/oasis-core/go/consensus/api"
	"github.com/oasisprotocol/oasis-core/go/consensus/api/transaction"
	cmtapi "github.com/oasisprotocol/oasis-core/go/consensus/cometbft/api"
	cmtconsensus "github.com/oasisprotocol/oasis-core/go/consensus/cometbft/consensus"
	"github.com/oasisprotocol/oasis-core/go/consensus/cometbft/light"
	"github.com/oasisprotocol/oasis-core/go/consensus/cometbft/stateless"
	genesis "github.com/oasisprotocol/oasis-core/go/consensus/genesis"

	"verifharness/internal/coqout"
	"verifharness/internal/muxdrv"
	"verifharness/internal/prng"
)

// BCase is one call of one verification function of the stateless backend.
type BCase struct {
	Kind   string `json:"kind"`   // block results txs txproof validators params stateroot
	Alter  string `json:"alter"`  // label of the alteration ("genuine" for none)
	Header []byte `json:"header"` // protobuf of the light block's (verified) header

	Block        *consensus.Block               `json:"block,omitempty"`
	Results      *consensus.BlockResults        `json:"results,omitempty"`
	ResultsHash  []byte                         `json:"results_hash"`
	Txs          [][]byte                       `json:"txs,omitempty"`
	Proof        []byte                         `json:"proof,omitempty"`
	Tx           *transaction.SignedTransaction `json:"tx,omitempty"`
	Validators   *consensus.Validators          `json:"validators,omitempty"`
	Params       *consensus.Parameters          `json:"params,omitempty"`
	StateParams  *genesis.Parameters            `json:"state_params,omitempty"`  // nil: the state query fails
	Chain        [][]byte                       `json:"chain,omitempty"`         // core-*: headers of the preloaded trusted light blocks, ascending
	Height       int64                          `json:"height,omitempty"`        // core-*/api-*: requested height
	ChainCommits [][]byte                       `json:"chain_commits,omitempty"` // signed chains: protobuf commit of every header; the light client then runs over in-memory providers with Chain[0] as trust root
	Forge        string                         `json:"forge,omitempty"`         // signed chains: "primary" / "all": providers serve a light block with corrupted signatures at Height
	ChainVals    [][]byte                       `json:"chain_vals,omitempty"`    // api-*: protobuf validator set of every preloaded light block
	Honest       *BCase                         `json:"honest,omitempty"`        // the unaltered response (for the oracle)
}

func lightBlockOf(header []byte) *cmttypes.LightBlock {
	var ph cmtproto.Header
	if err := ph.Unmarshal(header); err != nil {
		panic(err)
	}
	h, _ := cmttypes.HeaderFromProto(&ph)
	return &cmttypes.LightBlock{SignedHeader: &cmttypes.SignedHeader{Header: &h}}
}

func must[T any](v T, err error) T {
	if err != nil {
		panic(err)
	}
	return v
}

// ---------- abstraction of the Go values into the model's records ----------
type blockBound struct {
	height           int64
	hash             []byte
	sec, nsec        int64
	ns               []byte
	version, typ     uint64
	srHash           []byte
	metaOK, commitOK bool
	header           []byte
	sigs             [][]byte
	// not bound
	size            uint64
	cHeight, cRound int64
	cBlockID        []byte
}

func absBlock(blk *consensus.Block) blockBound {
	b := blockBound{height: blk.Height, hash: blk.Hash[:], sec: blk.Time.Unix(), nsec: int64(blk.Time.Nanosecond()),
		ns: blk.StateRoot.Namespace[:], version: blk.StateRoot.Version, typ: uint64(blk.StateRoot.Type), srHash: blk.StateRoot.Hash[:], size: blk.Size}
	var meta cmtapi.BlockMeta
	if err := cbor.Unmarshal(blk.Meta, &meta); err != nil {
		return b
	}
	b.metaOK = true
	b.header = meta.Header
	var pc cmtproto.Commit
	if err := pc.Unmarshal(meta.LastCommit); err != nil {
		return b
	}
	c, err := cmttypes.CommitFromProto(&pc)
	if err != nil {
		return b
	}
	b.commitOK = true
	for i := range c.Signatures {
		b.sigs = append(b.sigs, must(c.Signatures[i].ToProto().Marshal()))
	}
	pbid := c.BlockID.ToProto()
	b.cHeight, b.cRound, b.cBlockID = c.Height, int64(c.Round), must(pbid.Marshal())
	return b
}

func (b blockBound) coq(t *tb, r *rec) string {
	meta := "None"
	if b.metaOK {
		commit := "None"
		if b.commitOK {
			r.root(b.sigs)
			commit = fmt.Sprintf("(Some (mkCommit %s %s %s %s))", t.list(b.sigs), zs(b.cHeight), zs(b.cRound), t.B(b.cBlockID))
		}
		meta = fmt.Sprintf("(Some (mkMeta %s %s))", t.B(b.header), commit)
	}
	return fmt.Sprintf("(mkBlock %s %s %s %s %s %s %s %s %s %s)", zs(b.height), t.B(b.hash), zs(b.sec), zs(b.nsec),
		t.B(b.ns), ns(b.version), ns(b.typ), t.B(b.srHash), ns(b.size), meta)
}

func eqLists(a, b [][]byte) bool {
	if len(a) != len(b) {
		return false
	}
	for i := range a {
		if !bytes.Equal(a[i], b[i]) {
			return false
		}
	}
	return true
}

func (b blockBound) sameBound(o blockBound) bool {
	return b.height == o.height && bytes.Equal(b.hash, o.hash) && b.sec == o.sec && b.nsec == o.nsec && bytes.Equal(b.ns, o.ns) &&
		b.version == o.version && b.typ == o.typ && bytes.Equal(b.srHash, o.srHash) && b.metaOK == o.metaOK && b.commitOK == o.commitOK &&
		bytes.Equal(b.header, o.header) && eqLists(b.sigs, o.sigs)
}
func (b blockBound) freeDiffs(o blockBound) []string {
	var d []string
	if b.size != o.size {
		d = append(d, "Block.Size")
	}
	if b.cHeight != o.cHeight {
		d = append(d, "Meta.LastCommit.Height")
	}
	if b.cRound != o.cRound {
		d = append(d, "Meta.LastCommit.Round")
	}
	if !bytes.Equal(b.cBlockID, o.cBlockID) {
		d = append(d, "Meta.LastCommit.BlockID")
	}
	return d
}

func lbCoq(t *tb, lb *cmttypes.LightBlock) string {
	h := hash.LoadFromHexBytes(lb.Header.Hash())
	hdr := must(lb.Header.ToProto().Marshal())
	return fmt.Sprintf("(mkLB %s %s %s %s %s %s %s %s %s %s)", zs(lb.Height), t.B(h[:]), zs(lb.Header.Time.Unix()), zs(int64(lb.Header.Time.Nanosecond())),
		t.B(lb.Header.AppHash), t.B(hdr), t.B(lb.LastCommitHash), t.opt(lb.DataHash), t.B(lb.NextValidatorsHash), t.B(lb.ConsensusHash))
}

type resultsAbs struct {
	height int64
	ok     bool
	det    [][]byte
	rest   [][]byte
	events []byte
}

func absResults(rs *consensus.BlockResults) resultsAbs {
	a := resultsAbs{height: rs.Height}
	meta, err := cmtapi.NewBlockResultsMeta(rs)
	if err != nil {
		return a
	}
	a.ok = true
	for _, d := range meta.TxsResults {
		det := &abci.ResponseDeliverTx{Code: d.Code, Data: d.Data, GasWanted: d.GasWanted, GasUsed: d.GasUsed}
		a.det = append(a.det, must(det.Marshal()))
		rest := &abci.ResponseDeliverTx{Log: d.Log, Info: d.Info, Events: d.Events, Codespace: d.Codespace}
		a.rest = append(a.rest, must(rest.Marshal()))
	}
	a.events = cbor.Marshal([]any{meta.BeginBlockEvents, meta.EndBlockEvents})
	return a
}
func (a resultsAbs) coq(t *tb, r *rec) string {
	meta := "None"
	if a.ok {
		r.root(a.det)
		items := make([]string, len(a.det))
		for i := range a.det {
			items[i] = fmt.Sprintf("(mkTxResult %s %s)", t.B(a.det[i]), t.B(a.rest[i]))
		}
		meta = fmt.Sprintf("(Some (%s, %s))", coqout.List(items), t.B(a.events))
	}
	return fmt.Sprintf("(mkResults %s %s)", zs(a.height), meta)
}

type valsAbs struct {
	hash   []byte // CometBFT ValidatorSet.Hash() over the answer as it is
	height int64
	ok     bool
	vb     [][]byte
	rest   [][]byte
	set    []byte
}

// rawValidatorSet decodes a validator set answer without any normalisation.
func rawValidatorSet(meta []byte) *cmttypes.ValidatorSet {
	var pvs cmtproto.ValidatorSet
	if err := pvs.Unmarshal(meta); err != nil {
		return nil
	}
	vs, err := cmttypes.ValidatorSetFromProto(&pvs)
	if err != nil {
		return nil
	}
	return vs
}

func absValidators(v *consensus.Validators) valsAbs {
	a := valsAbs{height: v.Height}
	// decoded by the harness itself with CometBFT's own decoder, entries in the order of the
	// bytes -- NOT with light.DecodeValidators, which is part of the code under test
	vs := rawValidatorSet(v.Meta)
	if vs == nil {
		return a
	}
	a.ok = true
	a.hash = vs.Hash()
	for _, val := range vs.Validators {
		a.vb = append(a.vb, val.Bytes())
		pp := make([]byte, 8)
		binary.BigEndian.PutUint64(pp, uint64(val.ProposerPriority))
		a.rest = append(a.rest, pp)
	}
	if vs.Proposer != nil {
		a.set = append([]byte{}, vs.Proposer.Address...)
	}
	return a
}
func (a valsAbs) coq(t *tb, r *rec) string {
	set := "None"
	if a.ok {
		r.root(a.vb)
		items := make([]string, len(a.vb))
		for i := range a.vb {
			items[i] = fmt.Sprintf("(mkValidator %s %s)", t.B(a.vb[i]), t.B(a.rest[i]))
		}
		set = fmt.Sprintf("(Some (%s, %s))", coqout.List(items), t.B(a.set))
	}
	return fmt.Sprintf("(mkValidators %s %s)", zs(a.height), set)
}

type paramsAbs struct {
	height int64
	ok     bool
	hashed []byte
	valid  bool
	rest   []byte
	cbor   []byte
}

func absParams(p *consensus.Parameters) paramsAbs {
	a := paramsAbs{height: p.Height, cbor: cbor.Marshal(p.Parameters)}
	var pb cmtproto.ConsensusParams
	if err := pb.Unmarshal(p.Meta); err != nil {
		return a
	}
	if pb.Block == nil || pb.Evidence == nil || pb.Validator == nil || pb.Version == nil {
		return a // rejected as malformed (core.go:653-656)
	}
	a.ok = true
	cp := cmttypes.ConsensusParamsFromProto(pb)
	a.valid = cp.ValidateBasic() == nil
	hp := cmtproto.HashedParams{BlockMaxBytes: cp.Block.MaxBytes, BlockMaxGas: cp.Block.MaxGas}
	a.hashed = must(hp.Marshal())
	pb2 := cp.ToProto()
	pb2.Block = nil
	a.rest = must(pb2.Marshal())
	return a
}
func (a paramsAbs) coq(t *tb, r *rec) string {
	meta := "None"
	if a.ok {
		r.H(a.hashed)
		meta = fmt.Sprintf("(Some (mkCmtParams %s %s %s))", t.B(a.hashed), coqout.Bool(a.valid), t.B(a.rest))
	}
	return fmt.Sprintf("(mkParams %s %s %s)", zs(a.height), meta, t.B(a.cbor))
}

func absMetaTx(metaTx []byte) string {
	var sigTx transaction.SignedTransaction
	if err := cbor.Unmarshal(metaTx, &sigTx); err != nil {
		return "MtBadSigned"
	}
	var tx transaction.Transaction
	if err := cbor.Unmarshal(sigTx.Blob, &tx); err != nil {
		return "MtBadTx"
	}
	var meta consensus.BlockMetadata
	body := "None"
	if err := cbor.Unmarshal(tx.Body, &meta); err == nil {
		body = "(Some " + hbLit(meta.StateRoot[:]) + ")"
	}
	return fmt.Sprintf("(MtTx %s %s)", coqout.Bool(tx.Method == consensus.MethodMeta), body)
}

// ---------- error text -> model verdict ----------
func bindVerdict(kind string, err error) string {
	if err == nil {
		return "BOk"
	}
	s := err.Error()
	has := func(x string) bool { return strings.Contains(s, x) }
	switch {
	case has("malformed block transactions"):
		return "BEmptyTxs"
	case has("malformed block metadata transaction: invalid method"):
		return "BMetaTxMethod"
	case has("malformed block metadata transaction"):
		return "BMetaTxMalformed"
	case has("mismatched block height"):
		return "BHeight"
	case has("mismatched block hash"):
		return "BHash"
	case has("mismatched block time"):
		return "BTime"
	case has("mismatched block state root namespace"):
		return "BSrNamespace"
	case has("mismatched block state root version"):
		return "BSrVersion"
	case has("mismatched block state root type"):
		return "BSrType"
	case has("mismatched block state root hash"):
		return "BSrHash"
	case has("malformed block meta last commit"):
		return "BLastCommitMalformed"
	case has("malformed block meta"):
		return "BMetaMalformed"
	case has("mismatched block meta header"):
		return "BMetaHeader"
	case has("mismatched block meta last commit"):
		return "BLastCommit"
	case has("malformed block results metadata"):
		return "BResultsMalformed"
	case has("mismatched last results hash"):
		return "BResultsHash"
	case has("malformed parameters"):
		return "BParamsMalformed"
	case has("mismatched consensus parameters hash"):
		return "BParamsHash"
	case has("failed to query consensus"), has("failed to fetch consensus parameters"):
		return "BParamsQuery"
	case has("mismatched parameters"):
		return "BParamsMismatch"
	case has("failed to verify transactions"):
		return "BTxsHash"
	case has("failed to verify proof"):
		return "BTxProof"
	case has("failed to unmarshal validators"), has("failed to convert validators"):
		return "BValidatorsMalformed"
	case has("mismatched next validator set"):
		return "BValidatorsHash"
	case has("malformed block transactions"):
		return "BEmptyTxs"
	case has("malformed block metadata transaction: invalid method"):
		return "BMetaTxMethod"
	case has("malformed block metadata transaction"):
		return "BMetaTxMalformed"
	}
	if has("failed to verify light block") || has("failed to resolve height") {
		return "BOther"
	}
	if kind == "params" || kind == "api-params" {
		return "BParamsInvalid" // ValidateBasic's own messages
	}
	return "BOther"
}

type fakeQF struct {
	p *genesis.Parameters
}

func (f *fakeQF) QueryAt(context.Context, int64) (cmtconsensus.Query, error) { return f, nil }
func (f *fakeQF) ChainContext(context.Context) (string, error)               { return "verif", nil }
func (f *fakeQF) ConsensusParameters(context.Context) (*genesis.Parameters, error) {
	if f.p == nil {
		return nil, errors.New("state not available")
	}
	return f.p, nil
}

type bresult struct {
	t         *tb
	coq       string
	verdict   string
	violation string
	free      []string // unbound fields that differ in an accepted response
	panicked  string
}

// runB executes one case on the real code.
func runB(c BCase) (res bresult) {
	defer func() {
		if p := recover(); p != nil {
			res.panicked = fmt.Sprint(p) + " @ " + panicSite()
		}
	}()
	lb := lightBlockOf(c.Header)
	t, r := newTB(), newRec()
	var q, out string
	accept := false
	bad := func(what string) {
		res.violation = fmt.Sprintf("%s (%s / %s)", what, c.Kind, c.Alter)
	}
	switch c.Kind {
	case "block":
		err := stateless.VerifVerifyBlock(c.Block, lb)
		res.verdict = bindVerdict(c.Kind, err)
		a := absBlock(c.Block)
		q = "QBlock " + a.coq(t, r)
		if err == nil {
			accept = true
			if h := absBlock(c.Honest.Block); !a.sameBound(h) {
				bad("verifyBlock accepted a block whose header-bound fields differ from the honest response")
			} else {
				res.free = a.freeDiffs(h)
			}
		}
	case "results":
		_, err := stateless.VerifVerifyBlockResults(c.Results, c.ResultsHash, lb)
		res.verdict = bindVerdict(c.Kind, err)
		a := absResults(c.Results)
		q = fmt.Sprintf("QResults %s %s", a.coq(t, r), t.opt(c.ResultsHash))
		if err == nil {
			accept = true
			h := absResults(c.Honest.Results)
			if a.height != h.height || !eqLists(a.det, h.det) || !bytes.Equal(c.ResultsHash, c.Honest.ResultsHash) {
				bad("verifyBlockResults accepted results whose (code, data, gas) or height differ from the honest response")
			} else {
				if !eqLists(a.rest, h.rest) {
					res.free = append(res.free, "TxsResults.{Log,Info,Events,Codespace}")
				}
				if !bytes.Equal(a.events, h.events) {
					res.free = append(res.free, "Begin/EndBlockEvents")
				}
			}
		}
	case "txs":
		err := stateless.VerifVerifyTransactions(c.Txs, lb)
		res.verdict = bindVerdict(c.Kind, err)
		r.txRoot(c.Txs)
		q = "QTxs " + t.list(c.Txs)
		if err == nil {
			accept = true
			if !eqLists(c.Txs, c.Honest.Txs) {
				bad("verifyTransactions accepted an altered transaction list")
			}
		}
	case "txproof":
		err := stateless.VerifVerifyTransactionProof(&transaction.Proof{Height: lb.Height, RawProof: c.Proof}, c.Tx, lb)
		res.verdict = bindVerdict(c.Kind, err)
		raw := cbor.Marshal(c.Tx)
		var pj *proofJ
		var p proofJ
		if cbor.Unmarshal(c.Proof, &p) == nil {
			pj = &p
		}
		r.verifyTx(pj, raw)
		q = fmt.Sprintf("QTxProof %s %s", optProof(t, pj), t.B(raw))
		if err == nil {
			accept = true
			if !inList(raw, c.Honest.Txs) {
				bad("verifyTransactionProof accepted a transaction that is not in the block")
			}
		}
	case "validators":
		err := stateless.VerifVerifyNextValidators(c.Validators, lb)
		res.verdict = bindVerdict(c.Kind, err)
		a := absValidators(c.Validators)
		q = "QValidators " + a.coq(t, r)
		if err == nil {
			accept = true
			h := absValidators(c.Honest.Validators)
			if !bytes.Equal(a.hash, lb.NextValidatorsHash) {
				bad("verifyNextValidators accepted an answer whose own validator set hash (entries in the order of the answer's bytes) is not NextValidatorsHash of the verified header")
			} else if a.height != h.height || !eqLists(a.vb, h.vb) {
				bad("verifyNextValidators accepted a validator set whose (key, power) list or height differ from the honest response")
			} else {
				if !eqLists(a.rest, h.rest) {
					res.free = append(res.free, "Validator.ProposerPriority")
				}
				if !bytes.Equal(a.set, h.set) {
					res.free = append(res.free, "ValidatorSet.Proposer")
				}
			}
		}
	case "params":
		err := stateless.VerifVerifyParameters(context.Background(), &fakeQF{c.StateParams}, c.Params, lb)
		res.verdict = bindVerdict(c.Kind, err)
		a := absParams(c.Params)
		sp := "None"
		if c.StateParams != nil {
			sp = "(Some " + t.B(cbor.Marshal(c.StateParams)) + ")"
		}
		q = fmt.Sprintf("QParams %s %s", a.coq(t, r), sp)
		if err == nil {
			accept = true
			h := absParams(c.Honest.Params)
			if a.height != h.height || !bytes.Equal(a.hashed, h.hashed) || !bytes.Equal(a.cbor, h.cbor) {
				bad("verifyParameters accepted parameters whose hashed part, oasis parameters or height differ from the honest response")
			} else if !bytes.Equal(a.rest, h.rest) {
				res.free = append(res.free, "ConsensusParams.{Evidence,Validator,Version}")
			}
		}
	case "stateroot":
		h, err := stateless.VerifStateRootFromBlockTxs(c.Txs)
		m := "MtBadSigned"
		if len(c.Txs) > 0 {
			m = absMetaTx(c.Txs[len(c.Txs)-1])
		}
		q = fmt.Sprintf("QStateRoot %s %s", t.list(c.Txs), m)
		if err == nil {
			res.verdict = "SrOk"
			out = "(SrOk " + t.B(h[:]) + ")"
		} else {
			res.verdict = bindVerdict(c.Kind, err)
		}
	case "core-results", "core-txresults", "core-stateroot":
		q, out, accept = runCore(&res, c, lb, t, r)
	case "api-block", "api-txs", "api-txproofs", "api-params", "api-validators", "api-txproof":
		q, accept = runAPI(&res, c, lb, t, r)
	default:
		panic("unknown kind " + c.Kind)
	}
	if out == "" {
		out = "(SrErr " + res.verdict + ")"
	}
	if c.Alter == "genuine" && !accept && c.Kind != "stateroot" && c.Kind != "core-stateroot" && res.violation == "" {
		fmt.Fprintln(os.Stderr, "honest rejected:", c.Kind, res.verdict)
		bad("harness error: the honest response is rejected: " + res.verdict)
	}
	res.t = t
	res.coq = fmt.Sprintf("((%s, %s, %s), %s)", r.coq(t), lbCoq(t, lb), q, out)
	return res
}

// ---------- construction of consistent (block, light block, ...) tuples ----------
type tuple struct {
	name        string
	header      []byte // light block header (proto)
	nextHeader  []byte
	block       *consensus.Block
	txs         [][]byte
	results     *consensus.BlockResults
	resultsHash []byte
	validators  *consensus.Validators
	params      *consensus.Parameters
	stateParams *genesis.Parameters
	sigTxs      []*transaction.SignedTransaction
	height      int64
	hdr         cmttypes.Header
	commit      []byte // protobuf of the signed commit FOR this header (signed chains only)
	valsProto   []byte // protobuf of the validator set of this height
	root        []byte // state root carried by the block's metadata transaction
}

func mkValSet(r *prng.R, n int) *cmttypes.ValidatorSet {
	vals := make([]*cmttypes.Validator, n)
	for i := range vals {
		pk := cmted.GenPrivKeyFromSecret(r.Bytes(16)).PubKey()
		vals[i] = cmttypes.NewValidator(pk, int64(1+r.Intn(1000)))
	}
	return cmttypes.NewValidatorSet(vals)
}

func metaTx(r *prng.R, root hash.Hash) *transaction.SignedTransaction {
	signer := memsigner.NewTestSigner(fmt.Sprintf("verif proposer %d", r.Intn(4)))
	tx := consensus.NewBlockMetadataTx(&consensus.BlockMetadata{StateRoot: root, EventsRoot: r.Bytes(32)})
	return must(transaction.Sign(signer, tx))
}

func plainTx(r *prng.R) *transaction.SignedTransaction {
	signer := memsigner.NewTestSigner(fmt.Sprintf("verif account %d", r.Intn(4)))
	tx := transaction.NewTransaction(uint64(r.Intn(100)), nil, transaction.MethodName("staking.Transfer"), r.Bytes(r.Intn(20)))
	return must(transaction.Sign(signer, tx))
}

func mkTuple(r *prng.R, idx int) *tuple {
	heights := []int64{1, 2, 7, 25300000, 1<<31 + 5, 1<<63 - 2}
	return mkTupleAt(r, fmt.Sprintf("constructed-%d", idx), heights[idx%len(heights)], r.Bytes(32), r.Bytes(32), nil)
}

// mkTupleAt builds a consistent tuple at the given height whose header carries
// the given AppHash and LastResultsHash (those of the previous height).
// forceNtx > 0 fixes the number of transactions of the tuples built next.
var forceNtx int

func mkTupleAt(r *prng.R, name string, height int64, appHash, lastResultsHash []byte, link *chainLink) *tuple {
	ntx := []int{1, 2, 3, 5, 8}[r.Intn(5)]
	if forceNtx > 0 {
		ntx = forceNtx
	}
	var root hash.Hash
	copy(root[:], r.Bytes(32))
	var sigTxs []*transaction.SignedTransaction
	var txs cmttypes.Txs
	var raw [][]byte
	for i := 0; i < ntx-1; i++ {
		sigTxs = append(sigTxs, plainTx(r))
	}
	sigTxs = append(sigTxs, metaTx(r, root))
	for _, s := range sigTxs {
		b := cbor.Marshal(s)
		raw = append(raw, b)
		txs = append(txs, b)
	}
	vals, nextVals := mkValSet(r, 1+r.Intn(4)), mkValSet(r, 1+r.Intn(5))
	cp := cmttypes.DefaultConsensusParams()
	cp.Block.MaxBytes = int64(1024 * (2048 + r.Intn(1000)))
	cp.Block.MaxGas = int64(r.Intn(1000000)) - 1
	cp.Version.App = uint64(r.Intn(10))
	ts := time.Unix(1_700_000_000+int64(r.Intn(1000000)), int64(r.Intn(1_000_000_000))).UTC()
	lastBlockID := cmttypes.BlockID{Hash: r.Bytes(32), PartSetHeader: cmttypes.PartSetHeader{Total: 1, Hash: r.Bytes(32)}}
	commit := &cmttypes.Commit{Height: height - 1, Round: int32(r.Intn(2)), BlockID: lastBlockID}
	for i := 0; i < 1+r.Intn(5); i++ {
		if i > 0 && r.Chance(25) {
			commit.Signatures = append(commit.Signatures, cmttypes.NewCommitSigAbsent())
			continue
		}
		commit.Signatures = append(commit.Signatures, cmttypes.CommitSig{BlockIDFlag: cmttypes.BlockIDFlagCommit,
			ValidatorAddress: r.Bytes(20), Timestamp: ts.Add(-time.Duration(r.Intn(1e9))), Signature: r.Bytes(64)})
	}
	if height == 1 {
		commit = &cmttypes.Commit{}
		lastBlockID = cmttypes.BlockID{}
	}
	if link != nil {
		vals, nextVals, lastBlockID, ts = link.vals, link.nextVals, link.lastBlockID, link.ts
		if link.lastCommit != nil {
			commit = link.lastCommit
		}
	}
	data := cmttypes.Data{Txs: txs}
	hdr := cmttypes.Header{
		Version: cmtversion.Consensus{Block: 11, App: cp.Version.App}, ChainID: "verif-chain", Height: height, Time: ts,
		LastBlockID: lastBlockID, LastCommitHash: commit.Hash(), DataHash: data.Hash(), ValidatorsHash: vals.Hash(),
		NextValidatorsHash: nextVals.Hash(), ConsensusHash: cp.Hash(), AppHash: appHash, LastResultsHash: lastResultsHash,
		EvidenceHash: (&cmttypes.EvidenceData{}).Hash(), ProposerAddress: vals.Validators[0].Address,
	}
	blk := &cmttypes.Block{Header: hdr, Data: data, LastCommit: commit}
	var cblk *consensus.Block
	if len(appHash) == 32 || len(appHash) == 0 { // api.NewBlock panics on any other length
		cblk = must(cmtapi.NewBlock(blk))
	}

	var txr []*abci.ResponseDeliverTx
	for i := 0; i < ntx; i++ {
		txr = append(txr, &abci.ResponseDeliverTx{Code: uint32(r.Intn(3)), Data: r.Bytes(r.Intn(12)), Log: "log " + fmt.Sprint(r.Intn(9)),
			GasWanted: int64(r.Intn(5000)), GasUsed: int64(r.Intn(5000)), Codespace: []string{"", "staking"}[r.Intn(2)],
			Events: []abci.Event{{Type: "staking", Attributes: []abci.EventAttribute{{Key: "k", Value: fmt.Sprint(r.Intn(1000))}}}}})
	}
	results := cmtapi.NewBlockResults(&cmtcoretypes.ResultBlockResults{Height: height, TxsResults: txr,
		BeginBlockEvents: []abci.Event{{Type: "begin"}}, EndBlockEvents: []abci.Event{{Type: "end"}}})
	resultsHash := cmttypes.NewResults(txr).Hash()
	next := hdr
	next.Height = height + 1
	next.LastResultsHash = resultsHash
	next.AppHash = root[:]

	sp := &genesis.Parameters{TimeoutCommit: time.Second, MaxTxSize: 32768, MaxBlockSize: uint64(cp.Block.MaxBytes), MaxBlockGas: 1000, MaxEvidenceSize: 51200, MinGasPrice: uint64(r.Intn(5))}
	pbp := cp.ToProto()
	params := &consensus.Parameters{Height: height, Parameters: *sp, Meta: must(pbp.Marshal())}
	return &tuple{name: name, hdr: hdr, height: height, valsProto: must(must(vals.ToProto()).Marshal()), root: root[:], header: must(hdr.ToProto().Marshal()), nextHeader: must(next.ToProto().Marshal()),
		block: cblk, txs: raw, results: results, resultsHash: resultsHash,
		validators: must(light.EncodeValidators(nextVals, height+1)), params: params, stateParams: sp, sigTxs: sigTxs}
}

// recordedTuple loads the mainnet sample kept with the package's tests.
func recordedTuple() *tuple {
	repo := os.Getenv("VERIF_REPO")
	if repo == "" {
		repo = "/repo"
	}
	dir := filepath.Join(repo, "go/consensus/cometbft/stateless/testdata")
	load := func(name string, v any) bool {
		b, err := os.ReadFile(filepath.Join(dir, name))
		if err != nil {
			return false
		}
		return json.Unmarshal(b, v) == nil
	}
	var clb, clb2 consensus.LightBlock
	var blk consensus.Block
	var rs consensus.BlockResults
	var txs [][]byte
	if !load("light_block_25300000.json", &clb) || !load("light_block_25300001.json", &clb2) || !load("block_25300000.json", &blk) ||
		!load("results_25300000.json", &rs) || !load("txs_25300000.json", &txs) {
		return nil
	}
	lb, lb2 := must(light.DecodeLightBlock(&clb)), must(light.DecodeLightBlock(&clb2))
	tp := &tuple{name: "recorded-25300000", header: must(lb.Header.ToProto().Marshal()), nextHeader: must(lb2.Header.ToProto().Marshal()),
		block: &blk, txs: txs, results: &rs, resultsHash: lb2.LastResultsHash,
		validators: must(light.EncodeValidators(lb2.ValidatorSet, lb.Height+1))}
	for _, raw := range txs {
		var s transaction.SignedTransaction
		if cbor.Unmarshal(raw, &s) == nil {
			tp.sigTxs = append(tp.sigTxs, &s)
		}
	}
	return tp
}

// ---------- alterations ----------
func cloneBlock(b *consensus.Block) *consensus.Block {
	c := *b
	c.Meta = append([]byte{}, b.Meta...)
	return &c
}
func withMeta(b *consensus.Block, f func(m *cmtapi.BlockMeta)) *consensus.Block {
	c := cloneBlock(b)
	var m cmtapi.BlockMeta
	if err := cbor.Unmarshal(c.Meta, &m); err != nil {
		panic(err)
	}
	f(&m)
	c.Meta = cbor.Marshal(m)
	return c
}
func withCommit(b *consensus.Block, f func(c *cmtproto.Commit)) *consensus.Block {
	return withMeta(b, func(m *cmtapi.BlockMeta) {
		var pc cmtproto.Commit
		if err := pc.Unmarshal(m.LastCommit); err != nil {
			panic(err)
		}
		f(&pc)
		m.LastCommit = must(pc.Marshal())
	})
}

func genBCases(r *prng.R, tp *tuple) []BCase {
	var cs []BCase
	// --- block ---
	hb := &BCase{Kind: "block", Alter: "genuine", Header: tp.header, Block: tp.block}
	blk := func(label string, b *consensus.Block) {
		cs = append(cs, BCase{Kind: "block", Alter: label, Header: tp.header, Block: b, Honest: hb})
	}
	mod := func(label string, f func(b *consensus.Block)) { b := cloneBlock(tp.block); f(b); blk(label, b) }
	blk("genuine", tp.block)
	cs = append(cs, BCase{Kind: "block", Alter: "light-block-of-next-height", Header: tp.nextHeader, Block: tp.block, Honest: hb})
	mod("height+1", func(b *consensus.Block) { b.Height++ })
	mod("height-1", func(b *consensus.Block) { b.Height-- })
	mod("height+2^32", func(b *consensus.Block) { b.Height += 1 << 32 })
	mod("hash-bitflip", func(b *consensus.Block) { b.Hash[r.Intn(32)] ^= 1 << uint(r.Intn(8)) })
	mod("hash-zero", func(b *consensus.Block) { b.Hash = hash.Hash{} })
	mod("time+1s", func(b *consensus.Block) { b.Time = b.Time.Add(time.Second) })
	mod("time-1s", func(b *consensus.Block) { b.Time = b.Time.Add(-time.Second) })
	mod("time+1ns", func(b *consensus.Block) { b.Time = b.Time.Add(1) })
	mod("time+999999999ns", func(b *consensus.Block) { b.Time = b.Time.Add(999999999) })
	mod("time-other-zone-same-instant", func(b *consensus.Block) { b.Time = b.Time.In(time.FixedZone("x", 3600)) })
	mod("time-untruncated", func(b *consensus.Block) { b.Time = lightBlockOf(tp.header).Header.Time })
	mod("namespace-bitflip", func(b *consensus.Block) { b.StateRoot.Namespace[r.Intn(32)] ^= 1 << uint(r.Intn(8)) })
	mod("version+1", func(b *consensus.Block) { b.StateRoot.Version++ })
	mod("version-1", func(b *consensus.Block) { b.StateRoot.Version-- })
	mod("version=height", func(b *consensus.Block) { b.StateRoot.Version = uint64(b.Height) })
	mod("type=0", func(b *consensus.Block) { b.StateRoot.Type = 0 })
	mod("type=2", func(b *consensus.Block) { b.StateRoot.Type = 2 })
	mod("stateroot-hash-bitflip", func(b *consensus.Block) { b.StateRoot.Hash[r.Intn(32)] ^= 1 << uint(r.Intn(8)) })
	mod("size+1", func(b *consensus.Block) { b.Size++ })
	mod("size=0", func(b *consensus.Block) { b.Size = 0 })
	mod("meta-garbage", func(b *consensus.Block) { b.Meta = r.Bytes(1 + r.Intn(30)) })
	mod("meta-truncated", func(b *consensus.Block) { b.Meta = b.Meta[:len(b.Meta)-1-r.Intn(len(b.Meta)/2)] })
	for k := 0; k < 6; k++ {
		mod("meta-random-bitflip", func(b *consensus.Block) { b.Meta[r.Intn(len(b.Meta))] ^= 1 << uint(r.Intn(8)) })
	}
	blk("meta-header-bitflip", withMeta(tp.block, func(m *cmtapi.BlockMeta) { m.Header = flip(m.Header, r.Intn(4096)) }))
	blk("meta-header-truncated", withMeta(tp.block, func(m *cmtapi.BlockMeta) { m.Header = m.Header[:len(m.Header)-1] }))
	blk("meta-header-extended", withMeta(tp.block, func(m *cmtapi.BlockMeta) { m.Header = append(m.Header, 0) }))
	blk("meta-header-of-next-height", withMeta(tp.block, func(m *cmtapi.BlockMeta) { m.Header = tp.nextHeader }))
	blk("meta-header-empty", withMeta(tp.block, func(m *cmtapi.BlockMeta) { m.Header = nil }))
	blk("meta-lastcommit-garbage", withMeta(tp.block, func(m *cmtapi.BlockMeta) { m.LastCommit = r.Bytes(1 + r.Intn(30)) }))
	blk("meta-lastcommit-empty", withMeta(tp.block, func(m *cmtapi.BlockMeta) { m.LastCommit = nil }))
	for k := 0; k < 4; k++ {
		blk("meta-lastcommit-random-bitflip", withMeta(tp.block, func(m *cmtapi.BlockMeta) {
			if len(m.LastCommit) > 0 {
				m.LastCommit = flip(m.LastCommit, r.Intn(1<<16))
			}
		}))
	}
	var pc cmtproto.Commit
	var bm cmtapi.BlockMeta
	_ = cbor.Unmarshal(tp.block.Meta, &bm)
	if pc.Unmarshal(bm.LastCommit) == nil && len(pc.Signatures) > 0 {
		n := len(pc.Signatures)
		blk("lastcommit-sig-bitflip", withCommit(tp.block, func(c *cmtproto.Commit) {
			j := r.Intn(n)
			for c.Signatures[j].Signature == nil {
				j = (j + 1) % n
			}
			c.Signatures[j].Signature = flip(c.Signatures[j].Signature, r.Intn(512))
		}))
		blk("lastcommit-sig-timestamp+1ns", withCommit(tp.block, func(c *cmtproto.Commit) {
			j := r.Intn(n)
			c.Signatures[j].Timestamp = c.Signatures[j].Timestamp.Add(1)
		}))
		blk("lastcommit-sig-address-bitflip", withCommit(tp.block, func(c *cmtproto.Commit) {
			j := r.Intn(n)
			for c.Signatures[j].ValidatorAddress == nil {
				j = (j + 1) % n
			}
			c.Signatures[j].ValidatorAddress = flip(c.Signatures[j].ValidatorAddress, r.Intn(160))
		}))
		blk("lastcommit-sig-dropped", withCommit(tp.block, func(c *cmtproto.Commit) { c.Signatures = c.Signatures[:n-1] }))
		blk("lastcommit-sig-duplicated", withCommit(tp.block, func(c *cmtproto.Commit) { c.Signatures = append(c.Signatures, c.Signatures[0]) }))
		blk("lastcommit-sig-absent-added", withCommit(tp.block, func(c *cmtproto.Commit) {
			abs := cmttypes.NewCommitSigAbsent()
			c.Signatures = append(c.Signatures, *abs.ToProto())
		}))
		if n >= 2 {
			blk("lastcommit-sigs-swapped", withCommit(tp.block, func(c *cmtproto.Commit) { c.Signatures[0], c.Signatures[n-1] = c.Signatures[n-1], c.Signatures[0] }))
		}
		blk("lastcommit-height+1", withCommit(tp.block, func(c *cmtproto.Commit) { c.Height++ }))
		blk("lastcommit-round+1", withCommit(tp.block, func(c *cmtproto.Commit) { c.Round++ }))
		blk("lastcommit-blockid-bitflip", withCommit(tp.block, func(c *cmtproto.Commit) { c.BlockID.Hash = flip(c.BlockID.Hash, r.Intn(256)) }))
		blk("lastcommit-unknown-proto-field", withMeta(tp.block, func(m *cmtapi.BlockMeta) { m.LastCommit = append(m.LastCommit, 0x78, 0x01) }))
	}

	// --- transactions ---
	ht := &BCase{Kind: "txs", Alter: "genuine", Header: tp.header, Txs: tp.txs}
	txs := func(label string, l [][]byte) {
		cs = append(cs, BCase{Kind: "txs", Alter: label, Header: tp.header, Txs: l, Honest: ht})
	}
	cp := func() [][]byte {
		l := make([][]byte, len(tp.txs))
		for i := range l {
			l[i] = append([]byte{}, tp.txs[i]...)
		}
		return l
	}
	txs("genuine", tp.txs)
	cs = append(cs, BCase{Kind: "txs", Alter: "light-block-of-next-height", Header: tp.nextHeader, Txs: tp.txs, Honest: ht})
	idxs := []int{0, len(tp.txs) - 1, r.Intn(len(tp.txs)), r.Intn(len(tp.txs))}
	for _, j := range idxs {
		l := cp()
		l[j] = flip(l[j], r.Intn(4096))
		txs("tx-bitflip", l)
		l = cp()
		l[j] = append(l[j], 0)
		txs("tx-extended", l)
		l = cp()
		txs("tx-dropped", append(l[:j], l[j+1:]...))
		l = cp()
		txs("tx-duplicated", append(l[:j+1], l[j:]...))
		l = cp()
		h := newRec().H(l[j])
		l[j] = h
		txs("tx-replaced-by-its-hash", l)
	}
	if len(tp.txs) >= 2 {
		l := cp()
		l[0], l[len(l)-1] = l[len(l)-1], l[0]
		txs("txs-swapped", l)
		l = cp()
		txs("txs-merged", append([][]byte{append(l[0], l[1]...)}, l[2:]...))
	}
	txs("txs-empty", nil)
	txs("tx-appended", append(cp(), r.Bytes(10)))

	// --- transaction proofs through verifyTransactionProof ---
	twp := stateless.VerifTransactionsWithProofs(tp.txs)
	for k := 0; k < 3 && len(tp.sigTxs) == len(tp.txs); k++ {
		j := r.Intn(len(tp.txs))
		if k == 0 {
			j = len(tp.txs) - 1
		}
		if !bytes.Equal(cbor.Marshal(tp.sigTxs[j]), tp.txs[j]) {
			continue // not canonically encoded in the recorded sample
		}
		pr := func(label string, proof []byte, tx *transaction.SignedTransaction, header []byte) {
			cs = append(cs, BCase{Kind: "txproof", Alter: label, Header: header, Proof: proof, Tx: tx, Honest: ht})
		}
		pr("genuine", twp.Proofs[j], tp.sigTxs[j], tp.header)
		pr("light-block-of-next-height", twp.Proofs[j], tp.sigTxs[j], tp.nextHeader)
		pr("proof-bitflip", flip(twp.Proofs[j], r.Intn(1<<14)), tp.sigTxs[j], tp.header)
		pr("proof-of-other-index", twp.Proofs[(j+1)%len(tp.txs)], tp.sigTxs[j], tp.header)
		other := *tp.sigTxs[j]
		other.Blob = flip(other.Blob, r.Intn(1<<12))
		pr("tx-blob-bitflip", twp.Proofs[j], &other, tp.header)
		other2 := *tp.sigTxs[j]
		other2.Signature.Signature[r.Intn(64)] ^= 1
		pr("tx-signature-bitflip", twp.Proofs[j], &other2, tp.header)
		pr("proof-garbage", r.Bytes(1+r.Intn(30)), tp.sigTxs[j], tp.header)
	}

	// --- state root from the block metadata transaction ---
	sr := func(label string, l [][]byte) {
		cs = append(cs, BCase{Kind: "stateroot", Alter: label, Header: tp.header, Txs: l})
	}
	sr("genuine", tp.txs)
	sr("txs-empty", nil)
	sr("meta-tx-not-last", append(cp(), tp.txs[0]))
	sr("last-tx-garbage", append(cp(), r.Bytes(12)))
	{
		last := tp.txs[len(tp.txs)-1]
		var s transaction.SignedTransaction
		if cbor.Unmarshal(last, &s) == nil {
			s2 := s
			s2.Blob = r.Bytes(9)
			sr("last-tx-blob-garbage", append(cp(), cbor.Marshal(s2)))
			var tx transaction.Transaction
			if cbor.Unmarshal(s.Blob, &tx) == nil {
				tx2 := tx
				tx2.Method = "staking.Transfer"
				s3 := s
				s3.Blob = cbor.Marshal(tx2)
				sr("last-tx-other-method", append(cp(), cbor.Marshal(s3)))
				tx3 := tx
				tx3.Body = cbor.Marshal("not a map")
				s4 := s
				s4.Blob = cbor.Marshal(tx3)
				sr("last-tx-body-malformed", append(cp(), cbor.Marshal(s4)))
				tx4 := tx
				var other hash.Hash
				copy(other[:], r.Bytes(32))
				tx4.Body = cbor.Marshal(consensus.BlockMetadata{StateRoot: other, EventsRoot: r.Bytes(32)})
				s5 := s
				s5.Blob = cbor.Marshal(tx4)
				sr("last-tx-unsigned-other-root", append(cp(), cbor.Marshal(s5)))
			}
		}
	}

	// --- results ---
	if tp.results != nil {
		hr := &BCase{Kind: "results", Alter: "genuine", Header: tp.header, Results: tp.results, ResultsHash: tp.resultsHash}
		rs := func(label string, x *consensus.BlockResults, rh []byte, header []byte) {
			cs = append(cs, BCase{Kind: "results", Alter: label, Header: header, Results: x, ResultsHash: rh, Honest: hr})
		}
		modr := func(label string, f func(m *cmtapi.BlockResultsMeta)) {
			var m cmtapi.BlockResultsMeta
			if err := cbor.Unmarshal(tp.results.Meta, &m); err != nil {
				panic(err)
			}
			f(&m)
			rs(label, &consensus.BlockResults{Height: tp.results.Height, Meta: cbor.Marshal(m)}, tp.resultsHash, tp.header)
		}
		rs("genuine", tp.results, tp.resultsHash, tp.header)
		rs("light-block-of-next-height", tp.results, tp.resultsHash, tp.nextHeader)
		rs("height+1", &consensus.BlockResults{Height: tp.results.Height + 1, Meta: tp.results.Meta}, tp.resultsHash, tp.header)
		rs("height-1", &consensus.BlockResults{Height: tp.results.Height - 1, Meta: tp.results.Meta}, tp.resultsHash, tp.header)
		rs("results-hash-of-this-header", tp.results, lightBlockOf(tp.header).LastResultsHash, tp.header)
		rs("results-hash-nil", tp.results, nil, tp.header)
		rs("meta-garbage", &consensus.BlockResults{Height: tp.results.Height, Meta: r.Bytes(1 + r.Intn(20))}, tp.resultsHash, tp.header)
		for k := 0; k < 4; k++ {
			rs("meta-random-bitflip", &consensus.BlockResults{Height: tp.results.Height, Meta: flip(tp.results.Meta, r.Intn(1<<16))}, tp.resultsHash, tp.header)
		}
		var m0 cmtapi.BlockResultsMeta
		_ = cbor.Unmarshal(tp.results.Meta, &m0)
		if n := len(m0.TxsResults); n > 0 {
			pick := func(m *cmtapi.BlockResultsMeta) *abci.ResponseDeliverTx {
				j := r.Intn(n)
				c := *m.TxsResults[j]
				m.TxsResults[j] = &c
				return &c
			}
			modr("result-code+1", func(m *cmtapi.BlockResultsMeta) { pick(m).Code++ })
			modr("result-code=0", func(m *cmtapi.BlockResultsMeta) { x := pick(m); x.Code = (x.Code + 2) % 3 })
			modr("result-data-changed", func(m *cmtapi.BlockResultsMeta) { x := pick(m); x.Data = append(append([]byte{}, x.Data...), 7) })
			modr("result-gaswanted+1", func(m *cmtapi.BlockResultsMeta) { pick(m).GasWanted++ })
			modr("result-gasused+1", func(m *cmtapi.BlockResultsMeta) { pick(m).GasUsed++ })
			modr("result-log-changed", func(m *cmtapi.BlockResultsMeta) { pick(m).Log += "!" })
			modr("result-info-changed", func(m *cmtapi.BlockResultsMeta) { pick(m).Info += "!" })
			modr("result-codespace-changed", func(m *cmtapi.BlockResultsMeta) { pick(m).Codespace += "x" })
			modr("result-events-dropped", func(m *cmtapi.BlockResultsMeta) { pick(m).Events = nil })
			modr("result-dropped", func(m *cmtapi.BlockResultsMeta) { m.TxsResults = m.TxsResults[:n-1] })
			modr("result-duplicated", func(m *cmtapi.BlockResultsMeta) { m.TxsResults = append(m.TxsResults, m.TxsResults[0]) })
			if n >= 2 {
				modr("results-swapped", func(m *cmtapi.BlockResultsMeta) {
					m.TxsResults[0], m.TxsResults[n-1] = m.TxsResults[n-1], m.TxsResults[0]
				})
			}
			modr("results-emptied", func(m *cmtapi.BlockResultsMeta) { m.TxsResults = nil })
		}
		modr("begin-block-events-changed", func(m *cmtapi.BlockResultsMeta) {
			m.BeginBlockEvents = append(m.BeginBlockEvents, abci.Event{Type: "forged"})
		})
		modr("end-block-events-dropped", func(m *cmtapi.BlockResultsMeta) { m.EndBlockEvents = nil })
	}

	// --- next validators ---
	if tp.validators != nil {
		hv := &BCase{Kind: "validators", Alter: "genuine", Header: tp.header, Validators: tp.validators}
		vs := func(label string, v *consensus.Validators, header []byte) {
			cs = append(cs, BCase{Kind: "validators", Alter: label, Header: header, Validators: v, Honest: hv})
		}
		modv := func(label string, f func(p *cmtproto.ValidatorSet)) {
			var p cmtproto.ValidatorSet
			if err := p.Unmarshal(tp.validators.Meta); err != nil {
				panic(err)
			}
			f(&p)
			vs(label, &consensus.Validators{Height: tp.validators.Height, Meta: must(p.Marshal())}, tp.header)
		}
		vs("genuine", tp.validators, tp.header)
		vs("light-block-of-next-height", tp.validators, tp.nextHeader)
		vs("height+1", &consensus.Validators{Height: tp.validators.Height + 1, Meta: tp.validators.Meta}, tp.header)
		vs("height-1", &consensus.Validators{Height: tp.validators.Height - 1, Meta: tp.validators.Meta}, tp.header)
		vs("meta-garbage", &consensus.Validators{Height: tp.validators.Height, Meta: r.Bytes(1 + r.Intn(20))}, tp.header)
		for k := 0; k < 4; k++ {
			vs("meta-random-bitflip", &consensus.Validators{Height: tp.validators.Height, Meta: flip(tp.validators.Meta, r.Intn(1<<16))}, tp.header)
		}
		var p0 cmtproto.ValidatorSet
		_ = p0.Unmarshal(tp.validators.Meta)
		n := len(p0.Validators)
		modv("validator-power+1", func(p *cmtproto.ValidatorSet) { v := *p.Validators[r.Intn(n)]; v.VotingPower++; p.Validators[0] = &v })
		modv("validator-dropped", func(p *cmtproto.ValidatorSet) { p.Validators = p.Validators[:n-1] })
		modv("validator-duplicated", func(p *cmtproto.ValidatorSet) { p.Validators = append(p.Validators, p.Validators[0]) })
		modv("validator-added", func(p *cmtproto.ValidatorSet) {
			nv := must(cmttypes.NewValidator(cmted.GenPrivKeyFromSecret(r.Bytes(8)).PubKey(), 5).ToProto())
			p.Validators = append(p.Validators, nv)
		})
		modv("validator-key-replaced", func(p *cmtproto.ValidatorSet) {
			j := r.Intn(n)
			nv := must(cmttypes.NewValidator(cmted.GenPrivKeyFromSecret(r.Bytes(8)).PubKey(), p.Validators[j].VotingPower).ToProto())
			p.Validators[j] = nv
		})
		modv("validator-address-bitflip", func(p *cmtproto.ValidatorSet) {
			j := r.Intn(n)
			v := *p.Validators[j]
			v.Address = flip(v.Address, r.Intn(160))
			p.Validators[j] = &v
		})
		if n >= 2 {
			modv("validators-swapped", func(p *cmtproto.ValidatorSet) {
				p.Validators[0], p.Validators[n-1] = p.Validators[n-1], p.Validators[0]
			})
			modv("validators-adjacent-swapped", func(p *cmtproto.ValidatorSet) {
				j := r.Intn(n - 1)
				p.Validators[j], p.Validators[j+1] = p.Validators[j+1], p.Validators[j]
			})
			modv("validators-reversed", func(p *cmtproto.ValidatorSet) {
				for i, j := 0, n-1; i < j; i, j = i+1, j-1 {
					p.Validators[i], p.Validators[j] = p.Validators[j], p.Validators[i]
				}
			})
			modv("validators-rotated", func(p *cmtproto.ValidatorSet) {
				p.Validators = append(p.Validators[1:], p.Validators[0])
			})
			modv("validator-power-moved-same-total", func(p *cmtproto.ValidatorSet) {
				a, c := *p.Validators[0], *p.Validators[n-1]
				a.VotingPower++
				c.VotingPower--
				p.Validators[0], p.Validators[n-1] = &a, &c
			})
			modv("validators-sorted-by-address", func(p *cmtproto.ValidatorSet) {
				sort.Slice(p.Validators, func(i, j int) bool { return bytes.Compare(p.Validators[i].Address, p.Validators[j].Address) < 0 })
			})
		}
		modv("validator-priority+1", func(p *cmtproto.ValidatorSet) {
			j := r.Intn(n)
			v := *p.Validators[j]
			v.ProposerPriority++
			p.Validators[j] = &v
		})
		modv("proposer-changed", func(p *cmtproto.ValidatorSet) { p.Proposer = p.Validators[n-1] })
	}

	// --- parameters ---
	if tp.params != nil {
		hp := &BCase{Kind: "params", Alter: "genuine", Header: tp.header, Params: tp.params, StateParams: tp.stateParams}
		ps := func(label string, p *consensus.Parameters, sp *genesis.Parameters, header []byte) {
			cs = append(cs, BCase{Kind: "params", Alter: label, Header: header, Params: p, StateParams: sp, Honest: hp})
		}
		modp := func(label string, f func(p *cmtproto.ConsensusParams)) {
			var p cmtproto.ConsensusParams
			if err := p.Unmarshal(tp.params.Meta); err != nil {
				panic(err)
			}
			f(&p)
			ps(label, &consensus.Parameters{Height: tp.params.Height, Parameters: tp.params.Parameters, Meta: must(p.Marshal())}, tp.stateParams, tp.header)
		}
		ps("genuine", tp.params, tp.stateParams, tp.header)
		ps("light-block-of-next-height", tp.params, tp.stateParams, tp.nextHeader)
		ps("height+1", &consensus.Parameters{Height: tp.params.Height + 1, Parameters: tp.params.Parameters, Meta: tp.params.Meta}, tp.stateParams, tp.header)
		ps("height-1", &consensus.Parameters{Height: tp.params.Height - 1, Parameters: tp.params.Parameters, Meta: tp.params.Meta}, tp.stateParams, tp.header)
		ps("meta-garbage", &consensus.Parameters{Height: tp.params.Height, Parameters: tp.params.Parameters, Meta: []byte{0xff, 0xff, 0x01}}, tp.stateParams, tp.header)
		for k := 0; k < 4; k++ {
			ps("meta-random-bitflip", &consensus.Parameters{Height: tp.params.Height, Parameters: tp.params.Parameters, Meta: flip(tp.params.Meta, r.Intn(1<<16))}, tp.stateParams, tp.header)
		}
		ps("state-query-fails", tp.params, nil, tp.header)
		op := tp.params.Parameters
		op.MinGasPrice++
		ps("oasis-parameters-changed", &consensus.Parameters{Height: tp.params.Height, Parameters: op, Meta: tp.params.Meta}, tp.stateParams, tp.header)
		op2 := tp.params.Parameters
		op2.MaxTxSize--
		ps("oasis-max-tx-size-changed", &consensus.Parameters{Height: tp.params.Height, Parameters: op2, Meta: tp.params.Meta}, tp.stateParams, tp.header)
		// protobuf sub-messages are optional on the wire: a provider can omit them
		ps("meta-empty", &consensus.Parameters{Height: tp.params.Height, Parameters: tp.params.Parameters, Meta: []byte{}}, tp.stateParams, tp.header)
		modp("meta-without-evidence-submessage", func(p *cmtproto.ConsensusParams) { p.Evidence = nil })
		modp("meta-without-version-submessage", func(p *cmtproto.ConsensusParams) { p.Version = nil })
		modp("block-max-bytes+1", func(p *cmtproto.ConsensusParams) { p.Block.MaxBytes++ })
		modp("block-max-gas+1", func(p *cmtproto.ConsensusParams) { p.Block.MaxGas++ })
		modp("block-max-bytes=0-invalid", func(p *cmtproto.ConsensusParams) { p.Block.MaxBytes = 0 })
		modp("evidence-max-age+1", func(p *cmtproto.ConsensusParams) { p.Evidence.MaxAgeNumBlocks++ })
		modp("evidence-max-bytes+1", func(p *cmtproto.ConsensusParams) { p.Evidence.MaxBytes++ })
		modp("validator-key-types-changed", func(p *cmtproto.ConsensusParams) { p.Validator.PubKeyTypes = []string{"secp256k1"} })
		modp("version-app+1", func(p *cmtproto.ConsensusParams) { p.Version.App++ })
	}
	return cs
}

// ackFree lists the unbound fields the code itself documents as unverifiable
// (core.go:569 "Block size cannot be verified"; core.go:638 TODO events, #6210).
var ackFree = map[string]bool{
	"Block.Size": true, "TxsResults.{Log,Info,Events,Codespace}": true, "Begin/EndBlockEvents": true,
}

func mainBind(seed uint64, rounds int, out, replay string) {
	// tuples recorded from the real multiplexer (this also fixes the process-wide
	// signature chain context to the generated genesis document's)
	var muxTps []*tuple
	var muxRep *muxdrv.Replica
	var muxErr error
	if replay == "" {
		muxTps, _, muxRep, muxErr = muxChain(seed, 4)
		if muxRep != nil {
			defer muxRep.Close()
		}
	}
	if muxTps == nil {
		func() {
			defer func() { _ = recover() }() // already set by a generated genesis
			signature.SetChainContext("verif stateless harness")
		}()
	}
	w := newCaseWriter(out, coqHeader, "run_bcase", "sr_result_eqb", 40)
	sum := coqout.NewSummary("consistent (block, light block, transactions, results, next validators, parameters) tuples: the mainnet sample of the package's testdata plus -rounds constructed ones (heights 1, 2, 7, 25300000, 2^31+5, 2^63-2; 1-8 transactions, 1-5 commit signatures, 1-5 validators) and every field-level alteration listed in the histogram, through verifyBlock / verifyBlockResults / verifyTransactions / verifyTransactionProof / verifyNextValidators / verifyParameters / stateRootFromBlockTxs; non-trivial = altered response; distinct = distinct case descriptions")
	var cases []BCase
	if replay != "" {
		cases = []BCase{loadCase[BCase](replay)}
	} else {
		r := prng.New(seed)
		if tp := recordedTuple(); tp != nil {
			cases = append(cases, genBCases(r.Fork(), tp)...)
			sum.Count("tuples", "recorded")
		}
		for i := 0; i < rounds; i++ {
			cases = append(cases, genBCases(r.Fork(), mkTuple(r.Fork(), i))...)
			sum.Count("tuples", "constructed")
		}
		for i := 0; i < (rounds+1)/2; i++ {
			cases = append(cases, genCoreCases(r.Fork(), i)...)
			sum.Count("tuples", "chains")
		}
		if muxErr != nil {
			fmt.Fprintln(os.Stderr, "mux chain not available:", muxErr)
			sum.Extra["mux_chain_error"] = muxErr.Error()
		} else {
			for _, tp := range muxTps {
				cases = append(cases, genBCases(r.Fork(), tp)...)
				sum.Count("tuples", "mux-executed")
			}
			cases = append(cases, chainCases(r.Fork(), muxTps)...)
			sum.Count("tuples", "mux-chains")
			muxStateReads(sum, muxTps, muxRep)
		}
		// an honest initial block whose header has an EMPTY AppHash (api.NewBlock maps it to
		// the empty-hash constant, verifyBlock compares with the raw AppHash): documented, not alarmed
		tpE := mkTupleAt(r.Fork(), "empty-apphash", 1, nil, cmttypes.NewResults(nil).Hash(), nil)
		hbE := &BCase{Kind: "block", Alter: "honest-response-with-empty-apphash", Header: tpE.header, Block: tpE.block}
		hbE.Honest = &BCase{Block: tpE.block}
		resE := runB(*hbE)
		sum.Extra["honest_block_with_empty_apphash_verdict"] = resE.verdict
		cases = append(cases, *hbE)
	}
	seen := map[string]bool{}
	freeSeen := map[string]bool{}
	for _, c := range cases {
		res := runB(c)
		key, _ := json.Marshal(c)
		if c.Alter != "genuine" && !seen[string(key)] {
			sum.DistinctNontrivial++
		}
		seen[string(key)] = true
		sum.Evaluations++
		sum.Count("alteration", c.Kind+"/"+c.Alter)
		if res.panicked == "" {
			sum.Count("verdict", c.Kind+"/"+res.verdict)
		}
		if c.Kind == "block" && c.Alter == "height+1" {
			sum.Sample(map[string]any{"kind": c.Kind, "alter": c.Alter, "verdict": res.verdict}, 2)
		}
		if res.panicked != "" {
			sum.Count("verdict", c.Kind+"/PANIC")
			if c.Kind == "params" && c.Params != nil {
				// shrink: the empty Meta is the smallest response of this kind
				small := c
				p := *c.Params
				p.Meta = []byte{}
				small.Params = &p
				small.Honest = nil
				if r2 := runB(small); r2.panicked != "" {
					c, res = small, r2
				}
			}
			sum.Violations = append(sum.Violations, map[string]any{"what": "implementation panicked: " + res.panicked, "case": c})
			continue
		}
		w.Add(res.t, res.coq, map[string]any{"case": c})
		if res.violation != "" {
			sum.Violations = append(sum.Violations, map[string]any{"what": res.violation, "case": c})
		}
		for _, f := range res.free {
			sum.Count("accepted_with_unbound_field_altered", f)
			if !ackFree[f] && !freeSeen[f] {
				freeSeen[f] = true
			}
		}
	}
	var fl []string
	for _, k := range coqout.SortedKeys(freeSeen) {
		fl = append(fl, k)
	}
	sum.Extra["unbound_fields_not_documented_in_code"] = fl
	w.Close()
	sum.Write(out)
}

// panicSite names the innermost frames of the panicking goroutine that belong
// to oasis-core or cometbft (not to the runtime or this harness).
func panicSite() string {
	var out []string
	for _, l := range strings.Split(string(debug.Stack()), "\n") {
		l = strings.TrimSpace(l)
		if (strings.Contains(l, "oasis-core/go/") || strings.Contains(l, "/cometbft")) && strings.Contains(l, ".go:") {
			if i := strings.Index(l, " +0x"); i > 0 {
				l = l[:i]
			}
			for _, pre := range []string{"/root/go/pkg/mod/", "/repo/"} {
				l = strings.TrimPrefix(l, pre)
			}
			if j := strings.Index(l, "/go/consensus/"); j > 0 {
				l = l[j+1:]
			}
			out = append(out, l)
		}
		if len(out) >= 3 {
			break
		}
	}
	return strings.Join(out, " <- ")
}
