package main

func mainBind(seed uint64, rounds int, out, replay string) {}
