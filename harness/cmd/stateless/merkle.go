package main

import (
	"bytes"
	"encoding/json"
	"fmt"
	"os"

	cmtmerkle "github.com/cometbft/cometbft/crypto/merkle"

	"github.com/oasisprotocol/oasis-core/go/common/cbor"
	"github.com/oasisprotocol/oasis-core/go/consensus/cometbft/crypto/merkle"

	"verifharness/internal/coqout"
	"verifharness/internal/prng"
)

// MQuery is one call of merkle.VerifyTransaction(proof, root, tx).
type MQuery struct {
	Alter string  `json:"alter"`           // label of the alteration ("genuine" for none)
	Proof *proofJ `json:"proof,omitempty"` // structured proof (CBOR-encoded for the call) ...
	Raw   []byte  `json:"raw,omitempty"`   // ... or raw proof bytes that do not decode
	Root  []byte  `json:"root"`            // nil: nil slice
	Tx    []byte  `json:"tx"`
}

// MCase is one transaction list with a batch of queries against its root.
type MCase struct {
	Txs        [][]byte `json:"txs"`
	WantProofs bool     `json:"want_proofs"` // compare ProofsForTransactions's output too
	Queries    []MQuery `json:"queries"`
}

const coqHeader = "From Coq Require Import Uint63.\nFrom Verif Require Import Lib.Base Stateless.Hex Stateless.Merkle Stateless.Bind.\n"

func toJ(p *cmtmerkle.Proof) *proofJ {
	return &proofJ{Total: p.Total, Index: p.Index, LeafHash: p.LeafHash, Aunts: p.Aunts}
}
func encodeJ(p *proofJ) []byte {
	return cbor.Marshal(&cmtmerkle.Proof{Total: p.Total, Index: p.Index, LeafHash: p.LeafHash, Aunts: p.Aunts})
}
func cloneJ(p *proofJ) *proofJ {
	q := &proofJ{Total: p.Total, Index: p.Index, LeafHash: append([]byte{}, p.LeafHash...)}
	for _, a := range p.Aunts {
		q.Aunts = append(q.Aunts, append([]byte{}, a...))
	}
	return q
}
func flip(b []byte, i int) []byte {
	c := append([]byte{}, b...)
	if len(c) == 0 {
		return []byte{1}
	}
	c[i%len(c)] ^= 0x01 << uint(i%8)
	return c
}

type mresult struct {
	coq        string
	t          *tb
	violations []string
	stats      []string
	accepted   int
	nontrivial bool
	panicked   string
}

func inList(tx []byte, txs [][]byte) bool {
	for _, t := range txs {
		if bytes.Equal(t, tx) {
			return true
		}
	}
	return false
}

// runM executes one case on the real code.
func runM(c MCase) (res mresult) {
	defer func() {
		if p := recover(); p != nil {
			res.panicked = fmt.Sprint(p)
		}
	}()
	r := newRec()
	t := newTB()
	// the model computes the root and (when asked) all the proofs
	refRoot := r.txRoot(c.Txs)
	root, proofs := merkle.ProofsForTransactions(c.Txs)
	root2 := merkle.RootHashOfTransactions(c.Txs)
	if !bytes.Equal(root, root2) || !bytes.Equal(root, refRoot) {
		res.violations = append(res.violations, "ProofsForTransactions and RootHashOfTransactions disagree on the root (or with the RFC-6962 reference)")
	}
	var coqProofs []string
	if c.WantProofs {
		hs := r.hashAll(c.Txs)
		for i := range c.Txs {
			r.leaf(hs[i])
			r.aunts(hs, i)
		}
		if len(proofs) != len(c.Txs) {
			res.violations = append(res.violations, "number of proofs differs from the number of transactions")
		}
		for _, pb := range proofs {
			var p cmtmerkle.Proof
			if err := cbor.Unmarshal(pb, &p); err != nil {
				res.violations = append(res.violations, "produced proof does not decode")
				continue
			}
			coqProofs = append(coqProofs, toJ(&p).coq(t))
		}
	}
	var coqQ, coqV []string
	for _, q := range c.Queries {
		raw := q.Raw
		var pj *proofJ
		if q.Proof != nil {
			raw = encodeJ(q.Proof)
			pj = q.Proof
		} else {
			// the decoder is abstract in the model: raw bytes that do decode
			// (e.g. a CBOR null) are the proof they decode to
			var p cmtmerkle.Proof
			if cbor.Unmarshal(raw, &p) == nil {
				pj = toJ(&p)
			}
		}
		err := merkle.VerifyTransaction(raw, q.Root, q.Tx)
		v := merkleVerdict(err)
		r.verifyTx(pj, q.Tx)
		coqQ = append(coqQ, fmt.Sprintf("(%s, %s, %s)", optProof(t, pj), t.opt(q.Root), t.B(q.Tx)))
		coqV = append(coqV, v)
		res.stats = append(res.stats, "alteration:"+q.Alter, "verdict:"+v)
		if err == nil {
			res.accepted++
			// S: the property itself, on the implementation's verdict.
			if bytes.Equal(q.Root, root) {
				if !inList(q.Tx, c.Txs) {
					res.violations = append(res.violations, "inclusion proof accepted for a transaction that is not in the block ("+q.Alter+")")
				} else if pj != nil && pj.Total == int64(len(c.Txs)) && (pj.Index < 0 || pj.Index >= pj.Total || !bytes.Equal(c.Txs[pj.Index], q.Tx)) {
					res.violations = append(res.violations, "inclusion proof with the right total accepted at a wrong index ("+q.Alter+")")
				}
			} else {
				res.violations = append(res.violations, "inclusion proof accepted against a root that is not the block's ("+q.Alter+")")
			}
		} else if q.Alter == "genuine" {
			res.violations = append(res.violations, "genuine inclusion proof rejected: "+err.Error())
		}
	}
	res.nontrivial = len(c.Txs) >= 2 && len(c.Queries) > 0
	in := fmt.Sprintf("(%s, %s, %s, %s)", r.coq(t), t.list(c.Txs), coqout.Bool(c.WantProofs), coqout.List(coqQ))
	out := fmt.Sprintf("(%s, %s, %s)", t.B(root), coqout.List(coqProofs), coqout.List(coqV))
	res.coq = "(" + in + ", " + out + ")"
	res.t = t
	return res
}

// alterations of the genuine proof of txs[i].
func alterations(r *prng.R, txs [][]byte, root []byte, ps []*proofJ, i int, all bool) []MQuery {
	g := ps[i]
	tx := txs[i]
	n := int64(len(txs))
	var qs []MQuery
	add := func(label string, p *proofJ, root []byte, tx []byte) {
		qs = append(qs, MQuery{Alter: label, Proof: p, Root: root, Tx: tx})
	}
	mod := func(f func(p *proofJ)) *proofJ { p := cloneJ(g); f(p); return p }
	add("genuine", g, root, tx)
	cand := []func(){
		func() { add("index+1", mod(func(p *proofJ) { p.Index++ }), root, tx) },
		func() { add("index-1", mod(func(p *proofJ) { p.Index-- }), root, tx) },
		func() { add("index=total", mod(func(p *proofJ) { p.Index = p.Total }), root, tx) },
		func() { add("index=-1", mod(func(p *proofJ) { p.Index = -1 }), root, tx) },
		func() { add("index=other", mod(func(p *proofJ) { p.Index = int64(r.Intn(int(n) + 1)) }), root, tx) },
		func() { add("total+1", mod(func(p *proofJ) { p.Total++ }), root, tx) },
		func() { add("total-1", mod(func(p *proofJ) { p.Total-- }), root, tx) },
		func() { add("total=0", mod(func(p *proofJ) { p.Total = 0 }), root, tx) },
		func() { add("total=-1", mod(func(p *proofJ) { p.Total = -1 }), root, tx) },
		func() { add("total=2^62", mod(func(p *proofJ) { p.Total = 1 << 62 }), root, tx) },
		func() { add("total=maxint64", mod(func(p *proofJ) { p.Total = 1<<63 - 1 }), root, tx) },
		func() {
			// re-index inside a smaller/larger tree keeping the aunts
			add("total,index=random", mod(func(p *proofJ) { p.Total = int64(1 + r.Intn(int(n)+2)); p.Index = int64(r.Intn(int(p.Total))) }), root, tx)
		},
		func() {
			// the sub-tree trick: drop the top aunts and pretend the tree is smaller
			add("aunts-truncated,total=2^k", mod(func(p *proofJ) {
				if len(p.Aunts) > 0 {
					k := r.Intn(len(p.Aunts))
					p.Aunts = p.Aunts[:k]
					p.Total = 1 << uint(k)
					p.Index = p.Index % p.Total
				}
			}), root, tx)
		},
		func() {
			add("aunts-swapped", mod(func(p *proofJ) {
				if len(p.Aunts) >= 2 {
					a, b := r.Intn(len(p.Aunts)), r.Intn(len(p.Aunts)-1)
					if b >= a {
						b++
					}
					p.Aunts[a], p.Aunts[b] = p.Aunts[b], p.Aunts[a]
				} else {
					p.Aunts = append(p.Aunts, r.Bytes(32))
				}
			}), root, tx)
		},
		func() {
			add("aunt-dropped-last", mod(func(p *proofJ) {
				if len(p.Aunts) > 0 {
					p.Aunts = p.Aunts[:len(p.Aunts)-1]
				} else {
					p.Aunts = [][]byte{r.Bytes(32)}
				}
			}), root, tx)
		},
		func() {
			add("aunt-dropped-first", mod(func(p *proofJ) {
				if len(p.Aunts) > 0 {
					p.Aunts = p.Aunts[1:]
				} else {
					p.Aunts = [][]byte{r.Bytes(32)}
				}
			}), root, tx)
		},
		func() {
			add("aunt-added-end", mod(func(p *proofJ) { p.Aunts = append(p.Aunts, r.Bytes(32)) }), root, tx)
		},
		func() {
			add("aunt-added-front", mod(func(p *proofJ) { p.Aunts = append([][]byte{r.Bytes(32)}, p.Aunts...) }), root, tx)
		},
		func() {
			add("aunt-bitflip", mod(func(p *proofJ) {
				if len(p.Aunts) > 0 {
					j := r.Intn(len(p.Aunts))
					p.Aunts[j] = flip(p.Aunts[j], r.Intn(256))
				} else {
					p.LeafHash = flip(p.LeafHash, r.Intn(256))
				}
			}), root, tx)
		},
		func() {
			add("aunt-resized", mod(func(p *proofJ) {
				if len(p.Aunts) > 0 {
					j := r.Intn(len(p.Aunts))
					if r.Chance(50) {
						p.Aunts[j] = p.Aunts[j][:31]
					} else {
						p.Aunts[j] = append(p.Aunts[j], 0)
					}
				} else {
					p.LeafHash = p.LeafHash[:31]
				}
			}), root, tx)
		},
		func() { add("aunts-emptied", mod(func(p *proofJ) { p.Aunts = nil; p.Total = n + 1 }), root, tx) },
		func() {
			add("leafhash-bitflip", mod(func(p *proofJ) { p.LeafHash = flip(p.LeafHash, r.Intn(256)) }), root, tx)
		},
		func() {
			// leaf hash := hash of the transaction (one hashing level skipped)
			add("leafhash=txhash", mod(func(p *proofJ) { h := newRec().H(tx); p.LeafHash = h }), root, tx)
		},
		func() { add("tx-bitflip", g, root, flip(tx, r.Intn(512))) },
		func() { add("tx-extended", g, root, append(append([]byte{}, tx...), 0)) },
		func() { add("tx=txhash", g, root, newRec().H(tx)) },
		func() {
			j := r.Intn(len(txs))
			add("tx-of-other-index", g, root, txs[j])
		},
		func() {
			j := r.Intn(len(txs))
			add("proof-of-other-index", ps[j], root, tx)
		},
		func() { add("root-bitflip", g, flip(root, r.Intn(256)), tx) },
		func() { add("root-nil", g, nil, tx) },
		func() { add("root-empty", g, []byte{}, tx) },
		func() { add("root=leafhash", g, g.LeafHash, tx) },
		func() {
			// an interior node presented as a leaf (second-preimage shape):
			// total=1, no aunts, leaf hash = root
			add("interior-as-leaf", &proofJ{Total: 1, Index: 0, LeafHash: root, Aunts: nil}, root, tx)
		},
		func() {
			raw := encodeJ(g)
			qs = append(qs, MQuery{Alter: "proof-truncated-cbor", Raw: raw[:len(raw)-1-r.Intn(len(raw)-1)], Root: root, Tx: tx})
		},
		func() {
			qs = append(qs, MQuery{Alter: "proof-garbage", Raw: r.Bytes(1 + r.Intn(40)), Root: root, Tx: tx})
		},
	}
	if all {
		for _, f := range cand {
			f()
		}
	} else {
		for k := 0; k < 4; k++ {
			cand[r.Intn(len(cand))]()
		}
	}
	return qs
}

func genTxs(r *prng.R, n int) [][]byte {
	txs := make([][]byte, n)
	for i := range txs {
		switch {
		case r.Chance(5):
			txs[i] = []byte{}
		case i > 0 && r.Chance(5):
			txs[i] = append([]byte{}, txs[r.Intn(i)]...) // duplicate transaction
		case r.Chance(10):
			txs[i] = r.Bytes(32) // looks like a digest
		case r.Chance(5):
			txs[i] = r.Bytes(65) // looks like an inner-node preimage
		default:
			txs[i] = r.Bytes(1 + r.Intn(24))
		}
	}
	return txs
}

func genMCases(r *prng.R, maxN, full, rounds int) []MCase {
	var cases []MCase
	for round := 0; round < rounds; round++ {
		for n := 0; n <= maxN; n++ {
			txs := genTxs(r, n)
			root, proofs := merkle.ProofsForTransactions(txs)
			ps := make([]*proofJ, len(proofs))
			for i, pb := range proofs {
				var p cmtmerkle.Proof
				if err := cbor.Unmarshal(pb, &p); err != nil {
					panic(err)
				}
				ps[i] = toJ(&p)
			}
			// the list itself: root and all proofs
			c := MCase{Txs: txs, WantProofs: true}
			if n == 0 {
				// nothing is provable in an empty block
				c.Queries = []MQuery{
					{Alter: "empty-block-total0", Proof: &proofJ{Total: 0, Index: 0, LeafHash: newRec().leaf(newRec().H([]byte{1})), Aunts: nil}, Root: root, Tx: []byte{1}},
					{Alter: "empty-block-total1", Proof: &proofJ{Total: 1, Index: 0, LeafHash: root, Aunts: nil}, Root: root, Tx: []byte{}},
				}
			}
			for i := 0; i < n; i++ {
				c.Queries = append(c.Queries, alterations(r.Fork(), txs, root, ps, i, n <= full)...)
			}
			cases = append(cases, c)
		}
	}
	return cases
}

func mainMerkle(seed uint64, maxN, full, rounds int, out, replay string) {
	w := newCaseWriter(out, coqHeader, "run_mcase", "mout_eqb", 2)
	sum := coqout.NewSummary("every transaction list length 0..maxn (random contents incl. empty, duplicate, 32- and 65-byte transactions): root and all proofs of ProofsForTransactions; for every index the genuine proof and altered (proof, root, tx) triples through VerifyTransaction (all ~35 alterations for lists up to -full, 4 seeded ones above); non-trivial = list of >= 2 transactions with at least one query; distinct = distinct (list, queries) descriptions")
	var cases []MCase
	if replay != "" {
		cases = []MCase{loadCase[MCase](replay)}
	} else {
		cases = genMCases(prng.New(seed), maxN, full, rounds)
	}
	seen := map[string]bool{}
	for _, c := range cases {
		res := runM(c)
		key, _ := json.Marshal(c)
		if res.nontrivial && !seen[string(key)] {
			sum.DistinctNontrivial++
		}
		seen[string(key)] = true
		sum.Evaluations++
		sum.Count("txs", fmt.Sprintf("%02d", len(c.Txs)))
		for _, s := range res.stats {
			h, k := splitStat(s)
			sum.Count(h, k)
		}
		if len(c.Txs) == 5 {
			sum.Sample(c, 2)
		}
		if res.panicked != "" {
			sum.Violations = append(sum.Violations, map[string]any{"what": "implementation panicked: " + res.panicked, "case": c})
			continue
		}
		w.Add(res.t, res.coq, map[string]any{"case": c})
		if len(res.violations) > 0 {
			sc := shrinkM(c)
			sum.Violations = append(sum.Violations, map[string]any{"what": runM(sc).violations[0], "case": sc})
		}
	}
	sum.Extra["verify_transaction_calls"] = sum.Histograms["verdict"]
	w.Close()
	sum.Write(out)
}

// shrinkM keeps one violating query.
func shrinkM(c MCase) MCase {
	for _, q := range c.Queries {
		c1 := MCase{Txs: c.Txs, Queries: []MQuery{q}}
		if r := runM(c1); len(r.violations) > 0 {
			return c1
		}
	}
	return c
}

func splitStat(s string) (string, string) {
	for i := 0; i < len(s); i++ {
		if s[i] == ':' {
			return s[:i], s[i+1:]
		}
	}
	return "misc", s
}

func loadCase[T any](path string) T {
	b, err := os.ReadFile(path)
	if err != nil {
		panic(err)
	}
	var wrap struct {
		Case *T `json:"case"`
	}
	if json.Unmarshal(b, &wrap) == nil && wrap.Case != nil {
		return *wrap.Case
	}
	var c T
	if err := json.Unmarshal(b, &c); err != nil {
		panic(err)
	}
	return c
}
