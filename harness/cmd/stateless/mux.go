package main

import (
	"context"
	"crypto/sha256"
	"fmt"

	abci "github.com/cometbft/cometbft/abci/types"
	cmted "github.com/cometbft/cometbft/crypto/ed25519"
	cmtversion "github.com/cometbft/cometbft/proto/tendermint/version"
	cmtcoretypes "github.com/cometbft/cometbft/rpc/core/types"
	cmttypes "github.com/cometbft/cometbft/types"

	"github.com/oasisprotocol/oasis-core/go/common/cbor"
	consensus "github.com/oasisprotocol/oasis-core/go/consensus/api"
	"github.com/oasisprotocol/oasis-core/go/consensus/api/transaction"
	cmtapi "github.com/oasisprotocol/oasis-core/go/consensus/cometbft/api"
	consensusState "github.com/oasisprotocol/oasis-core/go/consensus/cometbft/apps/consensus/state"
	"github.com/oasisprotocol/oasis-core/go/consensus/cometbft/light"
	genesis "github.com/oasisprotocol/oasis-core/go/consensus/genesis"

	"verifharness/internal/muxdrv"
)

// muxChain executes n blocks on the REAL ABCI multiplexer (all consensus apps,
// signed staking transfers, the proposer's block-metadata transaction) and
// wraps every executed block into a CometBFT-style header the way CometBFT
// would: AppHash / LastResultsHash of block h+1 are the state root / results
// hash of block h, DataHash covers the executed transactions, the validator
// hashes come from the driver's validator-set bookkeeping, the last commit
// lists the votes handed to BeginBlock (with placeholder signatures: the
// stateless verify functions never check signatures, the light client does).
// Returns the tuples plus the genesis state root reported by InitChain.
func muxChain(seed uint64, n int) (tps []*tuple, genesisRoot []byte, rep *muxdrv.Replica, err error) {
	defer func() {
		if p := recover(); p != nil {
			err = fmt.Errorf("mux chain: %v", p)
		}
	}()
	g, err := muxdrv.NewGenesis(seed, muxdrv.GenesisOpts{Validators: 4, Accounts: 6})
	if err != nil {
		return nil, nil, nil, err
	}
	prop, err := muxdrv.NewReplica(g, muxdrv.ReplicaConfig{Name: "c19", Identity: g.Validators[0].Identity})
	if err != nil {
		return nil, nil, nil, err
	}
	rep = prop
	ch := muxdrv.NewChain(g)
	valSet := func(h int64) *cmttypes.ValidatorSet {
		var vals []*cmttypes.Validator
		for _, v := range ch.ValidatorsAt(h) {
			vals = append(vals, cmttypes.NewValidator(cmted.PubKey(v.PubKey), v.Power))
		}
		return cmttypes.NewValidatorSet(vals)
	}
	cp := *g.Cmt.ConsensusParams
	// the validators' real consensus keys sign the headers (light verification runs on them)
	keys := map[string]cmted.PrivKey{}
	for _, v := range g.Validators {
		k := cmted.PrivKey(v.Cons.Priv)
		keys[string(k.PubKey().Address())] = k
	}
	var appHash []byte // of the initial height: InitChain's response (not recorded by the driver); tuples start at the second block
	lastResultsHash := cmttypes.NewResults(nil).Hash()
	lastBlockID := cmttypes.BlockID{}
	nonces := map[int]uint64{}
	for i := 0; i <= n; i++ {
		in := ch.NewBlock(g.Validators[0].ConsAddr, muxdrv.VotesMask(0b1011+uint64(i%4)), nil)
		var cands [][]byte
		for k := 0; k <= i%3; k++ {
			from, to := (i+k)%len(g.Accounts), (i+k+1)%len(g.Accounts)
			amount := uint64(10 + i)
			if k == 2 {
				amount = 1 << 62 // fails in DeliverTx: insufficient balance
			}
			cands = append(cands, muxdrv.Sign(g.Accounts[from].Key, muxdrv.TxTransfer(nonces[from], muxdrv.Fee(10, muxdrv.DefaultGas), g.Accounts[to].Address, amount)))
			nonces[from]++
		}
		txs, e := prop.Propose(in, cands)
		if e != nil {
			return nil, nil, rep, e
		}
		res, e := prop.Process(in, txs)
		if e != nil {
			return nil, nil, rep, e
		}
		ch.Applied(res)

		vals, nextVals := valSet(in.Height), valSet(in.Height+1)
		commit := &cmttypes.Commit{}
		if len(in.LastCommit.Votes) > 0 {
			commit = &cmttypes.Commit{Height: in.Height - 1, Round: in.LastCommit.Round, BlockID: lastBlockID}
			for _, v := range in.LastCommit.Votes {
				if !v.SignedLastBlock {
					commit.Signatures = append(commit.Signatures, cmttypes.NewCommitSigAbsent())
					continue
				}
				sig := sha256.Sum256(append([]byte("placeholder signature"), v.Validator.Address...))
				commit.Signatures = append(commit.Signatures, cmttypes.CommitSig{BlockIDFlag: cmttypes.BlockIDFlagCommit,
					ValidatorAddress: v.Validator.Address, Timestamp: in.Time, Signature: append(sig[:], sig[:]...)})
			}
		}
		var ctxs cmttypes.Txs
		for _, t := range txs {
			ctxs = append(ctxs, t)
		}
		data := cmttypes.Data{Txs: ctxs}
		hdr := cmttypes.Header{
			Version: cmtversion.Consensus{Block: 11, App: cp.Version.App}, ChainID: g.Cmt.ChainID, Height: in.Height, Time: in.Time,
			LastBlockID: lastBlockID, LastCommitHash: commit.Hash(), DataHash: data.Hash(), ValidatorsHash: vals.Hash(),
			NextValidatorsHash: nextVals.Hash(), ConsensusHash: cp.Hash(), AppHash: appHash, LastResultsHash: lastResultsHash,
			EvidenceHash: (&cmttypes.EvidenceData{}).Hash(), ProposerAddress: in.Proposer,
		}
		blk := &cmttypes.Block{Header: hdr, Data: data, LastCommit: commit}
		var cblk *consensus.Block
		if i > 0 {
			if cblk, e = cmtapi.NewBlock(blk); e != nil {
				return nil, nil, rep, e
			}
		}
		conv := func(evs []muxdrv.Event) []abci.Event {
			var out []abci.Event
			for _, ev := range evs {
				x := abci.Event{Type: ev.Type}
				for _, a := range ev.Attrs {
					x.Attributes = append(x.Attributes, abci.EventAttribute{Key: a[0], Value: a[1]})
				}
				out = append(out, x)
			}
			return out
		}
		var txr []*abci.ResponseDeliverTx
		for _, d := range res.TxResults {
			txr = append(txr, &abci.ResponseDeliverTx{Code: d.Code, Codespace: d.Codespace, Data: d.Data, GasUsed: d.GasUsed, GasWanted: d.GasWanted, Log: d.Log, Events: conv(d.Events)})
		}
		results := cmtapi.NewBlockResults(&cmtcoretypes.ResultBlockResults{Height: in.Height, TxsResults: txr,
			BeginBlockEvents: conv(res.BeginEvents), EndBlockEvents: conv(res.EndEvents)})
		resultsHash := cmttypes.NewResults(txr).Hash()

		// the oasis consensus parameters as stored in the executed state
		var sp *genesis.Parameters
		if tree, closer, e := prop.TreeAt(in.Height); e == nil {
			sp, _ = consensusState.NewImmutableState(tree).ConsensusParameters(context.Background())
			closer()
		}
		var params *consensus.Parameters
		if sp != nil {
			pbp := cp.ToProto()
			params = &consensus.Parameters{Height: in.Height, Parameters: *sp, Meta: must(pbp.Marshal())}
		}
		var sigTxs []*transaction.SignedTransaction
		for _, raw := range txs {
			var s transaction.SignedTransaction
			if cbor.Unmarshal(raw, &s) == nil {
				sigTxs = append(sigTxs, &s)
			}
		}
		next := hdr
		next.Height, next.LastResultsHash, next.AppHash = in.Height+1, resultsHash, res.AppHash
		if i > 0 {
			tps = append(tps, &tuple{name: fmt.Sprintf("mux-%d-%d", seed, in.Height), height: in.Height, valsProto: must(must(vals.ToProto()).Marshal()),
				root: res.AppHash, hdr: hdr, commit: must(signCommit(&hdr, vals, keys).ToProto().Marshal()), header: must(hdr.ToProto().Marshal()), nextHeader: must(next.ToProto().Marshal()),
				block: cblk, txs: txs, results: results, resultsHash: resultsHash,
				validators: must(light.EncodeValidators(nextVals, in.Height+1)), params: params, stateParams: sp, sigTxs: sigTxs})
		}
		appHash, lastResultsHash = res.AppHash, resultsHash
		lastBlockID = cmttypes.BlockID{Hash: hdr.Hash(), PartSetHeader: cmttypes.PartSetHeader{Total: 1, Hash: hdr.Hash()}}
	}
	return tps, genesisRoot, rep, nil
}
