package main

import (
	"bytes"
	"context"
	"encoding/json"
	"fmt"
	"time"

	cmttypes "github.com/cometbft/cometbft/types"

	"github.com/oasisprotocol/oasis-core/go/common/crypto/signature"
	consensus "github.com/oasisprotocol/oasis-core/go/consensus/api"
	cmtapi "github.com/oasisprotocol/oasis-core/go/consensus/cometbft/api"
	"github.com/oasisprotocol/oasis-core/go/consensus/cometbft/light"
	"github.com/oasisprotocol/oasis-core/go/consensus/cometbft/stateless"

	"verifharness/internal/coqout"
	"verifharness/internal/prng"
)

// Histories: ONE Core (its two LRU caches, its latest block, its "watching"
// flag) driven through a sequence of public calls while the untrusted
// provider's answers change between calls; the model (Stateless/Cache.v)
// replays the same history.

type HOp struct {
	Op             string                  `json:"op"` // stateroot results newblock watch latest latestblock
	Height         int64                   `json:"height,omitempty"`
	Txs            [][]byte                `json:"txs,omitempty"`     // provider's GetTransactions answer
	Results        *consensus.BlockResults `json:"results,omitempty"` // provider's GetBlockResults answer
	Block          *consensus.Block        `json:"block,omitempty"`
	ProviderLatest int64                   `json:"provider_latest,omitempty"`
	LatestSeq      []int64                 `json:"latest_seq,omitempty"` // latest-*: the provider's answers to consecutive GetLatestHeight requests (the last one repeats); it serves the honest data of whatever height it is asked for
	Note           string                  `json:"note,omitempty"`
}

type HCase struct {
	Name  string   `json:"name"`
	Chain [][]byte `json:"chain"` // headers of the light client's trusted store, ascending
	Ops   []HOp    `json:"ops"`
	// honest data per height, for the oracle
	Roots   map[int64][]byte                  `json:"roots"`
	Results map[int64]*consensus.BlockResults `json:"honest_results"`
	Blocks  map[int64]*consensus.Block        `json:"honest_blocks"`
	Txs     map[int64][][]byte                `json:"honest_txs"`
}

type histProvider struct {
	consensus.Backend
	op  *HOp
	c   *HCase
	seq []int64
}

func (p *histProvider) moving() bool { return p.op.LatestSeq != nil }

func (p *histProvider) GetTransactions(_ context.Context, h int64) ([][]byte, error) {
	if p.moving() {
		if txs, ok := p.c.Txs[h]; ok {
			return txs, nil
		}
		return nil, consensus.ErrVersionNotFound
	}
	return p.op.Txs, nil
}
func (p *histProvider) GetBlock(_ context.Context, h int64) (*consensus.Block, error) {
	if b, ok := p.c.Blocks[h]; ok {
		cp := *b
		return &cp, nil
	}
	return nil, consensus.ErrVersionNotFound
}
func (p *histProvider) GetBlockResults(_ context.Context, h int64) (*consensus.BlockResults, error) {
	if p.moving() {
		if rs, ok := p.c.Results[h]; ok {
			cp := *rs
			return &cp, nil
		}
		return nil, consensus.ErrVersionNotFound
	}
	if p.op.Results == nil {
		return nil, consensus.ErrVersionNotFound
	}
	cp := *p.op.Results
	return &cp, nil
}
func (p *histProvider) GetLatestHeight(context.Context) (int64, error) {
	if p.moving() {
		h := p.seq[0]
		if len(p.seq) > 1 {
			p.seq = p.seq[1:]
		}
		return h, nil
	}
	return p.op.ProviderLatest, nil
}

type hresult struct {
	t          *tb
	coq        string
	violations []string
	stats      []string
	panicked   string
}

func runH(c HCase) (res hresult) {
	defer func() {
		if p := recover(); p != nil {
			res.panicked = fmt.Sprint(p) + " @ " + panicSite()
		}
	}()
	t, r := newTB(), newRec()
	var lbs []*cmttypes.LightBlock
	at := map[int64]*cmttypes.LightBlock{}
	for _, h := range c.Chain {
		x := lightBlockOf(h)
		lbs = append(lbs, x)
		at[x.Height] = x
	}
	last := lbs[len(lbs)-1].Height
	lc := must(light.VerifNewClientWithTrustedLightBlocks(lbs))
	prov := &histProvider{c: &c}
	core := stateless.NewCore(prov, lc, stateless.Config{})
	ctx := context.Background()
	optLB := func(h int64) string {
		if x, ok := at[h]; ok {
			return "(Some " + lbCoq(t, x) + ")"
		}
		return "None"
	}
	bad := func(i int, what string) {
		res.violations = append(res.violations, fmt.Sprintf("%s (history %s, operation %d: %s)", what, c.Name, i, c.Ops[i].Op))
	}
	var ops, answers, decs []string
	seenDec := map[string]bool{}
	for i := range c.Ops {
		op := &c.Ops[i]
		prov.op = op
		prov.seq = append([]int64{}, op.LatestSeq...)
		switch op.Op {
		case "stateroot":
			root, err := core.StateRoot(ctx, op.Height)
			r.txRoot(op.Txs)
			if n := len(op.Txs); n > 0 && !seenDec[string(op.Txs[n-1])] {
				seenDec[string(op.Txs[n-1])] = true
				decs = append(decs, "("+t.B(op.Txs[n-1])+", "+absMetaTx(op.Txs[n-1])+")")
			}
			ops = append(ops, fmt.Sprintf("HStateRoot %s %s %s %s", zs(op.Height), optLB(op.Height), optLB(op.Height+1), t.list(op.Txs)))
			if err == nil {
				answers = append(answers, "ARoot (SrOk "+t.B(root.Hash[:])+")")
				res.stats = append(res.stats, "answer:stateroot/SrOk")
				if !bytes.Equal(root.Hash[:], c.Roots[op.Height]) || root.Version != uint64(op.Height) {
					bad(i, "StateRoot handed out a root that is not the one bound to the verified headers")
				}
			} else {
				v := bindVerdict("core-stateroot", err)
				answers = append(answers, "ARoot (SrErr "+v+")")
				res.stats = append(res.stats, "answer:stateroot/"+v)
			}
		case "results":
			_, err := core.GetBlockResults(ctx, op.Height)
			v := bindVerdict("core-results", err)
			a := absResults(op.Results)
			nrh := "None"
			if x, ok := at[op.Height+1]; ok {
				nrh = "(Some " + t.opt(x.LastResultsHash) + ")"
			}
			ops = append(ops, fmt.Sprintf("HBlockResults %s %s %s %s %s", zs(op.Height), optLB(op.Height), zs(last), nrh, a.coq(t, r)))
			answers = append(answers, "AVerdict "+v)
			res.stats = append(res.stats, "answer:results/"+v)
			if err == nil && op.Height < last {
				h := absResults(c.Results[op.Height])
				if a.height != h.height || !eqLists(a.det, h.det) {
					bad(i, "altered hash-covered transaction results accepted below the latest trusted height")
				}
			}
		case "newblock":
			cctx, cancel := context.WithTimeout(ctx, 40*time.Millisecond)
			err := core.VerifHandleNewBlock(cctx, op.Block)
			cancel()
			v := bindVerdict("block", err)
			a := absBlock(op.Block)
			ops = append(ops, fmt.Sprintf("HNewBlock %s %s", optLB(op.Block.Height), a.coq(t, r)))
			answers = append(answers, "AVerdict "+v)
			res.stats = append(res.stats, "answer:newblock/"+v)
			if err == nil {
				hb, ok := c.Blocks[op.Block.Height]
				if !ok || !a.sameBound(absBlock(hb)) {
					bad(i, "handleNewBlock accepted a block whose header-bound fields differ from the honest one")
				}
			}
		case "watch":
			_, sub, err := core.WatchBlocks(ctx)
			if err == nil {
				sub.Close()
			}
			ops = append(ops, "HWatch")
			answers = append(answers, "ANone")
		case "latest":
			// the light client's answer as the call will see it, read BEFORE the call: before its
			// first use the lazy light client has no trusted height (error) and resolveHeight asks
			// the provider even when watching; the call itself initialises the client
			ltS := "None"
			if lt, e := lc.LastTrustedHeight(); e == nil {
				ltS = "(Some " + zs(lt) + ")"
			}
			h, err := core.GetLatestHeight(ctx)
			var tbl []string
			for _, x := range lbs {
				tbl = append(tbl, "("+zs(x.Height)+", "+lbCoq(t, x)+")")
			}
			ops = append(ops, fmt.Sprintf("HLatestHeight %s %s %s", ltS, zs(op.ProviderLatest), coqout.List(tbl)))
			if err == nil {
				answers = append(answers, "AHeight (Some "+zs(h)+")")
				res.stats = append(res.stats, "answer:latest/height")
				if _, ok := at[h]; !ok || h > last {
					bad(i, "GetLatestHeight returned a height without a verified header")
				}
			} else {
				answers = append(answers, "AHeight None")
				res.stats = append(res.stats, "answer:latest/error")
			}
		case "latestblock":
			ops = append(ops, "HLatestBlock")
			if b := core.VerifLatestBlock(); b != nil {
				answers = append(answers, "AHeight (Some "+zs(b.Height)+")")
				if hb, ok := c.Blocks[b.Height]; !ok || at[b.Height] == nil || !absBlock(b).sameBound(absBlock(hb)) {
					bad(i, "the latest block reported is not bound to a verified header")
				}
			} else {
				answers = append(answers, "AHeight None")
			}
		case "latest-txresults", "latest-txs", "latest-results", "latest-stateroot", "latest-block":
			ltS := "None"
			if lt, e := lc.LastTrustedHeight(); e == nil {
				ltS = "(Some " + zs(lt) + ")"
			}
			// what the call is at every height "latest" may resolve to
			cand := append(append([]int64{}, op.LatestSeq...), last)
			seenH := map[int64]bool{}
			var alts []string
			for _, k := range cand {
				if seenH[k] {
					continue
				}
				seenH[k] = true
				txs := c.Txs[k]
				nrh := "None"
				if x, ok := at[k+1]; ok {
					nrh = "(Some " + t.opt(x.LastResultsHash) + ")"
				}
				var o string
				switch op.Op {
				case "latest-txresults", "latest-results":
					rs := c.Results[k]
					if rs == nil {
						continue
					}
					a := absResults(rs)
					if op.Op == "latest-results" {
						o = fmt.Sprintf("HBlockResults %s %s %s %s %s", zs(k), optLB(k), zs(last), nrh, a.coq(t, r))
					} else {
						r.txRoot(txs)
						conv := true
						if meta, e := cmtapi.NewBlockResultsMeta(rs); e == nil {
							conv = len(meta.TxsResults) == len(txs)
						}
						o = fmt.Sprintf("HTxResults %s %s %s %s %s %s %s", zs(k), optLB(k), zs(last), nrh, t.list(txs), a.coq(t, r), coqout.Bool(conv))
					}
				case "latest-txs":
					r.txRoot(txs)
					o = fmt.Sprintf("HApi %s (ApiGetTransactions %s)", optLB(k), t.list(txs))
				case "latest-stateroot":
					r.txRoot(txs)
					if n := len(txs); n > 0 && !seenDec[string(txs[n-1])] {
						seenDec[string(txs[n-1])] = true
						decs = append(decs, "("+t.B(txs[n-1])+", "+absMetaTx(txs[n-1])+")")
					}
					o = fmt.Sprintf("HStateRoot %s %s %s %s", zs(k), optLB(k), optLB(k+1), t.list(txs))
				case "latest-block":
					b, ok := c.Blocks[k]
					if !ok {
						continue
					}
					o = fmt.Sprintf("HApi %s (ApiGetBlock %s)", optLB(k), absBlock(b).coq(t, r))
				}
				alts = append(alts, "("+zs(k)+", "+o+")")
			}
			var seq []string
			for _, k := range op.LatestSeq {
				seq = append(seq, zs(k))
			}
			ops = append(ops, fmt.Sprintf("HAtLatest %s %s %s", ltS, coqout.List(seq), coqout.List(alts)))
			var err error
			one := "everything returned by one call must be bound to ONE verified header: "
			switch op.Op {
			case "latest-txresults":
				var tr *consensus.TransactionsWithResults
				tr, err = core.GetTransactionsWithResults(ctx, consensus.HeightLatest)
				if err == nil {
					found := false
					for k, txs := range c.Txs {
						if !eqLists(tr.Transactions, txs) {
							continue
						}
						found = true
						meta, e := cmtapi.NewBlockResultsMeta(c.Results[k])
						if e != nil || len(meta.TxsResults) != len(tr.Results) {
							bad(i, one+"GetTransactionsWithResults(latest) paired the transactions of one block with a different number of results")
							break
						}
						for j, x := range tr.Results {
							if x.GasUsed != uint64(meta.TxsResults[j].GasUsed) || x.Error.Code != meta.TxsResults[j].Code {
								bad(i, fmt.Sprintf(one+"GetTransactionsWithResults(latest) returned the transactions of block %d with the results of another block", k))
								break
							}
						}
					}
					if !found {
						bad(i, "GetTransactionsWithResults(latest) returned transactions of no verified block")
					}
				}
			case "latest-txs":
				var txs [][]byte
				txs, err = core.GetTransactions(ctx, consensus.HeightLatest)
				if err == nil {
					found := false
					for _, x := range c.Txs {
						found = found || eqLists(txs, x)
					}
					if !found {
						bad(i, "GetTransactions(latest) returned transactions of no verified block")
					}
				}
			case "latest-results":
				_, err = core.GetBlockResults(ctx, consensus.HeightLatest)
			case "latest-block":
				var b *consensus.Block
				b, err = core.GetBlock(ctx, consensus.HeightLatest)
				if err == nil {
					if hb, ok := c.Blocks[b.Height]; !ok || !absBlock(b).sameBound(absBlock(hb)) {
						bad(i, "GetBlock(latest) returned a block that is not bound to a verified header")
					}
				}
			case "latest-stateroot":
				root, e := core.StateRoot(ctx, consensus.HeightLatest)
				err = e
				if e == nil {
					answers = append(answers, "ARoot (SrOk "+t.B(root.Hash[:])+")")
					if !bytes.Equal(root.Hash[:], c.Roots[int64(root.Version)]) {
						bad(i, one+"StateRoot(latest) returned the root of one height under the version of another")
					}
				} else {
					answers = append(answers, "ARoot (SrErr "+bindVerdict("core-stateroot", e)+")")
				}
			}
			if op.Op != "latest-stateroot" {
				kind := map[string]string{"latest-txresults": "core-txresults", "latest-txs": "api-txs", "latest-results": "core-results", "latest-block": "api-block"}[op.Op]
				answers = append(answers, "AVerdict "+bindVerdict(kind, err))
			}
			v := "ok"
			if err != nil {
				v = "error"
			}
			res.stats = append(res.stats, "answer:"+op.Op+"/"+v)
		default:
			panic("unknown op " + op.Op)
		}
		res.stats = append(res.stats, "op:"+op.Op)
	}
	res.t = t
	res.coq = fmt.Sprintf("((%s, %s, %s), %s)", r.coq(t), coqout.List(decs), coqout.List(ops), coqout.List(answers))
	return res
}

// ---------- generation ----------
type hchain struct {
	tps   []*tuple
	chain [][]byte
	c     HCase
}

func mkHChain(r *prng.R, base int64, n int) *hchain {
	h := &hchain{}
	appHash, lrh := r.Bytes(32), r.Bytes(32)
	h.c.Roots, h.c.Results, h.c.Blocks, h.c.Txs = map[int64][]byte{}, map[int64]*consensus.BlockResults{}, map[int64]*consensus.Block{}, map[int64][][]byte{}
	for i := 0; i < n; i++ {
		tp := mkTupleAt(r.Fork(), fmt.Sprintf("hist-%d", i), base+int64(i), appHash, lrh, nil)
		h.tps = append(h.tps, tp)
		h.chain = append(h.chain, tp.header)
		appHash, lrh = tp.root, tp.resultsHash
		h.c.Roots[tp.height], h.c.Results[tp.height], h.c.Txs[tp.height] = tp.root, tp.results, tp.txs
	}
	h.c.Chain = h.chain
	return h
}

func (h *hchain) honestOnly(keep ...int) {
	// the oracle data of long chains is kept only where it is needed
	h.c.Blocks = map[int64]*consensus.Block{}
	for _, i := range keep {
		h.c.Blocks[h.tps[i].height] = h.tps[i].block
	}
}

func genHCases(r *prng.R, rounds int) []HCase {
	var cs []HCase
	garbage := func() [][]byte { return [][]byte{r.Bytes(9)} }
	// A/B: the state-root cache at the latest height (the only provider-dependent entry):
	// hit with a changed provider, survival of 127 other entries, eviction by 128.
	for _, others := range []int{0, 127, 128} {
		n := others + 2
		if n < 4 {
			n = 4
		}
		hc := mkHChain(r.Fork(), 10, n)
		L := n - 1
		tpL := hc.tps[L]
		c := hc.c
		c.Name = fmt.Sprintf("state-root-cache-%d-others", others)
		c.Ops = append(c.Ops, HOp{Op: "stateroot", Height: tpL.height, Txs: garbage(), Note: "miss, garbage"},
			HOp{Op: "stateroot", Height: tpL.height, Txs: tpL.txs, Note: "miss, honest: inserted"},
			HOp{Op: "stateroot", Height: tpL.height, Txs: garbage(), Note: "hit: provider not consulted"})
		for k := 0; k < others; k++ {
			c.Ops = append(c.Ops, HOp{Op: "stateroot", Height: hc.tps[k].height, Txs: garbage(), Note: "from the next verified header"})
		}
		c.Ops = append(c.Ops, HOp{Op: "stateroot", Height: tpL.height, Txs: garbage(), Note: "hit iff not evicted"},
			HOp{Op: "stateroot", Height: tpL.height, Txs: tpL.txs},
			HOp{Op: "stateroot", Height: hc.tps[0].height, Txs: garbage()})
		hc.honestOnly()
		c.Blocks = hc.c.Blocks
		cs = append(cs, c)
	}
	// F: queries for HeightLatest while the provider's tip moves WITHIN one call (blocks with the
	// same number of transactions, so that nothing but the binding distinguishes them)
	for round := 0; round < 1+rounds/4; round++ {
		forceNtx = 2 + round%3
		hc := mkHChain(r.Fork(), []int64{20, 1, 25300000}[round%3], 5)
		forceNtx = 0
		c := hc.c
		c.Name = fmt.Sprintf("moving-tip-%d", round)
		for _, tp := range hc.tps {
			c.Blocks[tp.height] = tp.block
		}
		L := hc.tps[4].height
		for _, seq := range [][]int64{{L - 2, L - 1}, {L - 1, L}, {L, L - 1}, {L - 3, L - 1, L}, {L - 2, L - 2}, {L, L + 1}, {L + 1, L}, {0, L}} {
			for _, k := range []string{"latest-txresults", "latest-txs", "latest-results", "latest-stateroot", "latest-block"} {
				c.Ops = append(c.Ops, HOp{Op: k, LatestSeq: seq})
			}
		}
		c.Ops = append(c.Ops, HOp{Op: "watch"})
		for _, k := range []string{"latest-txresults", "latest-txs", "latest-results", "latest-stateroot", "latest-block"} {
			c.Ops = append(c.Ops, HOp{Op: k, LatestSeq: []int64{L - 2, L - 1}, Note: "watching: latest is the light client's"})
		}
		cs = append(cs, c)
	}
	// C..E: mixed histories over short chains
	for round := 0; round < rounds; round++ {
		n := 4 + r.Intn(3)
		hc := mkHChain(r.Fork(), []int64{1, 7, 25300000}[round%3], n)
		c := hc.c
		c.Name = fmt.Sprintf("mixed-%d", round)
		for i, tp := range hc.tps {
			_ = i
			c.Blocks[tp.height] = tp.block
		}
		L := hc.tps[n-1].height
		pick := func() *tuple { return hc.tps[r.Intn(n)] }
		for k := 0; k < 40; k++ {
			tp := pick()
			switch r.Intn(9) {
			case 0, 1:
				txs := tp.txs
				if r.Chance(50) {
					txs = garbage()
				}
				c.Ops = append(c.Ops, HOp{Op: "stateroot", Height: tp.height, Txs: txs})
			case 2, 3:
				rs := tp.results
				switch r.Intn(4) {
				case 0:
					rs = alterResults(tp.results, func(m *cmtapi.BlockResultsMeta) {
						j := r.Intn(len(m.TxsResults))
						x := *m.TxsResults[j]
						x.GasUsed += 7
						m.TxsResults[j] = &x
					})
				case 1:
					rs = &consensus.BlockResults{Height: tp.height + 1, Meta: tp.results.Meta}
				case 2:
					rs = pick().results
				}
				c.Ops = append(c.Ops, HOp{Op: "results", Height: tp.height, Results: rs})
			case 4:
				b := cloneBlock(tp.block)
				switch r.Intn(4) {
				case 0:
					b.Height++
				case 1:
					b.StateRoot.Hash[3] ^= 1
				case 2:
					b.Size++
				}
				c.Ops = append(c.Ops, HOp{Op: "newblock", Block: b}, HOp{Op: "latestblock"})
			case 5:
				c.Ops = append(c.Ops, HOp{Op: "latest", ProviderLatest: []int64{L, L + 1, L + 9, tp.height, 0, -3, 1 << 40}[r.Intn(7)]})
			case 6:
				if r.Chance(30) {
					c.Ops = append(c.Ops, HOp{Op: "watch"})
				}
			case 7:
				c.Ops = append(c.Ops, HOp{Op: "stateroot", Height: L + int64(r.Intn(3)), Txs: hc.tps[n-1].txs})
			case 8:
				c.Ops = append(c.Ops, HOp{Op: "latestblock"})
			}
		}
		// a block of a height the light client cannot verify: retryLightBlock gives up with the context
		far := cloneBlock(hc.tps[n-1].block)
		far.Height = L + 5
		c.Ops = append(c.Ops, HOp{Op: "newblock", Block: far}, HOp{Op: "latestblock"},
			HOp{Op: "newblock", Block: hc.tps[0].block, Note: "an OLDER honest block: accepted, the latest block moves backwards"}, HOp{Op: "latestblock"})
		cs = append(cs, c)
	}
	return cs
}

func mainHistory(seed uint64, rounds int, out, replay string) {
	func() {
		defer func() { _ = recover() }()
		signature.SetChainContext("verif stateless harness")
	}()
	hdr := "From Coq Require Import Uint63.\nFrom Verif Require Import Lib.Base Stateless.Hex Stateless.Merkle Stateless.Bind Stateless.Cache.\n"
	w := newCaseWriter(out, hdr, "run_hcase", "list_eqb canswer_eqb", 1)
	sum := coqout.NewSummary("histories of public calls (StateRoot, GetBlockResults, handleNewBlock, WatchBlocks, GetLatestHeight) on ONE Core over a light client with a preloaded trusted store while the provider's answers change between calls: three state-root-cache histories (hit with a changed provider; 127 other entries: still a hit; 128: evicted, the provider is consulted again) and -rounds mixed histories of ~45 operations over chains of 4-6 heights; non-trivial = every history; distinct = distinct descriptions")
	var cases []HCase
	if replay != "" {
		cases = []HCase{loadCase[HCase](replay)}
	} else {
		cases = genHCases(prng.New(seed), rounds)
	}
	seen := map[string]bool{}
	for _, c := range cases {
		res := runH(c)
		key, _ := json.Marshal(c)
		if !seen[string(key)] {
			sum.DistinctNontrivial++
		}
		seen[string(key)] = true
		sum.Evaluations++
		sum.Count("history_length", fmt.Sprintf("%03d", len(c.Ops)/10*10))
		for _, s := range res.stats {
			h, k := splitStat(s)
			sum.Count(h, k)
		}
		if res.panicked != "" {
			sum.Violations = append(sum.Violations, map[string]any{"what": "implementation panicked: " + res.panicked, "case": c})
			continue
		}
		w.Add(res.t, res.coq, map[string]any{"case": c})
		if len(res.violations) > 0 {
			// shrink: a single operation that violates on its own, if there is one
			small, what := c, res.violations[0]
			for i := range c.Ops {
				c1 := c
				c1.Ops = []HOp{c.Ops[i]}
				if r1 := runH(c1); r1.panicked == "" && len(r1.violations) > 0 {
					small, what = c1, r1.violations[0]
					break
				}
			}
			sum.Violations = append(sum.Violations, map[string]any{"what": what, "case": small})
		}
	}
	w.Close()
	sum.Write(out)
}
