package main

import (
	"bytes"
	"context"
	"fmt"
	"os"

	cmtmerkle "github.com/cometbft/cometbft/crypto/merkle"
	cmtproto "github.com/cometbft/cometbft/proto/tendermint/types"
	cmttypes "github.com/cometbft/cometbft/types"

	"github.com/oasisprotocol/oasis-core/go/common/cbor"
	consensus "github.com/oasisprotocol/oasis-core/go/consensus/api"
	"github.com/oasisprotocol/oasis-core/go/consensus/api/transaction"
	"github.com/oasisprotocol/oasis-core/go/consensus/cometbft/stateless"

	"verifharness/internal/coqout"
	"verifharness/internal/prng"
)

// The public Core API (GetBlock, GetTransactions, GetTransactionsWithProofs,
// GetParameters, GetValidators, SubmitTxWithProof) over the light-client seam
// and an untrusted provider stub that serves the (possibly altered) response
// of the case whatever height is asked for.

type apiProvider struct {
	consensus.Backend
	c BCase
}

func (p *apiProvider) GetBlock(context.Context, int64) (*consensus.Block, error) {
	if p.c.Block == nil {
		return nil, consensus.ErrVersionNotFound
	}
	cp := *p.c.Block
	return &cp, nil
}
func (p *apiProvider) GetTransactions(context.Context, int64) ([][]byte, error) { return p.c.Txs, nil }
func (p *apiProvider) GetParameters(context.Context, int64) (*consensus.Parameters, error) {
	if p.c.Params == nil {
		return nil, consensus.ErrVersionNotFound
	}
	cp := *p.c.Params
	return &cp, nil
}
func (p *apiProvider) GetValidators(context.Context, int64) (*consensus.Validators, error) {
	if p.c.Validators == nil {
		return nil, consensus.ErrVersionNotFound
	}
	cp := *p.c.Validators
	return &cp, nil
}
func (p *apiProvider) SubmitTxWithProof(context.Context, *transaction.SignedTransaction) (*transaction.Proof, error) {
	return &transaction.Proof{Height: p.c.Height, RawProof: p.c.Proof}, nil
}

func chainLightBlocks(c BCase) []*cmttypes.LightBlock {
	var lbs []*cmttypes.LightBlock
	for i, h := range c.Chain {
		x := lightBlockOf(h)
		if i < len(c.ChainVals) && c.ChainVals[i] != nil {
			var pv cmtproto.ValidatorSet
			if pv.Unmarshal(c.ChainVals[i]) == nil {
				if vs, err := cmttypes.ValidatorSetFromProto(&pv); err == nil {
					x.ValidatorSet = vs
				}
			}
		}
		lbs = append(lbs, x)
	}
	return lbs
}

func runAPI(res *bresult, c BCase, lb *cmttypes.LightBlock, t *tb, r *rec) (q string, accept bool) {
	lc, lbs, verifiable := caseLightClient(c)
	have := verifiable(c.Height)
	core := stateless.NewCore(&apiProvider{c: c}, lc, stateless.Config{})
	core.SetQueriers(nil, &fakeQF{c.StateParams}, nil)
	ctx := context.Background()
	bad := func(what string) { res.violation = fmt.Sprintf("%s (%s / %s)", what, c.Kind, c.Alter) }
	var call string
	var err error
	switch c.Kind {
	case "api-block":
		var blk *consensus.Block
		blk, err = core.GetBlock(ctx, c.Height)
		a := absBlock(c.Block)
		call = "ApiGetBlock " + a.coq(t, r)
		if err == nil {
			if h := absBlock(c.Honest.Block); !have || !a.sameBound(h) {
				bad("GetBlock returned a block whose header-bound fields differ from the honest response")
			} else {
				res.free = a.freeDiffs(h)
			}
			if !absBlock(blk).sameBound(a) {
				bad("GetBlock returned something else than the verified response")
			}
		}
	case "api-txs":
		var txs [][]byte
		txs, err = core.GetTransactions(ctx, c.Height)
		r.txRoot(c.Txs)
		call = "ApiGetTransactions " + t.list(c.Txs)
		if err == nil && (!have || !eqLists(txs, c.Honest.Txs)) {
			bad("GetTransactions returned an altered transaction list")
		}
	case "api-txproofs":
		var twp *consensus.TransactionsWithProofs
		twp, err = core.GetTransactionsWithProofs(ctx, c.Height)
		r.txRoot(c.Txs)
		var ret []string
		if err == nil {
			hs := r.hashAll(c.Txs)
			for i := range c.Txs {
				r.leaf(hs[i])
				r.aunts(hs, i)
			}
			if !have || !eqLists(twp.Transactions, c.Honest.Txs) || len(twp.Proofs) != len(twp.Transactions) {
				bad("GetTransactionsWithProofs returned an altered transaction list")
			}
			for i, pb := range twp.Proofs {
				var p cmtmerkle.Proof
				if cbor.Unmarshal(pb, &p) != nil {
					bad("GetTransactionsWithProofs returned a proof that does not decode")
					continue
				}
				ret = append(ret, toJ(&p).coq(t))
				// S: every returned proof verifies against the verified header through the real verifier
				var st transaction.SignedTransaction
				if cbor.Unmarshal(twp.Transactions[i], &st) == nil && bytes.Equal(cbor.Marshal(&st), twp.Transactions[i]) {
					if e := stateless.VerifVerifyTransactionProof(&transaction.Proof{Height: c.Height, RawProof: pb}, &st, lb); e != nil {
						bad("a proof returned by GetTransactionsWithProofs does not verify: " + e.Error())
					}
				}
			}
		}
		call = fmt.Sprintf("ApiGetTransactionsWithProofs %s %s", t.list(c.Txs), coqout.List(ret))
	case "api-params":
		var pm *consensus.Parameters
		pm, err = core.GetParameters(ctx, c.Height)
		a := absParams(c.Params)
		sp := "None"
		if c.StateParams != nil {
			sp = "(Some " + t.B(cbor.Marshal(c.StateParams)) + ")"
		}
		call = fmt.Sprintf("ApiGetParameters %s %s", a.coq(t, r), sp)
		if err == nil {
			h := absParams(c.Honest.Params)
			if !have || a.height != h.height || !bytes.Equal(a.hashed, h.hashed) || !bytes.Equal(a.cbor, h.cbor) || !bytes.Equal(pm.Meta, c.Params.Meta) {
				bad("GetParameters returned parameters whose hashed part, oasis parameters or height differ from the honest response")
			} else if !bytes.Equal(a.rest, h.rest) {
				res.free = append(res.free, "ConsensusParams.{Evidence,Validator,Version}")
			}
		}
	case "api-validators":
		var vs *consensus.Validators
		vs, err = core.GetValidators(ctx, c.Height)
		a := absValidators(c.Validators)
		prev := "None"
		for _, x := range lbs {
			if x.Height == c.Height-1 {
				prev = "(Some " + lbCoq(t, x) + ")"
			}
		}
		call = fmt.Sprintf("ApiGetValidators %s %s %s", zs(c.Height), prev, a.coq(t, r))
		if err == nil {
			h := absValidators(c.Honest.Validators)
			got := absValidators(vs)
			// the bytes handed to the caller, decoded here without normalisation, must hash to
			// what the verified header commits to
			want := lb.NextValidatorsHash.Bytes() // fallback branch: lb is the light block below
			if have {
				want = lb.ValidatorsHash.Bytes() // answered from the light block of the height itself
			}
			if !bytes.Equal(got.hash, want) {
				bad("GetValidators returned bytes whose own validator set hash is not the one the verified header commits to")
			} else if got.height != c.Height || !eqLists(got.vb, h.vb) {
				bad("GetValidators returned a validator set whose (key, power) list or height differ from the honest one")
			} else if !have {
				if !eqLists(a.rest, h.rest) {
					res.free = append(res.free, "Validator.ProposerPriority")
				}
				if !bytes.Equal(a.set, h.set) {
					res.free = append(res.free, "ValidatorSet.Proposer")
				}
			}
		}
	case "api-txproof":
		_, err = core.SubmitTxWithProof(ctx, c.Tx)
		raw := cbor.Marshal(c.Tx)
		var pj *proofJ
		var p proofJ
		if cbor.Unmarshal(c.Proof, &p) == nil {
			pj = &p
		}
		r.verifyTx(pj, raw)
		call = fmt.Sprintf("ApiSubmitTxWithProof %s %s", optProof(t, pj), t.B(raw))
		if err == nil && (!have || !inList(raw, c.Honest.Txs)) {
			bad("SubmitTxWithProof accepted a proof for a transaction that is not in the block of the proof's height")
		}
	}
	if c.Forge != "" && err != nil && os.Getenv("C19_DEBUG") != "" {
		fmt.Fprintln(os.Stderr, c.Forge, err)
	}
	res.verdict = bindVerdict(c.Kind, err)
	accept = err == nil
	q = fmt.Sprintf("QApi %s (%s)", coqout.Bool(have), call)
	return q, accept
}

// apiTwins turns the verify-function cases of a chain tuple into calls of the
// public API at that height (validators: at the height after the latest one,
// or, for stored heights, answered from the light block itself).
func apiTwins(r *prng.R, tps []*tuple, chain, vals [][]byte) []BCase {
	var cs []BCase
	last := len(tps) - 1
	for i, tp := range tps {
		if tp.block == nil {
			continue
		}
		for _, bc := range genBCases(r.Fork(), tp) {
			if !bytes.Equal(bc.Header, tp.header) {
				continue
			}
			tw := bc
			tw.Chain, tw.ChainVals, tw.Height = chain, vals, tp.height
			switch bc.Kind {
			case "block", "params", "txproof":
				tw.Kind = "api-" + bc.Kind
				cs = append(cs, tw)
			case "txs":
				tw.Kind = "api-txs"
				cs = append(cs, tw)
				tw2 := tw
				tw2.Kind = "api-txproofs"
				cs = append(cs, tw2)
			case "validators":
				if i == last {
					// the height after the latest trusted one: checked against NextValidatorsHash
					tw.Kind, tw.Height = "api-validators", tp.height+1
					cs = append(cs, tw)
				} else {
					// a height the light client can verify: answered from the light block, whatever
					// (altered) set the provider has for it
					tw.Kind, tw.Height, tw.Header = "api-validators", tps[i+1].height, tps[i+1].header
					tw.Alter = "stored-height/" + bc.Alter
					tw.Honest = &BCase{Kind: "validators", Alter: "genuine", Validators: &consensus.Validators{Height: tps[i+1].height, Meta: tps[i+1].valsProto}}
					cs = append(cs, tw)
				}
			}
		}
		if i < last {
			// a stored height: the provider's (here: a wrong) set must not be what is returned
			wrong := tp.validators
			hon := &BCase{Kind: "validators", Alter: "genuine", Validators: &consensus.Validators{Height: tps[i+1].height, Meta: tps[i+1].valsProto}}
			cs = append(cs, BCase{Kind: "api-validators", Alter: "stored-height-provider-ignored", Header: tps[i+1].header,
				Chain: chain, ChainVals: vals, Height: tps[i+1].height, Validators: wrong, Honest: hon})
		}
	}
	// heights the light client cannot verify: nothing may be handed out
	tp := tps[last]
	if tp.block != nil {
		far := tp.height + 7
		hb := &BCase{Block: tp.block, Txs: tp.txs, Params: tp.params}
		cs = append(cs,
			BCase{Kind: "api-block", Alter: "height-not-verifiable", Header: tp.header, Chain: chain, ChainVals: vals, Height: far, Block: tp.block, Honest: hb},
			BCase{Kind: "api-txs", Alter: "height-not-verifiable", Header: tp.header, Chain: chain, ChainVals: vals, Height: far, Txs: tp.txs, Honest: hb},
			BCase{Kind: "api-txproofs", Alter: "height-not-verifiable", Header: tp.header, Chain: chain, ChainVals: vals, Height: far, Txs: tp.txs, Honest: hb},
			BCase{Kind: "api-params", Alter: "height-not-verifiable", Header: tp.header, Chain: chain, ChainVals: vals, Height: far, Params: tp.params, StateParams: tp.stateParams, Honest: hb},
			BCase{Kind: "api-validators", Alter: "height-two-above-latest", Header: tp.header, Chain: chain, ChainVals: vals, Height: tp.height + 2, Validators: tp.validators,
				Honest: &BCase{Validators: tp.validators}},
		)
	}
	return cs
}
