package main

import (
	"encoding/json"
	"fmt"
	"os"
	"path/filepath"
	"strings"
)

// caseWriter writes the same files as coqout.Writer (cases_NNN.v, cases.jsonl,
// shards.json) but puts the byte-string constants of a case in top-level
// Definitions of the shard instead of nested lets (coqc type-checks deeply
// nested lets in quadratic time).  cases.jsonl keeps the self-contained
// let-form of every case for the driver's debug output.
type caseWriter struct {
	dir, header, run, eqb string
	perShard              int
	shard, total          int
	defs, cur             []string
	descs                 []json.RawMessage
	names                 map[string]string
}

func newCaseWriter(dir, header, run, eqb string, perShard int) *caseWriter {
	_ = os.MkdirAll(dir, 0o755)
	return &caseWriter{dir: dir, header: header, run: run, eqb: eqb, perShard: perShard}
}

// Add appends one case built with t; term mentions t's names.
func (w *caseWriter) Add(t *tb, term string, desc any) {
	// constants are shared by all the cases of a shard (keyed by their literal)
	if w.names == nil {
		w.names = map[string]string{}
	}
	reps := make([]string, 0, 2*len(t.order))
	for i, n := range t.order {
		g, ok := w.names[t.lits[i]]
		if !ok {
			g = fmt.Sprintf("k%d", len(w.names))
			w.names[t.lits[i]] = g
			w.defs = append(w.defs, "Definition "+g+" := "+t.lits[i]+".")
		}
		reps = append(reps, n, g)
	}
	w.cur = append(w.cur, strings.NewReplacer(reps...).Replace(term))
	d, _ := json.Marshal(map[string]any{"desc": desc, "coq": t.wrap(term)})
	w.descs = append(w.descs, d)
	w.total++
	if len(w.cur) >= w.perShard {
		w.flush()
	}
}

func (w *caseWriter) flush() {
	if len(w.cur) == 0 {
		return
	}
	var sb strings.Builder
	sb.WriteString(w.header)
	sb.WriteString("\n")
	sb.WriteString(strings.Join(w.defs, "\n"))
	sb.WriteString("\nDefinition cases := [\n")
	sb.WriteString(strings.Join(w.cur, ";\n"))
	sb.WriteString("\n].\n")
	sb.WriteString("Definition M := Eval vm_compute in (mismatches (" + w.run + ") (" + w.eqb + ") cases).\nPrint M.\n")
	_ = os.WriteFile(filepath.Join(w.dir, fmt.Sprintf("cases_%03d.v", w.shard)), []byte(sb.String()), 0o644)
	w.shard++
	w.cur, w.defs, w.names = nil, nil, nil
}

func (w *caseWriter) Close() {
	w.flush()
	f, _ := os.Create(filepath.Join(w.dir, "cases.jsonl"))
	defer f.Close()
	for _, d := range w.descs {
		f.Write(d)
		f.Write([]byte("\n"))
	}
	meta := map[string]any{"shards": w.shard, "per_shard": w.perShard, "total": w.total, "header": w.header, "run": w.run}
	b, _ := json.Marshal(meta)
	_ = os.WriteFile(filepath.Join(w.dir, "shards.json"), b, 0o644)
}
