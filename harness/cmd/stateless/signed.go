package main

import (
	"context"
	"crypto/sha256"
	"time"

	cmted "github.com/cometbft/cometbft/crypto/ed25519"
	cmtlightprovider "github.com/cometbft/cometbft/light/provider"
	cmtproto "github.com/cometbft/cometbft/proto/tendermint/types"
	cmttypes "github.com/cometbft/cometbft/types"

	"github.com/oasisprotocol/oasis-core/go/consensus/cometbft/light"
)

// A chain of SIGNED headers served by in-memory CometBFT light block
// providers, so that the real light verification of the CometBFT light client
// (commit signatures, validator-set hashes, witness cross-check) runs behind
// Core.lightBlock.

// chainLink carries what a header must take from its predecessor to be
// verifiable by the light client.
type chainLink struct {
	vals, nextVals *cmttypes.ValidatorSet
	lastBlockID    cmttypes.BlockID
	lastCommit     *cmttypes.Commit
	ts             time.Time
}

// signCommit makes every validator of the set sign the header.
func signCommit(hdr *cmttypes.Header, vals *cmttypes.ValidatorSet, keys map[string]cmted.PrivKey) *cmttypes.Commit {
	hh := hdr.Hash()
	ph := sha256.Sum256(hh)
	bid := cmttypes.BlockID{Hash: hh, PartSetHeader: cmttypes.PartSetHeader{Total: 1, Hash: ph[:]}}
	c := &cmttypes.Commit{Height: hdr.Height, Round: 0, BlockID: bid}
	for i, v := range vals.Validators {
		k, ok := keys[string(v.Address)]
		if !ok {
			c.Signatures = append(c.Signatures, cmttypes.NewCommitSigAbsent())
			continue
		}
		vote := &cmttypes.Vote{Type: cmtproto.PrecommitType, Height: hdr.Height, Round: 0, BlockID: bid, Timestamp: hdr.Time,
			ValidatorAddress: v.Address, ValidatorIndex: int32(i)}
		sig := must(k.Sign(cmttypes.VoteSignBytes(hdr.ChainID, vote.ToProto())))
		c.Signatures = append(c.Signatures, cmttypes.CommitSig{BlockIDFlag: cmttypes.BlockIDFlagCommit, ValidatorAddress: v.Address, Timestamp: hdr.Time, Signature: sig})
	}
	return c
}

// memProvider serves light blocks from memory.
type memProvider struct {
	chainID string
	lbs     map[int64]*cmttypes.LightBlock
	latest  int64
}

func newMemProvider(chainID string, lbs []*cmttypes.LightBlock) *memProvider {
	p := &memProvider{chainID: chainID, lbs: map[int64]*cmttypes.LightBlock{}}
	for _, lb := range lbs {
		p.lbs[lb.Height] = lb
		if lb.Height > p.latest {
			p.latest = lb.Height
		}
	}
	return p
}

func (p *memProvider) ChainID() string { return p.chainID }
func (p *memProvider) LightBlock(_ context.Context, h int64) (*cmttypes.LightBlock, error) {
	if h == 0 {
		h = p.latest
	}
	if h > p.latest {
		return nil, cmtlightprovider.ErrHeightTooHigh
	}
	lb, ok := p.lbs[h]
	if !ok {
		return nil, cmtlightprovider.ErrLightBlockNotFound
	}
	return lb, nil
}
func (p *memProvider) LightBlockWithPeerID(ctx context.Context, h int64) (*cmttypes.LightBlock, string, error) {
	lb, err := p.LightBlock(ctx, h)
	return lb, "mem", err
}
func (p *memProvider) ReportEvidence(context.Context, cmttypes.Evidence) error { return nil }
func (p *memProvider) MalevolentProvider(string)                               {}

// forged returns a copy of the light block whose commit signatures are corrupted.
func forged(lb *cmttypes.LightBlock) *cmttypes.LightBlock {
	c := *lb.Commit
	c.Signatures = append([]cmttypes.CommitSig{}, lb.Commit.Signatures...)
	for i := range c.Signatures {
		if len(c.Signatures[i].Signature) > 0 {
			s := append([]byte{}, c.Signatures[i].Signature...)
			s[i%len(s)] ^= 0x40
			c.Signatures[i].Signature = s
		}
	}
	return &cmttypes.LightBlock{SignedHeader: &cmttypes.SignedHeader{Header: lb.Header, Commit: &c}, ValidatorSet: lb.ValidatorSet}
}

// caseLightClient builds the light client of a case: over the preloaded
// trusted store (no commits in the case), or over in-memory providers serving
// the signed chain with the first block as the trust root.  [verifiable]
// tells which heights the light client is expected to be able to verify.
func caseLightClient(c BCase) (lc *light.Client, lbs []*cmttypes.LightBlock, verifiable func(h int64) bool) {
	lbs = chainLightBlocks(c)
	in := map[int64]bool{}
	for _, x := range lbs {
		in[x.Height] = true
	}
	if len(c.ChainCommits) == 0 {
		return must(light.VerifNewClientWithTrustedLightBlocks(lbs)), lbs, func(h int64) bool { return in[h] }
	}
	for i, x := range lbs {
		var pc cmtproto.Commit
		if err := pc.Unmarshal(c.ChainCommits[i]); err != nil {
			panic(err)
		}
		x.Commit = must(cmttypes.CommitFromProto(&pc))
	}
	chainID := lbs[0].ChainID
	prim, wit, wit2 := newMemProvider(chainID, lbs), newMemProvider(chainID, lbs), newMemProvider(chainID, lbs)
	if c.Forge != "" {
		for _, x := range lbs {
			if x.Height == c.Height {
				prim.lbs[x.Height] = forged(x)
				if c.Forge == "all" {
					wit.lbs[x.Height] = forged(x)
					wit2.lbs[x.Height] = forged(x)
				}
			}
		}
	}
	lc = must(light.VerifNewClientWithProviders(chainID, lbs[0].Height, lbs[0].Hash(), prim, []cmtlightprovider.Provider{wit, wit2}))
	// a client that follows the chain head: the last height is verified (through the
	// real light verification, from the trust root) before the case's query
	last := lbs[len(lbs)-1].Height
	if !(c.Forge != "" && c.Height == last) {
		if _, err := lc.VerifyLightBlockAt(context.Background(), last); err != nil {
			panic("signed chain does not verify: " + err.Error())
		}
	}
	// a light block with corrupted signatures from the primary fails the real verification
	// (CometBFT does not fall back to a witness for an INVALID header)
	return lc, lbs, func(h int64) bool { return in[h] && !(c.Forge != "" && h == c.Height && h != lbs[0].Height) }
}
