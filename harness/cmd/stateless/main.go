// Command stateless drives the real transaction-inclusion-proof code of
// go/consensus/cometbft/crypto/merkle and the real verification functions of
// go/consensus/cometbft/stateless (through the verif-tagged export wrapper),
// records their verdicts as Coq correspondence cases for
// Verif.Stateless.Merkle / Verif.Stateless.Bind, and evaluates the C19
// predicate ("an altered provider response / proof is rejected") directly on
// the implementation (S).
//
// The Coq model is parametric in the hash function.  For every case the
// harness ships the finite table of (preimage, SHA-256 digest) pairs the model
// needs, computed here with the real SHA-256 by a recording reference.
package main

import (
	"flag"
	"fmt"
	"os"
	"strings"
)

func main() {
	seed := flag.Uint64("seed", 1, "seed")
	mode := flag.String("mode", "merkle", "merkle | bind")
	maxN := flag.Int("maxn", 33, "merkle: largest transaction list")
	full := flag.Int("full", 9, "merkle: lists up to this size get every alteration at every index")
	rounds := flag.Int("rounds", 1, "number of generated rounds (merkle: lists per size; bind: constructed pairs)")
	out := flag.String("out", "", "output directory")
	replay := flag.String("replay", "", "replay a case description (JSON file)")
	flag.Parse()
	if *out == "" {
		fmt.Fprintln(os.Stderr, "need -out")
		os.Exit(2)
	}
	if *replay != "" {
		// a replay file carries its own mode: bind cases have a "kind"
		if b, err := os.ReadFile(*replay); err == nil {
			if strings.Contains(string(b), "\"honest_results\"") {
				*mode = "history"
			} else if strings.Contains(string(b), "\"kind\"") {
				*mode = "bind"
			} else {
				*mode = "merkle"
			}
		}
	}
	switch *mode {
	case "merkle":
		mainMerkle(*seed, *maxN, *full, *rounds, *out, *replay)
	case "bind":
		mainBind(*seed, *rounds, *out, *replay)
	case "history":
		mainHistory(*seed, *rounds, *out, *replay)
	default:
		fmt.Fprintln(os.Stderr, "unknown mode")
		os.Exit(2)
	}
}
