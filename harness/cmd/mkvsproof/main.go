// Command mkvsproof drives the real MKVS proof machinery of go/storage/mkvs
// (Tree.SyncGet / SyncIterate / SyncGetPrefixes, syncer.ProofVerifier, the
// remote-backed tree of NewWithRoot) for property C04.
//
//   - build cases: real SyncGet proofs (both versions, siblings on/off) are
//     decoded to structured entries and compared entry-for-entry with the
//     Coq model's build_get_proof (K).
//   - verify cases: every honest proof and ~30 mutants of it (byte flips, entry
//     deletion / duplication / reordering / truncation / extension, kind swaps,
//     re-encodings, splices from a second tree, wrong version, wrong root) go
//     through the REAL VerifyProof / VerifyProofToWriteLog and through a fresh
//     NewWithRoot tree whose syncer answers with the candidate once; oracle S:
//     an accepted candidate from which some key resolves to a value/absence
//     different from the real contents is a violation; K: verdict, write log
//     and the answers vs the model's verify / plookup_go with H given as a table
//     of real SHA-512/256 digests.
//   - remote cases: NewWithRoot over a scripted syncer mixing honest, corrupt
//     and failing responses with small caches: every Get / iteration returns the
//     full replica's answer or an error; with an honest syncer no error.
//   - depth case: the honest proof for a key below 129 nested prefix keys.
package main

import (
	"bytes"
	"context"
	"encoding/binary"
	"encoding/hex"
	"encoding/json"
	"errors"
	"flag"
	"fmt"
	"os"
	"sort"
	"strings"

	"github.com/oasisprotocol/oasis-core/go/common"
	"github.com/oasisprotocol/oasis-core/go/common/crypto/hash"
	"github.com/oasisprotocol/oasis-core/go/storage/mkvs"
	"github.com/oasisprotocol/oasis-core/go/storage/mkvs/node"
	"github.com/oasisprotocol/oasis-core/go/storage/mkvs/syncer"

	"verifharness/internal/coqout"
	"verifharness/internal/prng"
)

var (
	ctx = context.Background()
	ns  = common.NewTestNamespaceFromSeed([]byte("verif mkvsproof harness ns"), 0)
)

const coqHeader = "From Verif Require Import Lib.Base Mkvs.Trie MkvsProof.Model MkvsProof.Corr.\n"

// ---------- JSON helpers ----------

// HB is a byte string that keeps the nil / empty distinction in JSON.
type HB []byte

func (b HB) MarshalJSON() ([]byte, error) {
	if b == nil {
		return []byte("null"), nil
	}
	return json.Marshal(hex.EncodeToString(b))
}

func (b *HB) UnmarshalJSON(d []byte) error {
	if string(d) == "null" {
		*b = nil
		return nil
	}
	var s string
	if err := json.Unmarshal(d, &s); err != nil {
		return err
	}
	x, err := hex.DecodeString(s)
	if err != nil {
		return err
	}
	*b = make([]byte, len(x))
	copy(*b, x)
	return nil
}

type KV struct {
	K HB `json:"k"`
	V HB `json:"v"`
}

type Mut struct {
	What      string `json:"what"`
	V         uint16 `json:"v"`
	Untrusted HB     `json:"untrusted"`
	Entries   []HB   `json:"entries"`
}

type Case struct {
	Kind string `json:"kind"` // build verify remote depth
	KVs  []KV   `json:"kvs,omitempty"`
	// build
	Ver uint16 `json:"ver,omitempty"`
	Sib bool   `json:"sib,omitempty"`
	Key HB     `json:"key,omitempty"`
	// build: op = "" (get) | "iterate" | "prefixes"
	Op       string `json:"op,omitempty"`
	Prefetch uint16 `json:"prefetch,omitempty"`
	Prefixes []HB   `json:"prefixes,omitempty"`
	Limit    uint16 `json:"limit,omitempty"`
	// verify
	Src     string `json:"src,omitempty"`
	// verify, sub-position proofs: the trusted hash is that of an inner node
	Pos       HB     `json:"pos,omitempty"`        // hash of the inner node
	PosDepth  int    `json:"pos_depth,omitempty"`  // bit depth of the pointer to it
	PosPrefix string `json:"pos_prefix,omitempty"` // bits ("0"/"1") of every key below it (path + its label)
	Keys    []HB   `json:"keys,omitempty"`
	Mutants []Mut  `json:"mutants,omitempty"`
	// remote
	Seed    uint64 `json:"seed,omitempty"`
	NodeCap uint64 `json:"node_cap,omitempty"`
	ValCap  uint64 `json:"val_cap,omitempty"`
	Corrupt int    `json:"corrupt,omitempty"`
	Ops     int    `json:"ops,omitempty"`
	Skip    []int  `json:"skip,omitempty"` // remote: operations generated but not executed
	// fresh: one query on a fresh reader
	Query HB `json:"query,omitempty"`
	// depth
	N int `json:"n,omitempty"`
}

func nn(b []byte) []byte {
	out := make([]byte, len(b))
	copy(out, b)
	return out
}

func coqBytes(b []byte) string {
	const chunk = 8
	if len(b) <= chunk {
		return coqout.Bytes(b)
	}
	var parts []string
	for i := 0; i < len(b); i += chunk {
		parts = append(parts, coqout.Bytes(b[i:min(i+chunk, len(b))]))
	}
	return "(" + strings.Join(parts, " ++ ") + ")"
}

// ---------- the real tree ----------

type world struct {
	tree     mkvs.Tree
	root     node.Root
	contents map[string][]byte
	sorted   []KV // ascending key order
}

func buildTree(kvs []KV) *world {
	t := mkvs.New(nil, nil, node.RootTypeState)
	w := &world{tree: t, contents: map[string][]byte{}}
	for _, kv := range kvs {
		if err := t.Insert(ctx, nn(kv.K), nn(kv.V)); err != nil {
			panic(err)
		}
		w.contents[string(kv.K)] = nn(kv.V)
	}
	_, rh, err := t.Commit(ctx, ns, 0)
	if err != nil {
		panic(err)
	}
	w.root = node.Root{Namespace: ns, Version: 0, Type: node.RootTypeState, Hash: rh}
	for k, v := range w.contents {
		w.sorted = append(w.sorted, KV{K: []byte(k), V: v})
	}
	sort.Slice(w.sorted, func(i, j int) bool { return bytes.Compare(w.sorted[i].K, w.sorted[j].K) < 0 })
	return w
}

func (w *world) treeID() syncer.TreeID {
	return syncer.TreeID{Root: w.root, Position: w.root.Hash}
}

// ---------- structured entries ----------

type SEntry struct {
	Kind   string // nil leaf int hash bad
	K, V   []byte
	BL     uint16
	LB     []byte
	HasLf  bool
	LK, LV []byte
	H      []byte
	// claimed Left/Right hashes of a non-compact internal node encoding
	HasClaim bool
	CL, CR   []byte
}

// decodeEntry projects a raw proof entry to what verifyProof sees of it: the
// node summary is read off the result of the real node.UnmarshalBinary.
func decodeEntry(raw []byte) (e SEntry) {
	defer func() {
		if r := recover(); r != nil {
			e = SEntry{Kind: "bad"}
		}
	}()
	if raw == nil {
		return SEntry{Kind: "nil"}
	}
	if len(raw) == 0 {
		return SEntry{Kind: "bad"}
	}
	switch raw[0] {
	case 0x01:
		n, err := node.UnmarshalBinary(raw[1:])
		if err != nil {
			return SEntry{Kind: "bad"}
		}
		switch nd := n.(type) {
		case *node.LeafNode:
			return SEntry{Kind: "leaf", K: nd.Key, V: nd.Value}
		case *node.InternalNode:
			e := SEntry{Kind: "int", BL: uint16(nd.LabelBitLength), LB: nd.Label}
			if nd.LeafNode != nil {
				lf := nd.LeafNode.Node.(*node.LeafNode)
				e.HasLf, e.LK, e.LV = true, lf.Key, lf.Value
			}
			if nd.Left != nil || nd.Right != nil {
				// only the full (non-compact) encoding sets these (node.go:520-545)
				hl, hr := nd.Left.GetHash(), nd.Right.GetHash()
				e.HasClaim, e.CL, e.CR = true, hl[:], hr[:]
			}
			return e
		}
		return SEntry{Kind: "bad"}
	case 0x02:
		return SEntry{Kind: "hash", H: raw[1:]}
	default:
		return SEntry{Kind: "bad"}
	}
}

func (e SEntry) coq() string {
	switch e.Kind {
	case "nil":
		return "ENil"
	case "leaf":
		return fmt.Sprintf("(EFull (NLeaf %s %s))", coqBytes(e.K), coqBytes(e.V))
	case "int":
		lf := "None"
		if e.HasLf {
			lf = fmt.Sprintf("(Some (%s, %s))", coqBytes(e.LK), coqBytes(e.LV))
		}
		cl := "None"
		if e.HasClaim {
			cl = fmt.Sprintf("(Some (%s, %s))", coqBytes(e.CL), coqBytes(e.CR))
		}
		return fmt.Sprintf("(EFull (NInt %d %s %s %s))", e.BL, coqBytes(e.LB), lf, cl)
	case "hash":
		return fmt.Sprintf("(EHash %s)", coqBytes(e.H))
	}
	return "EBad"
}

func coqEntries(es []SEntry) string {
	var items []string
	for _, e := range es {
		items = append(items, e.coq())
	}
	return coqout.List(items)
}

// ---------- the digest table ----------

type table map[string][]byte

func (t table) add(pre []byte) []byte {
	h := hash.NewFromBytes(pre)
	t[string(pre)] = h[:]
	return h[:]
}

func leafPre(k, v []byte) []byte {
	var kl, vl [4]byte
	binary.LittleEndian.PutUint32(kl[:], uint32(len(k)))
	binary.LittleEndian.PutUint32(vl[:], uint32(len(v)))
	pre := []byte{0x00}
	pre = append(pre, kl[:]...)
	pre = append(pre, k...)
	pre = append(pre, vl[:]...)
	return append(pre, v...)
}

// tabulate walks an entry list the way a verifier would (either version) only
// to enumerate the hash pre-images the model will ask for; digests are real.
func (t table) tabulate(es []SEntry, ver uint16, idx, depth int) (h []byte, next int, ok bool) {
	if idx >= len(es) || depth > 140 {
		return nil, 0, false
	}
	e := es[idx]
	switch e.Kind {
	case "nil":
		return t.add(nil), idx + 1, true
	case "hash":
		if len(e.H) != hash.Size {
			return nil, 0, false
		}
		return e.H, idx + 1, true
	case "leaf":
		return t.add(leafPre(e.K, e.V)), idx + 1, true
	case "int":
		pos := idx + 1
		var hlf []byte
		if ver == 0 {
			if e.HasLf {
				hlf = t.add(leafPre(e.LK, e.LV))
			} else {
				hlf = t.add(nil)
			}
		} else {
			if hlf, pos, ok = t.tabulate(es, ver, pos, depth+1); !ok {
				return nil, 0, false
			}
		}
		hl, pos, ok := t.tabulate(es, ver, pos, depth+1)
		if !ok {
			return nil, 0, false
		}
		hr, pos, ok := t.tabulate(es, ver, pos, depth+1)
		if !ok {
			return nil, 0, false
		}
		var bl [2]byte
		binary.LittleEndian.PutUint16(bl[:], e.BL)
		pre := []byte{0x01}
		pre = append(pre, bl[:]...)
		pre = append(pre, e.LB...)
		pre = append(pre, hlf...)
		pre = append(pre, hl...)
		pre = append(pre, hr...)
		return t.add(pre), pos, true
	}
	return nil, 0, false
}

func (t table) coq() string {
	keys := make([]string, 0, len(t))
	for k := range t {
		keys = append(keys, k)
	}
	sort.Strings(keys)
	var items []string
	for _, k := range keys {
		items = append(items, fmt.Sprintf("(%s, %s)", coqBytes([]byte(k)), coqBytes(t[k])))
	}
	return coqout.List(items)
}

func (t table) merge(o table) {
	for k, v := range o {
		t[k] = v
	}
}

// fullTable: pre-images of every node of the real tree (from a proof that
// iterates over everything).
func (w *world) fullTable() table {
	t := table{}
	t.add(nil)
	rsp, err := w.tree.SyncIterate(ctx, &syncer.IterateRequest{Tree: w.treeID(), Key: []byte{}, Prefetch: 10000})
	if err != nil {
		panic(err)
	}
	es := decodeAll(rsp.Proof.Entries)
	t.tabulate(es, 0, 0, 0)
	return t
}

// shape walks the (version 0) proof that covers the whole tree.
type shape struct {
	internal  int    // internal nodes
	pathDepth int    // internal nodes on the longest root-to-leaf path
	leafBytes uint64 // sum of LeafNode.Size() over all leaves
}

func (w *world) shape() shape {
	rsp, err := w.tree.SyncIterate(ctx, &syncer.IterateRequest{Tree: w.treeID(), Key: []byte{}, Prefetch: 10000})
	if err != nil {
		panic(err)
	}
	es := decodeAll(rsp.Proof.Entries)
	var sh shape
	var rec func(idx, d int) int
	rec = func(idx, d int) int {
		if idx >= len(es) {
			return idx
		}
		e := es[idx]
		switch e.Kind {
		case "leaf":
			sh.leafBytes += node.LeafNodeSize + uint64(len(e.K)+len(e.V))
		case "int":
			sh.internal++
			if d+1 > sh.pathDepth {
				sh.pathDepth = d + 1
			}
			if e.HasLf {
				sh.leafBytes += node.LeafNodeSize + uint64(len(e.LK)+len(e.LV))
			}
			nx := rec(idx+1, d+1)
			return rec(nx, d+1)
		}
		return idx + 1
	}
	rec(0, 0)
	return sh
}

// innerNode: an internal node other than the root.
type innerNode struct {
	hash   []byte
	depth  int    // bit depth of the pointer (bits consumed above the node's label)
	prefix string // path ++ label, as "0"/"1"
	keys   [][]byte
}

func bitsOf(b []byte, n int) string {
	var sb strings.Builder
	for i := 0; i < n && i < len(b)*8; i++ {
		if b[i/8]&(1<<(7-uint(i%8))) != 0 {
			sb.WriteByte('1')
		} else {
			sb.WriteByte('0')
		}
	}
	return sb.String()
}

func (w *world) innerNodes() []innerNode {
	rsp, err := w.tree.SyncIterate(ctx, &syncer.IterateRequest{Tree: w.treeID(), Key: []byte{}, Prefetch: 10000})
	if err != nil {
		panic(err)
	}
	es := decodeAll(rsp.Proof.Entries)
	tab := table{}
	var out []innerNode
	var rec func(idx, depth int, path string) ([]byte, int)
	rec = func(idx, depth int, path string) ([]byte, int) {
		e := es[idx]
		switch e.Kind {
		case "nil":
			return tab.add(nil), idx + 1
		case "leaf":
			return tab.add(leafPre(e.K, e.V)), idx + 1
		case "int":
			full := path + bitsOf(e.LB, int(e.BL))
			d2 := depth + int(e.BL)
			hlf := tab.add(nil)
			if e.HasLf {
				hlf = tab.add(leafPre(e.LK, e.LV))
			}
			hl, nx := rec(idx+1, d2, full)
			hr, nx2 := rec(nx, d2, full)
			var bl [2]byte
			binary.LittleEndian.PutUint16(bl[:], e.BL)
			pre := append([]byte{0x01}, bl[:]...)
			pre = append(pre, e.LB...)
			pre = append(pre, hlf...)
			pre = append(pre, hl...)
			pre = append(pre, hr...)
			h := tab.add(pre)
			if idx != 0 {
				in := innerNode{hash: h, depth: depth, prefix: full}
				for _, kv := range w.sorted {
					if strings.HasPrefix(bitsOf(kv.K, len(kv.K)*8), full) {
						in.keys = append(in.keys, kv.K)
					}
				}
				out = append(out, in)
			}
			return h, nx2
		}
		panic("unexpected entry in a full proof")
	}
	if len(es) > 0 {
		rec(0, 0, "")
	}
	return out
}

func countInternal(p *syncer.Proof) int {
	n := 0
	for _, e := range decodeAll(p.Entries) {
		if e.Kind == "int" {
			n++
		}
	}
	return n
}

func decodeAll(raw [][]byte) []SEntry {
	out := make([]SEntry, len(raw))
	for i, r := range raw {
		out[i] = decodeEntry(r)
	}
	return out
}

// ---------- generators ----------

var alphabet = []byte{0x00, 0x01, 0x80, 0xff}

func genKey(r *prng.R, have [][]byte) []byte {
	switch {
	case len(have) > 0 && r.Chance(30): // extension of an existing key
		b := have[r.Intn(len(have))]
		if len(b) < 4 {
			return append(nn(b), alphabet[r.Intn(4)])
		}
	case len(have) > 0 && r.Chance(20): // prefix of an existing key
		b := have[r.Intn(len(have))]
		return nn(b[:r.Intn(len(b)+1)])
	}
	n := r.Intn(5)
	k := make([]byte, n)
	for i := range k {
		k[i] = alphabet[r.Intn(4)]
	}
	return k
}

func genKVs(r *prng.R) []KV {
	n := 0
	switch x := r.Intn(20); {
	case x == 0:
		n = 0
	case x == 1:
		n = 1
	case x < 10:
		n = r.Range(2, 5)
	default:
		n = r.Range(6, 12)
	}
	var kvs []KV
	var have [][]byte
	seen := map[string]bool{}
	for len(kvs) < n {
		k := genKey(r, have)
		if seen[string(k)] {
			if r.Chance(50) {
				continue
			}
		}
		seen[string(k)] = true
		have = append(have, k)
		kvs = append(kvs, KV{K: k, V: r.Bytes(r.Intn(9))})
	}
	return kvs
}

// queries: present, absent, prefix-of-present, extension-of-present
func genQueries(r *prng.R, w *world, n int) []HB {
	var have [][]byte
	for _, kv := range w.sorted {
		have = append(have, kv.K)
	}
	var out []HB
	for i := 0; i < n; i++ {
		switch {
		case len(have) > 0 && i%4 == 0:
			out = append(out, nn(have[r.Intn(len(have))]))
		case len(have) > 0 && i%4 == 1:
			b := have[r.Intn(len(have))]
			out = append(out, append(nn(b), alphabet[r.Intn(4)]))
		case len(have) > 0 && i%4 == 2:
			// a proper prefix of a present key that is itself absent, if there is one
			q := nn(have[r.Intn(len(have))])
			for t := 0; t < 12; t++ {
				b := have[r.Intn(len(have))]
				if len(b) == 0 {
					continue
				}
				c := b[:r.Intn(len(b))]
				if _, ok := w.contents[string(c)]; !ok {
					q = nn(c)
					break
				}
			}
			out = append(out, q)
		default:
			out = append(out, genKey(r, nil))
		}
	}
	return out
}

func classify(w *world, k []byte) string {
	if _, ok := w.contents[string(k)]; ok {
		return "present"
	}
	pre, ext := false, false
	for _, kv := range w.sorted {
		if len(kv.K) > len(k) && bytes.HasPrefix(kv.K, k) {
			pre = true
		}
		if len(kv.K) < len(k) && bytes.HasPrefix(k, kv.K) {
			ext = true
		}
	}
	switch {
	case pre && ext:
		return "absent-prefix+extension"
	case pre:
		return "absent-prefix-of-present"
	case ext:
		return "absent-extension-of-present"
	}
	return "absent"
}

// universe: every key of length <= 3 over the alphabet, plus the tree's keys
func universe(w *world, extra []HB) [][]byte {
	var out [][]byte
	seen := map[string]bool{}
	add := func(k []byte) {
		if !seen[string(k)] {
			seen[string(k)] = true
			out = append(out, nn(k))
		}
	}
	var rec func(p []byte, d int)
	rec = func(p []byte, d int) {
		add(p)
		if d == 3 {
			return
		}
		for _, a := range alphabet {
			rec(append(nn(p), a), d+1)
		}
	}
	rec([]byte{}, 0)
	for _, kv := range w.sorted {
		add(kv.K)
	}
	for _, k := range extra {
		add(k)
	}
	return out
}

// ---------- honest proofs ----------

type src struct {
	name  string
	proof *syncer.Proof
	query []byte
}

func copyProof(p *syncer.Proof) *syncer.Proof {
	q := &syncer.Proof{V: p.V, UntrustedRoot: p.UntrustedRoot}
	for _, e := range p.Entries {
		if e == nil {
			q.Entries = append(q.Entries, nil)
		} else {
			q.Entries = append(q.Entries, nn(e))
		}
	}
	return q
}

func (w *world) honest(r *prng.R, queries []HB) []src {
	var out []src
	for i, q := range queries {
		ver := uint16(i % 2)
		sib := (i/2)%2 == 1
		rsp, err := w.tree.SyncGet(ctx, &syncer.GetRequest{Tree: w.treeID(), Key: nn(q), IncludeSiblings: sib, ProofVersion: ver})
		if err != nil {
			panic(err)
		}
		out = append(out, src{fmt.Sprintf("get v%d sib=%v", ver, sib), copyProof(&rsp.Proof), q})
	}
	{
		q := queries[r.Intn(len(queries))]
		ver := uint16(r.Intn(2))
		pf := uint16(r.Intn(11))
		rsp, err := w.tree.SyncIterate(ctx, &syncer.IterateRequest{Tree: w.treeID(), Key: nn(q), Prefetch: pf, ProofVersion: ver})
		if err != nil {
			panic(err)
		}
		out = append(out, src{fmt.Sprintf("iterate v%d prefetch=%d", ver, pf), copyProof(&rsp.Proof), q})
	}
	{
		var ps [][]byte
		for j := 0; j < 1+r.Intn(2); j++ {
			ps = append(ps, nn(queries[r.Intn(len(queries))]))
		}
		ver := uint16(r.Intn(2))
		lim := uint16(r.Intn(11))
		rsp, err := w.tree.SyncGetPrefixes(ctx, &syncer.GetPrefixesRequest{Tree: w.treeID(), Prefixes: ps, Limit: lim, ProofVersion: ver})
		if err != nil {
			panic(err)
		}
		out = append(out, src{fmt.Sprintf("prefixes v%d limit=%d n=%d", ver, lim, len(ps)), copyProof(&rsp.Proof), ps[0]})
	}
	return out
}

// ---------- mutation ----------

func mutOf(what string, p *syncer.Proof) Mut {
	m := Mut{What: what, V: p.V, Untrusted: nn(p.UntrustedRoot[:])}
	for _, e := range p.Entries {
		if e == nil {
			m.Entries = append(m.Entries, nil)
		} else {
			m.Entries = append(m.Entries, nn(e))
		}
	}
	return m
}

func (m Mut) clone(what string) Mut {
	c := Mut{What: what, V: m.V, Untrusted: nn(m.Untrusted)}
	for _, e := range m.Entries {
		if e == nil {
			c.Entries = append(c.Entries, nil)
		} else {
			c.Entries = append(c.Entries, nn(e))
		}
	}
	return c
}

func (m Mut) proof() *syncer.Proof {
	p := &syncer.Proof{V: m.V}
	copy(p.UntrustedRoot[:], m.Untrusted)
	for _, e := range m.Entries {
		if e == nil {
			p.Entries = append(p.Entries, nil)
		} else {
			p.Entries = append(p.Entries, nn(e))
		}
	}
	return p
}

// nodeHash: the hash of the node a full entry carries when it can be computed
// from the entry alone (leaf entries, hash entries).
func entryHash(e []byte) ([]byte, bool) {
	se := decodeEntry(e)
	switch se.Kind {
	case "leaf":
		h := hash.NewFromBytes(leafPre(se.K, se.V))
		return h[:], true
	case "nil":
		var h hash.Hash
		h.Empty()
		return h[:], true
	}
	return nil, false
}

func mutate(r *prng.R, base Mut, other *Mut, n int) []Mut {
	var out []Mut
	ne := len(base.Entries)
	pick := func() int { return r.Intn(ne) }
	nonNil := func() int {
		for t := 0; t < 8; t++ {
			i := pick()
			if len(base.Entries[i]) > 0 {
				return i
			}
		}
		return -1
	}
	for len(out) < n {
		m := base.clone("")
		switch k := r.Intn(22); k {
		case 0, 1, 2: // flip one bit inside an entry
			if i := nonNil(); i >= 0 {
				j := r.Intn(len(m.Entries[i]))
				m.Entries[i][j] ^= 1 << uint(r.Intn(8))
				m.What = fmt.Sprintf("bitflip: entry %d byte %d", i, j)
			}
		case 3: // set a byte
			if i := nonNil(); i >= 0 {
				j := r.Intn(len(m.Entries[i]))
				m.Entries[i][j] = byte(r.U64())
				m.What = fmt.Sprintf("setbyte: entry %d byte %d", i, j)
			}
		case 4: // delete an entry
			if ne > 0 {
				i := pick()
				m.Entries = append(m.Entries[:i], m.Entries[i+1:]...)
				m.What = fmt.Sprintf("delete: entry %d", i)
			}
		case 5: // duplicate an entry
			if ne > 0 {
				i := pick()
				es := append([]HB{}, m.Entries[:i+1]...)
				es = append(es, m.Entries[i:]...)
				m.Entries = es
				m.What = fmt.Sprintf("duplicate: entry %d", i)
			}
		case 6: // swap two entries
			if ne > 1 {
				i, j := pick(), pick()
				m.Entries[i], m.Entries[j] = m.Entries[j], m.Entries[i]
				m.What = fmt.Sprintf("swap: entries %d %d", i, j)
			}
		case 7: // truncate
			if ne > 0 {
				i := r.Intn(ne)
				m.Entries = m.Entries[:i]
				m.What = fmt.Sprintf("truncate: to %d", i)
			}
		case 8: // extend
			switch r.Intn(3) {
			case 0:
				m.Entries = append(m.Entries, nil)
				m.What = "extend: with nil"
			case 1:
				if ne > 0 {
					m.Entries = append(m.Entries, nn(base.Entries[pick()]))
					m.What = "extend: with a copy"
				}
			default:
				m.Entries = append(m.Entries, r.Bytes(1+r.Intn(6)))
				m.What = "extend: with random bytes"
			}
		case 9: // full entry -> hash entry of the same node (a coarser honest proof), or nil -> empty hash
			if ne > 0 {
				i := pick()
				if h, ok := entryHash(m.Entries[i]); ok {
					m.Entries[i] = append([]byte{0x02}, h...)
					m.What = fmt.Sprintf("coarsen: entry %d replaced by its hash", i)
				}
			}
		case 10: // hash entry -> nil / nil -> random hash / hash -> other hash
			if ne > 0 {
				i := pick()
				switch {
				case m.Entries[i] == nil:
					m.Entries[i] = append([]byte{0x02}, r.Bytes(32)...)
					m.What = fmt.Sprintf("nil2hash: nil entry %d replaced by a random hash", i)
				case m.Entries[i][0] == 0x02:
					if r.Chance(50) {
						m.Entries[i] = nil
						m.What = fmt.Sprintf("hash2nil: hash entry %d replaced by nil", i)
					} else {
						m.Entries[i] = append([]byte{0x02}, r.Bytes(32)...)
						m.What = fmt.Sprintf("hash2hash: hash entry %d replaced by a random hash", i)
					}
				default:
					m.Entries[i][0] = 0x02
					m.What = fmt.Sprintf("tag2hash: tag of entry %d set to hash", i)
				}
			}
		case 11: // change a leaf's value / key inside a leaf entry (re-encoded)
			if i := nonNil(); i >= 0 {
				se := decodeEntry(m.Entries[i])
				if se.Kind == "leaf" {
					ln := node.LeafNode{Key: nn(se.K), Value: nn(se.V)}
					if r.Chance(50) {
						ln.Value = r.Bytes(r.Intn(9))
						m.What = fmt.Sprintf("leafvalue: leaf entry %d", i)
					} else {
						ln.Key = genKey(r, nil)
						m.What = fmt.Sprintf("leafkey: leaf entry %d", i)
					}
					b, _ := ln.CompactMarshalBinaryV1()
					m.Entries[i] = append([]byte{0x01}, b...)
				} else if se.Kind == "int" {
					// re-encode the internal node with another label length / embedded leaf
					in := node.InternalNode{Label: nn(se.LB), LabelBitLength: node.Depth(se.BL)}
					switch r.Intn(3) {
					case 0:
						if se.BL > 0 {
							in.LabelBitLength = node.Depth(se.BL - 1)
							in.Label = in.Label[:in.LabelBitLength.ToBytes()]
						}
						m.What = fmt.Sprintf("label: internal entry %d shorter label", i)
					case 1:
						in.LeafNode = &node.Pointer{Clean: true, Node: &node.LeafNode{Key: genKey(r, nil), Value: r.Bytes(r.Intn(5))}}
						m.What = fmt.Sprintf("embedleaf: internal entry %d other embedded leaf", i)
					default:
						m.What = fmt.Sprintf("dropleaf: internal entry %d embedded leaf dropped", i)
					}
					b, _ := in.CompactMarshalBinaryV0()
					m.Entries[i] = append([]byte{0x01}, b...)
				}
			}
		case 12: // harmless re-encodings: trailing bytes, non-compact form with child hashes
			if i := nonNil(); i >= 0 && m.Entries[i][0] == 0x01 {
				if r.Chance(50) {
					m.Entries[i] = append(m.Entries[i], r.Bytes(1+r.Intn(5))...)
					m.What = fmt.Sprintf("trailing: entry %d", i)
				} else {
					m.Entries[i] = append(m.Entries[i], r.Bytes(64)...)
					m.What = fmt.Sprintf("noncompact: entry %d with 64 trailing bytes", i)
				}
			}
		case 13: // splice one entry from a proof of another tree
			if other != nil && len(other.Entries) > 0 && ne > 0 {
				i, j := pick(), r.Intn(len(other.Entries))
				if other.Entries[j] == nil {
					m.Entries[i] = nil
				} else {
					m.Entries[i] = nn(other.Entries[j])
				}
				m.What = fmt.Sprintf("splice: entry %d from another tree's entry %d", i, j)
			}
		case 14: // graft a tail of another tree's proof
			if other != nil && len(other.Entries) > 0 && ne > 0 {
				i, j := pick(), r.Intn(len(other.Entries))
				es := append([]HB{}, m.Entries[:i]...)
				for _, e := range other.Entries[j:] {
					if e == nil {
						es = append(es, nil)
					} else {
						es = append(es, nn(e))
					}
				}
				m.Entries = es
				m.What = fmt.Sprintf("graft: tail from entry %d replaced by another tree's tail from %d", i, j)
			}
		case 15: // the whole proof of another tree presented for this root
			if other != nil {
				m = other.clone("foreign-rerooted: another tree's proof with this root as untrusted root")
				m.Untrusted = nn(base.Untrusted)
			}
		case 16: // the whole proof of another tree, its own untrusted root
			if other != nil {
				m = other.clone("foreign: another tree's proof unchanged")
			}
		case 17: // wrong version
			switch r.Intn(3) {
			case 0:
				m.V = 1 - base.V
			case 1:
				m.V = 2
			default:
				m.V = uint16(r.U64())
			}
			m.What = fmt.Sprintf("version: %d -> %d", base.V, m.V)
		case 18: // wrong untrusted root
			if r.Chance(50) {
				m.Untrusted[r.Intn(32)] ^= 1 << uint(r.Intn(8))
				m.What = "untrusted: root bit flipped"
			} else {
				var h hash.Hash
				h.Empty()
				m.Untrusted = nn(h[:])
				m.What = "untrusted: root = empty hash"
			}
		case 19: // empty non-nil entry / nil entry
			if ne > 0 {
				i := pick()
				if r.Chance(50) {
					m.Entries[i] = []byte{}
					m.What = fmt.Sprintf("emptyentry: entry %d := empty non-nil", i)
				} else {
					m.Entries[i] = nil
					m.What = fmt.Sprintf("nilentry: entry %d := nil", i)
				}
			}
		case 20: // reverse / rotate
			if ne > 1 {
				if r.Chance(50) {
					for a, b := 0, ne-1; a < b; a, b = a+1, b-1 {
						m.Entries[a], m.Entries[b] = m.Entries[b], m.Entries[a]
					}
					m.What = "reversed:"
				} else {
					m.Entries = append(m.Entries[1:], m.Entries[0])
					m.What = "rotated:"
				}
			}
		case 21: // only the root as a hash entry (accepted, tells nothing)
			m.Entries = []HB{append([]byte{0x02}, base.Untrusted...)}
			m.What = "roothash: single hash entry of the root"
		}
		if m.What != "" {
			out = append(out, m)
		}
	}
	return out
}

// forged: fabricated proofs presented for the trusted (non-empty) root: a
// single nil entry, a single hash entry carrying the empty hash, a single hash
// entry carrying the trusted root itself, and the honest proof of an unrelated
// one-key tree re-labelled with the trusted root, each in both versions.
func forged(base Mut) []Mut {
	var empty hash.Hash
	empty.Empty()
	if bytes.Equal(base.Untrusted, empty[:]) {
		return nil
	}
	tiny := buildTree([]KV{{K: []byte{0x42}, V: []byte("forged")}})
	defer tiny.tree.Close()
	var out []Mut
	for ver := uint16(0); ver <= 1; ver++ {
		rsp, err := tiny.tree.SyncGet(ctx, &syncer.GetRequest{Tree: tiny.treeID(), Key: []byte{0x42}, ProofVersion: ver})
		if err != nil {
			panic(err)
		}
		t := mutOf("forged-tinytree: proof of an unrelated one-key tree with the trusted root as untrusted root", &rsp.Proof)
		t.Untrusted = nn(base.Untrusted)
		out = append(out,
			Mut{What: "forged-nil: single nil entry", V: ver, Untrusted: nn(base.Untrusted), Entries: []HB{nil}},
			Mut{What: "forged-emptyhash: single hash entry with the empty hash", V: ver, Untrusted: nn(base.Untrusted), Entries: []HB{append([]byte{0x02}, empty[:]...)}},
			Mut{What: "forged-roothash: single hash entry with the trusted root", V: ver, Untrusted: nn(base.Untrusted), Entries: []HB{append([]byte{0x02}, base.Untrusted...)}},
			t)
	}
	return out
}

// ---------- entries in the full (non-compact) node encoding ----------

type intInfo struct {
	hl, hr           []byte // real hashes of the children the proof supplies
	lfS, lfE         int    // version 1: span of the leaf child
	lS, lE, rS, rE   int    // spans of the left / right child
}

// analyze parses an (honest) entry list and records, for every internal-node
// entry, the spans of its children and the hashes they evaluate to.
func analyze(es []SEntry, ver uint16) map[int]intInfo {
	out := map[int]intInfo{}
	var rec func(idx int) ([]byte, int, bool)
	rec = func(idx int) ([]byte, int, bool) {
		if idx >= len(es) {
			return nil, 0, false
		}
		e := es[idx]
		switch e.Kind {
		case "nil":
			h := hash.NewFromBytes()
			return h[:], idx + 1, true
		case "hash":
			return e.H, idx + 1, len(e.H) == hash.Size
		case "leaf":
			h := hash.NewFromBytes(leafPre(e.K, e.V))
			return h[:], idx + 1, true
		case "int":
			var in intInfo
			pos := idx + 1
			var hlf []byte
			ok := true
			if ver == 0 {
				if e.HasLf {
					h := hash.NewFromBytes(leafPre(e.LK, e.LV))
					hlf = h[:]
				} else {
					h := hash.NewFromBytes()
					hlf = h[:]
				}
			} else {
				in.lfS = pos
				if hlf, pos, ok = rec(pos); !ok {
					return nil, 0, false
				}
				in.lfE = pos
			}
			in.lS = pos
			if in.hl, pos, ok = rec(pos); !ok {
				return nil, 0, false
			}
			in.lE, in.rS = pos, pos
			if in.hr, pos, ok = rec(pos); !ok {
				return nil, 0, false
			}
			in.rE = pos
			out[idx] = in
			var bl [2]byte
			binary.LittleEndian.PutUint16(bl[:], e.BL)
			pre := append([]byte{0x01}, bl[:]...)
			pre = append(pre, e.LB...)
			pre = append(pre, hlf...)
			pre = append(pre, in.hl...)
			pre = append(pre, in.hr...)
			h := hash.NewFromBytes(pre)
			return h[:], pos, true
		}
		return nil, 0, false
	}
	rec(0)
	return out
}

// fullEnc: the root entry and one inner internal-node entry of an honest proof
// re-encoded in the FULL node encoding, i.e. with the REAL hashes of its
// children appended (node.go:449-470), followed by (a) the honest children,
// (b) fabricated children (other value, other key, dropped subtree, extra
// subtree), (c) no children at all.
func fullEnc(r *prng.R, base Mut) []Mut {
	es := decodeAll(toRaw(base.Entries))
	info := analyze(es, base.V)
	var idxs []int
	for i := range es {
		if _, ok := info[i]; ok {
			idxs = append(idxs, i)
		}
	}
	if len(idxs) == 0 {
		return nil
	}
	sort.Ints(idxs)
	pick := []int{idxs[0]}
	if len(idxs) > 1 {
		pick = append(pick, idxs[1+r.Intn(len(idxs)-1)])
	}
	leaf := func(k, v []byte) HB {
		ln := node.LeafNode{Key: nn(k), Value: nn(v)}
		b, _ := ln.CompactMarshalBinaryV1()
		return append([]byte{0x01}, b...)
	}
	// some key/value that occurs in the proof, to forge a plausible neighbour
	someK, someV := []byte{0x00}, []byte("x")
	for _, e := range es {
		if e.Kind == "leaf" {
			someK, someV = e.K, e.V
			break
		}
	}
	var out []Mut
	for n, idx := range pick {
		in := info[idx]
		where := "root"
		if n > 0 {
			where = fmt.Sprintf("inner entry %d", idx)
		}
		full := append(nn(base.Entries[idx]), in.hl...)
		full = append(full, in.hr...)
		build := func(what string, mid []HB, cutAfter bool) Mut {
			m := Mut{What: what, V: base.V, Untrusted: nn(base.Untrusted)}
			for _, e := range base.Entries[:idx] {
				m.Entries = append(m.Entries, cloneHB(e))
			}
			m.Entries = append(m.Entries, nn(full))
			m.Entries = append(m.Entries, mid...)
			if !cutAfter {
				for _, e := range base.Entries[in.rE:] {
					m.Entries = append(m.Entries, cloneHB(e))
				}
			}
			return m
		}
		span := func(a, b int) []HB {
			var o []HB
			for _, e := range base.Entries[a:b] {
				o = append(o, cloneHB(e))
			}
			return o
		}
		lfPart := []HB{}
		if base.V != 0 {
			lfPart = span(in.lfS, in.lfE)
		}
		honest := append(append(append([]HB{}, lfPart...), span(in.lS, in.lE)...), span(in.rS, in.rE)...)
		out = append(out, build("fullenc-honest: "+where+" in full encoding, honest children", honest, false))
		// fabricated child on one side
		fab := func(kind string, child []HB) Mut {
			left := r.Chance(50)
			var mid []HB
			mid = append(mid, lfPart...)
			if left {
				mid = append(append(mid, child...), span(in.rS, in.rE)...)
			} else {
				mid = append(append(mid, span(in.lS, in.lE)...), child...)
			}
			side := "right"
			if left {
				side = "left"
			}
			return build("fullenc-"+kind+": "+where+" in full encoding, "+side+" child fabricated ("+kind+")", mid, false)
		}
		kinds := []string{"value", "key", "dropped", "extra"}
		if n > 0 {
			kinds = []string{kinds[r.Intn(4)]}
		}
		for _, kd := range kinds {
			switch kd {
			case "value":
				out = append(out, fab("value", []HB{leaf(someK, append(nn(someV), 0x45))}))
			case "key":
				out = append(out, fab("key", []HB{leaf(append(nn(someK), 0x01), someV)}))
			case "dropped":
				out = append(out, fab("dropped", []HB{nil}))
			case "extra":
				out = append(out, fab("extra", []HB{leaf(genKey(r, nil), r.Bytes(1+r.Intn(4)))}))
			}
		}
		if n == 0 {
			out = append(out, build("fullenc-nochildren: "+where+" in full encoding, nothing after it", nil, true))
		}
	}
	return out
}

func cloneHB(e HB) HB {
	if e == nil {
		return nil
	}
	return nn(e)
}

// ---------- running candidates on the implementation ----------

type oneShot struct {
	proof *syncer.Proof
	used  bool
}

var errScript = errors.New("scripted syncer: no more responses")

func (s *oneShot) next() (*syncer.ProofResponse, error) {
	if s.used {
		return nil, errScript
	}
	s.used = true
	return &syncer.ProofResponse{Proof: *copyProof(s.proof)}, nil
}
func (s *oneShot) SyncGet(context.Context, *syncer.GetRequest) (*syncer.ProofResponse, error) {
	return s.next()
}
func (s *oneShot) SyncGetPrefixes(context.Context, *syncer.GetPrefixesRequest) (*syncer.ProofResponse, error) {
	return s.next()
}
func (s *oneShot) SyncIterate(context.Context, *syncer.IterateRequest) (*syncer.ProofResponse, error) {
	return s.next()
}

// answer of a remote Get: "F"+value, "A", "U"
func remoteGet(root node.Root, p *syncer.Proof, k []byte) (ans string, panicked any) {
	defer func() {
		if r := recover(); r != nil {
			panicked = r
		}
	}()
	t := mkvs.NewWithRoot(&oneShot{proof: p}, nil, root)
	defer t.Close()
	v, err := t.Get(ctx, nn(k))
	switch {
	case err != nil:
		return "U", nil
	case v == nil:
		return "A", nil
	}
	return "F" + string(v), nil
}

func truth(w *world, k []byte) string {
	if v, ok := w.contents[string(k)]; ok {
		return "F" + string(v)
	}
	return "A"
}

func coqAns(a string) string {
	switch a[0] {
	case 'F':
		return "(Found " + coqBytes([]byte(a[1:])) + ")"
	case 'A':
		return "Absent"
	}
	return "Unknown"
}

type verdict struct {
	accepted bool
	wl       []KV
	viol     string
	ptr      *node.Pointer // what VerifyProof returned
}

// readPtr is the oracle's own reader of a verified subtree: the value /
// absence of key under the pointer tree VerifyProof returned, "U" where the
// tree only carries a hash.
func readPtr(ptr *node.Pointer, depth node.Depth, key node.Key) string {
	if ptr == nil {
		return "A"
	}
	if ptr.Node == nil {
		if ptr.Hash.IsEmpty() {
			return "A"
		}
		return "U"
	}
	switch n := ptr.Node.(type) {
	case *node.LeafNode:
		if n.Key.Equal(key) {
			return "F" + string(n.Value)
		}
		return "A"
	case *node.InternalNode:
		bl := depth + n.LabelBitLength
		switch {
		case key.BitLength() == bl:
			return readPtr(n.LeafNode, bl, key)
		case key.BitLength() < bl:
			return "A"
		case key.GetBit(bl):
			return readPtr(n.Right, bl, key)
		}
		return readPtr(n.Left, bl, key)
	}
	return "U"
}

func verifyReal(w *world, m Mut) (v verdict) { return verifyRealAt(w.root.Hash, m) }

func verifyRealAt(trusted hash.Hash, m Mut) (v verdict) {
	defer func() {
		if r := recover(); r != nil {
			v.viol = fmt.Sprintf("panic in VerifyProof: %v", r)
		}
	}()
	var pv syncer.ProofVerifier
	ptr, err1 := pv.VerifyProof(ctx, trusted, m.proof())
	v.ptr = ptr
	wl, err2 := pv.VerifyProofToWriteLog(ctx, trusted, m.proof())
	if (err1 == nil) != (err2 == nil) {
		v.viol = fmt.Sprintf("VerifyProof and VerifyProofToWriteLog disagree: %v / %v", err1, err2)
		return
	}
	v.accepted = err1 == nil
	for _, e := range wl {
		v.wl = append(v.wl, KV{K: nn(e.Key), V: nn(e.Value)})
	}
	return
}

type groupResult struct {
	term       string
	violations []map[string]any
	accepted   int
	stats      map[string]int
}

func runVerify(c Case, sum *coqout.Summary, seen map[string]bool) groupResult {
	w := buildTree(c.KVs)
	defer w.tree.Close()
	res := groupResult{stats: map[string]int{}}
	tab := w.fullTable()
	uni := universe(w, c.Keys)
	single := func(m Mut) Case {
		return Case{Kind: "verify", KVs: c.KVs, Src: c.Src, Keys: c.Keys, Mutants: []Mut{m}, Pos: c.Pos, PosDepth: c.PosDepth, PosPrefix: c.PosPrefix}
	}
	// the trusted hash: the root, or (sub-position proofs) the hash of an inner
	// node, as cache.remoteSync uses ptr.Hash; then only keys below that node
	// can be read, from bit depth PosDepth
	trusted := w.root.Hash
	sub := c.Pos != nil
	if sub {
		copy(trusted[:], c.Pos)
		var below [][]byte
		for _, k := range uni {
			if strings.HasPrefix(bitsOf(k, len(k)*8), c.PosPrefix) {
				below = append(below, k)
			}
		}
		uni = below
	}
	var ms, outs []string
	for _, m := range c.Mutants {
		es := decodeAll(toRaw(m.Entries))
		tab.tabulate(es, m.V, 0, 0)
		// tabulating with the other version too costs nothing and keeps the table
		// independent of what the model decides
		ms = append(ms, fmt.Sprintf("(%d, %s, %s)", m.V, coqBytes(m.Untrusted), coqEntries(es)))
		v := verifyRealAt(trusted, m)
		key, _ := json.Marshal(m.Entries)
		id := fmt.Sprintf("%x|%d|%x|%s", trusted[:], m.V, m.Untrusted, key)
		if !seen[id] && len(m.Entries) >= 2 {
			seen[id] = true
			sum.DistinctNontrivial++
		}
		sum.Evaluations++
		if v.viol != "" {
			res.violations = append(res.violations, map[string]any{"what": v.viol, "case": single(m)})
			outs = append(outs, "VRej")
			continue
		}
		kind := strings.SplitN(m.What, ":", 2)[0]
		if !v.accepted {
			sum.Count("verdict", "rejected")
			sum.Count("mutant-kind", kind+"/rejected")
			outs = append(outs, "VRej")
			// a rejected candidate must not feed a reader either
			for _, k := range c.Keys {
				if sub {
					break
				}
				a, p := remoteGet(w.root, m.proof(), k)
				if p != nil {
					res.violations = append(res.violations, map[string]any{"what": fmt.Sprintf("panic in remote Get: %v", p), "case": single(m)})
				} else if a != "U" && !w.root.Hash.IsEmpty() {
					res.violations = append(res.violations, map[string]any{"what": fmt.Sprintf("proof rejected by VerifyProof but a remote-backed Get(%x) answered %q", k, a), "case": single(m)})
				}
			}
			continue
		}
		res.accepted++
		sum.Count("verdict", "accepted")
		sum.Count("mutant-kind", kind+"/accepted")
		// S: write log entries are real
		for _, e := range v.wl {
			if tv, ok := w.contents[string(e.K)]; !ok || !bytes.Equal(tv, e.V) {
				res.violations = append(res.violations, map[string]any{"what": fmt.Sprintf("accepted proof: write log holds (%x,%x) which is not in the tree", e.K, e.V), "case": single(m)})
			}
		}
		// S: the returned subtree stands for the trusted root, and read directly
		// (without any fetch) no key resolves contrary to the contents
		for _, k := range uni {
			if a := readPtr(v.ptr, node.Depth(c.PosDepth), k); a != "U" && a != truth(w, k) {
				res.violations = append(res.violations, map[string]any{"what": fmt.Sprintf("accepted proof: in the subtree VerifyProof returned key %x resolves to %q, the tree says %q", k, a, truth(w, k)), "case": single(m)})
				break
			}
		}
		if h := v.ptr.GetHash(); !h.Equal(&trusted) {
			res.violations = append(res.violations, map[string]any{"what": fmt.Sprintf("accepted proof: the subtree VerifyProof returned has hash %s, the trusted root is %s", h, trusted), "case": single(m)})
		}
		if sub {
			sum.Count("verdict-subposition", "accepted")
			var wl []string
			for _, e := range v.wl {
				wl = append(wl, fmt.Sprintf("(%s, %s)", coqBytes(e.K), coqBytes(e.V)))
			}
			outs = append(outs, fmt.Sprintf("(VAcc %s [])", coqout.List(wl)))
			continue
		}
		// S: through a remote-backed tree no key resolves contrary to the contents
		known := 0
		for _, k := range uni {
			a, p := remoteGet(w.root, m.proof(), k)
			if p != nil {
				res.violations = append(res.violations, map[string]any{"what": fmt.Sprintf("panic in remote Get: %v", p), "case": single(m)})
				break
			}
			if a == "U" {
				continue
			}
			known++
			if a != truth(w, k) {
				res.violations = append(res.violations, map[string]any{"what": fmt.Sprintf("accepted proof makes key %x resolve to %q, the tree says %q", k, a, truth(w, k)), "case": single(m)})
			}
		}
		if known > 0 {
			sum.Count("accepted-resolves", "some keys")
		} else {
			sum.Count("accepted-resolves", "no key")
		}
		// K: answers for the case's keys
		var wl, ans []string
		for _, e := range v.wl {
			wl = append(wl, fmt.Sprintf("(%s, %s)", coqBytes(e.K), coqBytes(e.V)))
		}
		for _, k := range c.Keys {
			a, _ := remoteGet(w.root, m.proof(), k)
			ans = append(ans, coqAns(a))
		}
		outs = append(outs, fmt.Sprintf("(VAcc %s %s)", coqout.List(wl), coqout.List(ans)))
	}
	var keys []string
	for _, k := range c.Keys {
		if !sub {
			keys = append(keys, coqBytes(k))
		}
	}
	res.term = fmt.Sprintf("(CVerify %s %s %s %s, OVerify %s)", tab.coq(), coqBytes(trusted[:]), coqout.List(keys), coqout.List(ms), coqout.List(outs))
	return res
}

func toRaw(es []HB) [][]byte {
	out := make([][]byte, len(es))
	for i, e := range es {
		if e != nil {
			out[i] = []byte(e)
		}
	}
	return out
}

// ---------- build cases ----------

// runBuildIter: the proofs SyncIterate / SyncGetPrefixes build vs the model builders.
func runBuildIter(c Case, sum *coqout.Summary) (term string, viols []map[string]any) {
	w := buildTree(c.KVs)
	defer w.tree.Close()
	var rsp *syncer.ProofResponse
	var err error
	var kvs []string
	for _, kv := range c.KVs {
		kvs = append(kvs, fmt.Sprintf("(%s, %s)", coqBytes(kv.K), coqBytes(kv.V)))
	}
	var head string
	if c.Op == "iterate" {
		rsp, err = w.tree.SyncIterate(ctx, &syncer.IterateRequest{Tree: w.treeID(), Key: nn(c.Key), Prefetch: c.Prefetch, ProofVersion: c.Ver})
		head = fmt.Sprintf("CIter %s %s %d %s %d%%nat", w.fullTable().coq(), coqout.List(kvs), c.Ver, coqBytes(c.Key), c.Prefetch)
		sum.Count("iterate-proof", fmt.Sprintf("v%d prefetch=%d", c.Ver, c.Prefetch))
	} else {
		var ps [][]byte
		var cps []string
		for _, p := range c.Prefixes {
			ps = append(ps, nn(p))
			cps = append(cps, coqBytes(p))
		}
		rsp, err = w.tree.SyncGetPrefixes(ctx, &syncer.GetPrefixesRequest{Tree: w.treeID(), Prefixes: ps, Limit: c.Limit, ProofVersion: c.Ver})
		head = fmt.Sprintf("CPrefixes %s %s %d %s %d%%nat", w.fullTable().coq(), coqout.List(kvs), c.Ver, coqout.List(cps), c.Limit)
		sum.Count("prefixes-proof", fmt.Sprintf("v%d n=%d limit=%d", c.Ver, len(ps), c.Limit))
	}
	if err != nil {
		return "", []map[string]any{{"what": c.Op + " failed: " + err.Error(), "case": c}}
	}
	p := copyProof(&rsp.Proof)
	sum.Evaluations++
	sum.Count(c.Op+"-proof-entries", bucket(len(p.Entries)))
	var pv syncer.ProofVerifier
	ptr, err := pv.VerifyProof(ctx, w.root.Hash, copyProof(p))
	if err != nil {
		viols = append(viols, map[string]any{"what": "honest " + c.Op + " proof rejected: " + err.Error(), "case": c})
	} else if c.Op == "iterate" {
		// S (completeness): the items the full replica yields from Key are readable from the proof
		j := sort.Search(len(w.sorted), func(i int) bool { return bytes.Compare(w.sorted[i].K, c.Key) >= 0 })
		for s := 0; s <= int(c.Prefetch) && j+s < len(w.sorted); s++ {
			kv := w.sorted[j+s]
			if a := readPtr(ptr, 0, node.Key(kv.K)); a != "F"+string(kv.V) {
				viols = append(viols, map[string]any{"what": fmt.Sprintf("honest iterate proof does not cover item %d (%x): %q", s, []byte(kv.K), a), "case": c})
				break
			}
		}
	}
	term = fmt.Sprintf("(%s, OBuild %s %s)", head, coqBytes(w.root.Hash[:]), coqEntries(decodeAll(p.Entries)))
	return
}

func runBuild(c Case, sum *coqout.Summary) (term string, viols []map[string]any) {
	if c.Op != "" {
		return runBuildIter(c, sum)
	}
	w := buildTree(c.KVs)
	defer w.tree.Close()
	rsp, err := w.tree.SyncGet(ctx, &syncer.GetRequest{Tree: w.treeID(), Key: nn(c.Key), IncludeSiblings: c.Sib, ProofVersion: c.Ver})
	if err != nil {
		return "", []map[string]any{{"what": "SyncGet failed: " + err.Error(), "case": c}}
	}
	p := copyProof(&rsp.Proof)
	sum.Evaluations++
	sum.Count("query-class", classify(w, c.Key))
	sum.Count("get-proof", fmt.Sprintf("v%d sib=%v", c.Ver, c.Sib))
	sum.Count("get-proof-entries", bucket(len(p.Entries)))
	// S (completeness on the implementation): the proof verifies against the
	// root, and for version 0 a reader resolves the key to the truth
	var pv syncer.ProofVerifier
	if _, err := pv.VerifyProof(ctx, w.root.Hash, copyProof(p)); err != nil {
		viols = append(viols, map[string]any{"what": "honest SyncGet proof rejected: " + err.Error(), "case": c})
	}
	if !p.UntrustedRoot.Equal(&w.root.Hash) {
		viols = append(viols, map[string]any{"what": "honest SyncGet proof is not anchored at the root", "case": c})
	}
	if c.Ver == 0 {
		if a, _ := remoteGet(w.root, p, c.Key); a != truth(w, c.Key) {
			viols = append(viols, map[string]any{"what": fmt.Sprintf("honest v0 SyncGet proof does not resolve its key: got %q want %q", a, truth(w, c.Key)), "case": c})
		}
	}
	var kvs []string
	for _, kv := range c.KVs {
		kvs = append(kvs, fmt.Sprintf("(%s, %s)", coqBytes(kv.K), coqBytes(kv.V)))
	}
	term = fmt.Sprintf("(CBuild %s %s %d %s %s, OBuild %s %s)", w.fullTable().coq(), coqout.List(kvs), c.Ver, coqout.Bool(c.Sib), coqBytes(c.Key),
		coqBytes(w.root.Hash[:]), coqEntries(decodeAll(p.Entries)))
	return
}

func bucket(n int) string {
	switch {
	case n <= 1:
		return "1"
	case n <= 3:
		return "2-3"
	case n <= 7:
		return "4-7"
	case n <= 15:
		return "8-15"
	}
	return "16+"
}

// ---------- remote sessions ----------

type mixSyncer struct {
	w       *world
	r       *prng.R
	corrupt int
	other   *Mut
	stats   map[string]int
	maxResp int // largest number of internal nodes in one response handed out
}

func (s *mixSyncer) answer(honest func() (*syncer.ProofResponse, error)) (*syncer.ProofResponse, error) {
	rsp, err := honest()
	if err != nil {
		return nil, err
	}
	if !s.r.Chance(s.corrupt) {
		s.stats["honest"]++
		if n := countInternal(&rsp.Proof); n > s.maxResp {
			s.maxResp = n
		}
		return &syncer.ProofResponse{Proof: *copyProof(&rsp.Proof)}, nil
	}
	if s.r.Chance(15) {
		s.stats["error"]++
		return nil, errScript
	}
	s.stats["corrupt"]++
	m := mutate(s.r, mutOf("", &rsp.Proof), s.other, 1)[0]
	if n := countInternal(m.proof()); n > s.maxResp {
		s.maxResp = n
	}
	return &syncer.ProofResponse{Proof: *m.proof()}, nil
}
func (s *mixSyncer) SyncGet(_ context.Context, rq *syncer.GetRequest) (*syncer.ProofResponse, error) {
	return s.answer(func() (*syncer.ProofResponse, error) { return s.w.tree.SyncGet(ctx, rq) })
}
func (s *mixSyncer) SyncGetPrefixes(_ context.Context, rq *syncer.GetPrefixesRequest) (*syncer.ProofResponse, error) {
	return s.answer(func() (*syncer.ProofResponse, error) { return s.w.tree.SyncGetPrefixes(ctx, rq) })
}
func (s *mixSyncer) SyncIterate(_ context.Context, rq *syncer.IterateRequest) (*syncer.ProofResponse, error) {
	return s.answer(func() (*syncer.ProofResponse, error) { return s.w.tree.SyncIterate(ctx, rq) })
}

// remoteInfo: what decides the class of a session.
type remoteInfo struct {
	errOps     []int // operations that returned an error before the session failed
	failIdx    int   // index of the operation that gave the wrong answer (-1: none)
	failKind   int   // its kind (0-2 Get, 3 iterate)
	failKey    []byte
	failN      int
	failPf     uint16
	honestOnly bool // every response handed to the tree was the honest one
	maxResp    int  // largest response, in internal nodes
	sh         shape
	nodeCap    uint64
	valCap     uint64
}

// ample: the whole tree plus a path fits (nothing can be evicted for lack of room).
func (i remoteInfo) ample() bool {
	return (i.nodeCap == 0 || i.nodeCap >= uint64(i.sh.internal+i.sh.pathDepth)) && (i.valCap == 0 || i.valCap >= i.sh.leafBytes)
}

// belowResponsePlusPath: the documented shape of the known cache finding: fewer
// internal-node slots than the largest response plus the path to the fetched node.
func (i remoteInfo) belowResponsePlusPath() bool {
	return i.nodeCap > 0 && i.nodeCap < uint64(i.maxResp+i.sh.pathDepth)
}

func (i remoteInfo) class() string {
	peer := "corrupt-peer"
	if i.honestOnly {
		peer = "honest-responses-only"
	}
	switch {
	case i.ample():
		return peer + "/ample-cache"
	case i.belowResponsePlusPath():
		return peer + "/cache<response+path"
	}
	return peer + "/cache-between"
}

func runRemote(c Case, sum *coqout.Summary) (viols []map[string]any, info remoteInfo) {
	defer func() {
		if r := recover(); r != nil {
			viols = append(viols, map[string]any{"what": fmt.Sprintf("panic in a remote-backed tree: %v", r), "case": c})
		}
	}()
	w := buildTree(c.KVs)
	defer w.tree.Close()
	r := prng.New(c.Seed)
	// a second tree for splices
	ow := buildTree(genKVs(r))
	defer ow.tree.Close()
	orsp, err := ow.tree.SyncIterate(ctx, &syncer.IterateRequest{Tree: ow.treeID(), Key: []byte{}, Prefetch: 5})
	if err != nil {
		panic(err)
	}
	om := mutOf("", &orsp.Proof)
	// the syncer draws from its own stream: the operations of a session do not
	// depend on how many responses were corrupted
	ms := &mixSyncer{w: w, r: r.Fork(), corrupt: c.Corrupt, other: &om, stats: map[string]int{}}
	rt := mkvs.NewWithRoot(ms, nil, w.root, mkvs.Capacity(c.NodeCap, c.ValCap))
	defer rt.Close()
	bad := func(what string) {
		viols = append(viols, map[string]any{"what": what, "case": c})
	}
	info = remoteInfo{sh: w.shape(), nodeCap: c.NodeCap, valCap: c.ValCap}
	defer func() {
		info.honestOnly = ms.stats["corrupt"] == 0 && ms.stats["error"] == 0
		info.maxResp = ms.maxResp
	}()
	// with an honest syncer and a cache that holds the whole tree nothing may fail
	strict := c.Corrupt == 0 && info.ample()
	skipped := map[int]bool{}
	for _, i := range c.Skip {
		skipped[i] = true
	}
	for i := 0; i < c.Ops && len(viols) == 0; i++ {
		// every operation is drawn; a skipped one is not executed
		opKind := r.Intn(5)
		k := genQueries(r, w, 4)[r.Intn(4)]
		n := r.Intn(6)
		pf := uint16(r.Intn(4))
		lim := uint16(r.Intn(8))
		if skipped[i] {
			continue
		}
		sum.Evaluations++
		info.failIdx, info.failKind, info.failKey, info.failN, info.failPf = i, opKind, k, n, pf
		switch opKind {
		case 0, 1, 2: // Get
			v, err := rt.Get(ctx, nn(k))
			switch {
			case err != nil:
				info.errOps = append(info.errOps, i)
				sum.Count("remote-op", "get/error")
				if strict {
					bad(fmt.Sprintf("honest syncer: Get(%x) failed: %v", k, err))
				}
			default:
				sum.Count("remote-op", "get/answer")
				a := "A"
				if v != nil {
					a = "F" + string(v)
				}
				if a != truth(w, k) {
					bad(fmt.Sprintf("remote-backed Get(%x) = %q, the full replica says %q", k, a, truth(w, k)))
				}
			}
		case 3: // iterate
			it := rt.NewIterator(ctx, mkvs.IteratorPrefetch(pf))
			// expected sequence
			j := sort.Search(len(w.sorted), func(i int) bool { return bytes.Compare(w.sorted[i].K, k) >= 0 })
			it.Seek(nn(k))
			for s := 0; s <= n; s++ {
				if it.Err() != nil {
					info.errOps = append(info.errOps, i)
					sum.Count("remote-op", "iterate/error")
					if strict {
						bad(fmt.Sprintf("honest syncer: iteration from %x failed: %v", k, it.Err()))
					}
					break
				}
				if !it.Valid() {
					if j < len(w.sorted) {
						bad(fmt.Sprintf("remote-backed iteration from %x ended before %x", k, []byte(w.sorted[j].K)))
					}
					break
				}
				if j >= len(w.sorted) || !bytes.Equal(it.Key(), w.sorted[j].K) || !bytes.Equal(it.Value(), w.sorted[j].V) {
					bad(fmt.Sprintf("remote-backed iteration from %x yields (%x,%x) at step %d, the full replica differs", k, []byte(it.Key()), it.Value(), s))
					break
				}
				sum.Count("remote-op", "iterate/item")
				j++
				it.Next()
			}
			it.Close()
		case 4: // prefetch prefixes (errors are fine; later answers are checked)
			err := rt.PrefetchPrefixes(ctx, [][]byte{nn(k)}, lim)
			if err != nil {
				info.errOps = append(info.errOps, i)
				sum.Count("remote-op", "prefetch/error")
				if strict {
					bad(fmt.Sprintf("honest syncer: PrefetchPrefixes(%x) failed: %v", k, err))
				}
			} else {
				sum.Count("remote-op", "prefetch/ok")
			}
		}
	}
	if len(viols) == 0 {
		info.failIdx = -1
	}
	for k, v := range ms.stats {
		for i := 0; i < v; i++ {
			sum.Count("remote-responses", k)
		}
	}
	return
}

// freshReplay runs the operation that failed in a session on a FRESH reader
// with the same cache capacity and an honest peer: "exact", "error" or "lie".
func freshReplay(c Case, info remoteInfo) string {
	w := buildTree(c.KVs)
	defer w.tree.Close()
	rt := mkvs.NewWithRoot(w.tree, nil, w.root, mkvs.Capacity(c.NodeCap, c.ValCap))
	defer rt.Close()
	k := info.failKey
	if info.failKind <= 2 {
		v, err := rt.Get(ctx, nn(k))
		if err != nil {
			return "error"
		}
		a := "A"
		if v != nil {
			a = "F" + string(v)
		}
		if a != truth(w, k) {
			return "lie"
		}
		return "exact"
	}
	it := rt.NewIterator(ctx, mkvs.IteratorPrefetch(info.failPf))
	defer it.Close()
	j := sort.Search(len(w.sorted), func(i int) bool { return bytes.Compare(w.sorted[i].K, k) >= 0 })
	it.Seek(nn(k))
	for s := 0; s <= info.failN; s++ {
		if it.Err() != nil {
			return "error"
		}
		if !it.Valid() {
			if j < len(w.sorted) {
				return "lie"
			}
			return "exact"
		}
		if j >= len(w.sorted) || !bytes.Equal(it.Key(), w.sorted[j].K) || !bytes.Equal(it.Value(), w.sorted[j].V) {
			return "lie"
		}
		j++
		it.Next()
	}
	return "exact"
}

// ---------- fresh reader per query ----------

// genBigKVs: 20-60 keys over the alphabet, length 1-5, prefix/extension heavy.
func genBigKVs(r *prng.R) []KV {
	n := r.Range(20, 60)
	var kvs []KV
	var have [][]byte
	seen := map[string]bool{}
	for len(kvs) < n {
		var k []byte
		switch {
		case len(have) > 0 && r.Chance(35):
			b := have[r.Intn(len(have))]
			if len(b) >= 5 {
				continue
			}
			k = append(nn(b), alphabet[r.Intn(4)])
		default:
			k = make([]byte, r.Range(1, 5))
			for i := range k {
				k[i] = alphabet[r.Intn(4)]
			}
		}
		if seen[string(k)] {
			continue
		}
		seen[string(k)] = true
		have = append(have, k)
		kvs = append(kvs, KV{K: k, V: r.Bytes(r.Range(1, 6))})
	}
	return kvs
}

// freshQueries: every present key, for every present key the absent key right
// after it, some prefixes and the ends of the key space.
func freshQueries(w *world) [][]byte {
	var out [][]byte
	seen := map[string]bool{}
	add := func(k []byte) {
		if !seen[string(k)] {
			seen[string(k)] = true
			out = append(out, nn(k))
		}
	}
	for _, kv := range w.sorted {
		add(kv.K)
		add(append(nn(kv.K), 0xff))
		add(append(nn(kv.K), 0x00))
		if len(kv.K) > 1 {
			add(kv.K[:len(kv.K)-1])
		}
	}
	add([]byte{})
	add([]byte{0xff, 0xff, 0xff, 0xff, 0xff, 0xff})
	return out
}

// freshOne: ONE query (op "get" or "seek": Seek + Next to the end) on a fresh
// reader that holds only the trusted root.  There is no earlier operation, so
// the only admissible outcomes are the full replica's answer or an error.
func freshOne(w *world, c Case, q []byte, op string, idx int) (outcome string, what string) {
	defer func() {
		if r := recover(); r != nil {
			outcome, what = "lie", fmt.Sprintf("panic in a fresh remote-backed reader: %v", r)
		}
	}()
	var rs syncer.ReadSyncer = w.tree
	if c.Corrupt > 0 {
		rs = &mixSyncer{w: w, r: prng.New(c.Seed + uint64(idx)*7919 + uint64(len(op))), corrupt: c.Corrupt, stats: map[string]int{}}
	}
	rt := mkvs.NewWithRoot(rs, nil, w.root, mkvs.Capacity(c.NodeCap, c.ValCap))
	defer rt.Close()
	if op == "get" {
		v, err := rt.Get(ctx, nn(q))
		if err != nil {
			return "error", ""
		}
		a := "A"
		if v != nil {
			a = "F" + string(v)
		}
		if a != truth(w, q) {
			return "lie", fmt.Sprintf("fresh reader (node cache %d): Get(%x) = %q, the full replica says %q", c.NodeCap, q, a, truth(w, q))
		}
		return "exact", ""
	}
	it := rt.NewIterator(ctx, mkvs.IteratorPrefetch(c.Prefetch))
	defer it.Close()
	j := sort.Search(len(w.sorted), func(i int) bool { return bytes.Compare(w.sorted[i].K, q) >= 0 })
	n := 0
	for it.Seek(nn(q)); it.Valid(); it.Next() {
		if j+n >= len(w.sorted) || !bytes.Equal(it.Key(), w.sorted[j+n].K) || !bytes.Equal(it.Value(), w.sorted[j+n].V) {
			return "lie", fmt.Sprintf("fresh reader (node cache %d, prefetch %d): Seek(%x) yields (%x,%x) as item %d, the full replica differs", c.NodeCap, c.Prefetch, q, []byte(it.Key()), it.Value(), n)
		}
		n++
	}
	if it.Err() != nil {
		return "error", ""
	}
	if j+n != len(w.sorted) {
		return "lie", fmt.Sprintf("fresh reader (node cache %d, prefetch %d): Seek(%x) ends after %d items without an error, the full replica yields %d (next would be %x)", c.NodeCap, c.Prefetch, q, n, len(w.sorted)-j, []byte(w.sorted[j+n].K))
	}
	return "exact", ""
}

// runFresh: all queries (or the one of a replay), each on its own reader.
func runFresh(c Case, sum *coqout.Summary) (viols []map[string]any) {
	w := buildTree(c.KVs)
	defer w.tree.Close()
	qs := freshQueries(w)
	ops := []string{"get", "seek"}
	if c.Query != nil || c.Op != "" {
		qs, ops = [][]byte{c.Query}, []string{c.Op}
	}
	peer := "honest"
	if c.Corrupt > 0 {
		peer = "corrupt"
	}
	for i, q := range qs {
		for _, op := range ops {
			sum.Evaluations++
			o, what := freshOne(w, c, q, op, i)
			sum.Count("fresh-reader", fmt.Sprintf("%s peer/%s/%s", peer, op, o))
			sum.Count("fresh-reader-cap", fmt.Sprintf("node cache %d/%s", c.NodeCap, o))
			if o == "lie" && len(viols) < 3 {
				x := c
				x.Query, x.Op = nn(q), op
				if c.Corrupt > 0 {
					// keep the per-query syncer stream (a replay runs the query as index 0)
					x.Seed = c.Seed + uint64(i)*7919
				}
				viols = append(viols, map[string]any{"what": what + " [no earlier operation on this reader: never the bounded-cache finding]", "case": x})
			}
		}
	}
	return
}

const cacheFindingKey = "C04:bounded-cache-remote-tree-wrong-answer"

// shrinkRemote: fewer operations, then fewer keys, while the session still fails.
func shrinkRemote(c Case) Case {
	fails := func(x Case) bool { v, _ := runRemote(x, coqout.NewSummary("")); return len(v) > 0 }
	for c.Ops > 1 {
		x := c
		x.Ops = c.Ops - 1
		if !fails(x) {
			break
		}
		c = x
	}
	for changed := true; changed; {
		changed = false
		for i := range c.KVs {
			x := c
			x.KVs = append(append([]KV{}, c.KVs[:i]...), c.KVs[i+1:]...)
			if fails(x) {
				c, changed = x, true
				break
			}
		}
	}
	if c.Corrupt != 0 {
		x := c
		x.Corrupt = 0
		if fails(x) {
			c = x
		}
	}
	return c
}

// ---------- the depth limit ----------

const depthFindingKey = "C04:honest-proof-below-128-levels-rejected"

// runDepth: n keys, each a prefix of the next (0..n-1 zero bytes).  The honest
// proof for the longest key has entries n-1 levels below the root.
func runDepth(c Case, sum *coqout.Summary) (finding *coqout.Finding, viols []map[string]any) {
	var kvs []KV
	for i := 0; i < c.N; i++ {
		kvs = append(kvs, KV{K: make([]byte, i), V: []byte{1}})
	}
	w := buildTree(kvs)
	defer w.tree.Close()
	key := make([]byte, c.N-1)
	for ver := uint16(0); ver <= 1; ver++ {
		sum.Evaluations++
		rsp, err := w.tree.SyncGet(ctx, &syncer.GetRequest{Tree: w.treeID(), Key: key, ProofVersion: ver})
		if err != nil {
			viols = append(viols, map[string]any{"what": "SyncGet failed: " + err.Error(), "case": c})
			return
		}
		var pv syncer.ProofVerifier
		_, err = pv.VerifyProof(ctx, w.root.Hash, copyProof(&rsp.Proof))
		sum.Count("depth-probe", fmt.Sprintf("n=%d v%d accepted=%v", c.N, ver, err == nil))
		if err != nil && finding == nil {
			finding = &coqout.Finding{Key: depthFindingKey,
				What: fmt.Sprintf("completeness: the proof SyncGet (version %d) produces for the present key of %d zero bytes in a tree of %d nested prefix keys is rejected by VerifyProof against that tree's own root: %v (maxProofDepth = 128, proof.go:20,354); a reader through NewWithRoot can never read that key", ver, c.N-1, c.N, err),
				Replay: map[string]any{"case": c}}
		}
		if err == nil && c.N > 129 {
			// the model says such proofs are rejected (get_proof_complete_unbounded_refuted)
			viols = append(viols, map[string]any{"what": fmt.Sprintf("model/implementation disagree: a %d-level proof was accepted", c.N), "case": c})
		}
	}
	return
}

// ---------- main ----------

func main() {
	seed := flag.Uint64("seed", 1, "seed")
	n := flag.Int("cases", 30, "number of generated trees")
	nmut := flag.Int("mutants", 30, "mutants per honest proof")
	out := flag.String("out", "", "output directory")
	replay := flag.String("replay", "", "replay a case description (JSON file)")
	deep := flag.Bool("deep", true, "probe the proof depth limit")
	nfresh := flag.Int("fresh", 3, "trees for the fresh-reader-per-query stream")
	flag.Parse()
	if *out == "" {
		fmt.Fprintln(os.Stderr, "need -out")
		os.Exit(2)
	}
	wb := coqout.NewWriter(*out, coqHeader, "run_c04", "c04_eqb", 12)
	sum := coqout.NewSummary("seeded trees of 0-12 keys over the byte alphabet {00,01,80,ff} (length 0-4, prefix/extension heavy, empty key), values 0-8 bytes; per tree 4 key-lookup proofs (versions 0/1 x siblings off/on; present / extension / prefix / random query), one SyncIterate (prefetch 0-10) and one SyncGetPrefixes (limit 0-10) proof, each with its mutants plus 8 forged proofs against the non-empty trusted root (single nil entry, single empty-hash entry, single root-hash entry, an unrelated one-key tree's proof re-labelled; versions 0/1) and up to 9 proofs with the root / one inner internal-node entry in the FULL (non-compact) encoding carrying the real child hashes, followed by honest children, a fabricated child (other value, other key, dropped subtree, extra subtree) or no children; remote sessions: honest peer / corrupt peer x cache capacities, classified by (responses honest only?, cache vs tree size, cache vs largest response + path; a wrong answer counts as the known bounded-cache finding only if an earlier operation ran on that reader and the same query on a fresh reader is exact or an error); fresh-reader-per-query stream: 3 trees of 20-60 keys, node capacities 2..6 (honest peer) and one 30%-corrupt variant, every present key / the absent keys right after it / its prefix, Get and Seek+Next to the end, each on its own reader: exact answer or error only; evaluation = one candidate proof through the real VerifyProof+VerifyProofToWriteLog (plus remote-backed Gets), one SyncGet compared with the model builder, or one operation on a remote-backed tree; non-trivial = candidate with >= 2 entries; distinct = distinct (root, version, untrusted root, entry list)")
	seen := map[string]bool{}

	runCase := func(c Case) {
		switch c.Kind {
		case "build":
			term, viols := runBuild(c, sum)
			if term != "" {
				wb.Add(term, map[string]any{"case": c})
			}
			for _, v := range viols {
				sum.Violations = append(sum.Violations, v)
			}
		case "verify":
			res := runVerify(c, sum, seen)
			wb.Add(res.term, map[string]any{"case": c})
			for _, v := range res.violations {
				sum.Violations = append(sum.Violations, v)
			}
		case "remote":
			viols, info := runRemote(c, sum)
			sum.Count("remote-session-class", info.class())
			if len(viols) > 0 {
				sum.Count("remote-session-failed", info.class())
				c = shrinkRemote(c)
				viols, info = runRemote(c, coqout.NewSummary(""))
				sum.Count("remote-session-failed-after-shrink", info.class())
			}
			for _, v := range viols {
				what := v["what"].(string) + fmt.Sprintf(" [%s; node cache %d nodes / %d value bytes; largest response %d internal nodes, longest path %d, tree %d internal nodes]",
					info.class(), c.NodeCap, c.ValCap, info.maxResp, info.sh.pathDepth, info.sh.internal)
				// a corrupt-peer session under such a cache counts as the same finding only
				// if the identical session (same seed, same corruption) is clean with an
				// unbounded cache, i.e. the failure needs the small cache and not the peer
				needsSmallCache := false
				if !info.honestOnly && info.belowResponsePlusPath() {
					x := c
					x.NodeCap, x.ValCap = 0, 0
					if v2, _ := runRemote(x, coqout.NewSummary("")); len(v2) == 0 {
						needsSmallCache = true
						what += " [the same session with an unbounded cache is clean]"
						sum.Count("remote-session-failed-after-shrink", "corrupt-peer/cache<response+path, clean with unbounded cache")
					}
				}
				// The mechanism of the known finding on the unchanged tree: an eviction
				// aborted half-way during an EARLIER operation of the same reader leaves
				// cleared links on a cached node (that earlier operation may or may not have
				// returned 'cache too small': the abort is also swallowed when a descendant of
				// the fetched pointer could not be committed).  So a session failure counts
				// as that finding only if (a) the reader had executed an earlier operation and
				// (b) the very same query on a FRESH reader with the same cache gives the
				// exact answer or an error.  A fresh reader that lies is never the finding.
				freshOutcome := freshReplay(c, info)
				afterFailure := info.failIdx > 0 && freshOutcome != "lie"
				earlier := "no earlier operation failed"
				if len(info.errOps) > 0 {
					earlier = fmt.Sprintf("earlier operations %v failed", info.errOps)
				}
				what += fmt.Sprintf(" [operation %d of the session; %s; the same query on a fresh reader: %s]", info.failIdx, earlier, freshOutcome)
				if afterFailure {
					if len(info.errOps) > 0 {
						sum.Count("remote-session-failed-after-shrink", "state left by earlier operations, one of which failed")
					} else {
						sum.Count("remote-session-failed-after-shrink", "state left by earlier operations, none of which failed")
					}
				}
				if afterFailure && info.belowResponsePlusPath() && (info.honestOnly || needsSmallCache) {
					// the documented shape of the known finding: honest responses only and
					// fewer node slots than the largest response plus the path
					sum.Findings = append(sum.Findings, coqout.Finding{Key: cacheFindingKey, What: what, Replay: map[string]any{"case": c}})
				} else {
					v["what"] = what
					sum.Violations = append(sum.Violations, v)
				}
			}
		case "fresh":
			for _, v := range runFresh(c, sum) {
				sum.Violations = append(sum.Violations, v)
			}
		case "depth":
			f, viols := runDepth(c, sum)
			if f != nil {
				sum.Findings = append(sum.Findings, *f)
			}
			for _, v := range viols {
				sum.Violations = append(sum.Violations, v)
			}
		default:
			panic("unknown case kind " + c.Kind)
		}
	}

	if *replay != "" {
		b, err := os.ReadFile(*replay)
		if err != nil {
			panic(err)
		}
		var c Case
		var wrap struct {
			Case *Case `json:"case"`
		}
		if json.Unmarshal(b, &wrap) == nil && wrap.Case != nil {
			c = *wrap.Case
		} else if err := json.Unmarshal(b, &c); err != nil {
			panic(err)
		}
		runCase(c)
		wb.Close()
		sum.Write(*out)
		return
	}

	r := prng.New(*seed)
	var prev, last *Mut // prev: a proof of the PREVIOUS tree, for splices
	for i := 0; i < *n; i++ {
		cr := r.Fork()
		kvs := genKVs(cr)
		w := buildTree(kvs)
		sum.Count("tree-keys", bucket(len(w.sorted)))
		queries := genQueries(cr, w, 4)
		// (a) builder correspondence
		for j, q := range queries {
			c := Case{Kind: "build", KVs: kvs, Ver: uint16(j % 2), Sib: (j/2)%2 == 1, Key: q}
			if (i+j)%3 == 0 { // all four (version, siblings) combinations over the run
				c.Ver, c.Sib = uint16((j+1)%2), (j/2)%2 == 0
			}
			runCase(c)
		}
		// (a') iterate / prefixes builder correspondence
		for j := 0; j < 3; j++ {
			runCase(Case{Kind: "build", Op: "iterate", KVs: kvs, Ver: uint16(cr.Intn(2)), Key: genQueries(cr, w, 4)[cr.Intn(4)], Prefetch: uint16(cr.Intn(11))})
		}
		for j := 0; j < 2; j++ {
			var ps []HB
			for x := 0; x < 1+cr.Intn(3); x++ {
				ps = append(ps, genQueries(cr, w, 4)[cr.Intn(4)])
			}
			runCase(Case{Kind: "build", Op: "prefixes", KVs: kvs, Ver: uint16(cr.Intn(2)), Prefixes: ps, Limit: uint16(cr.Intn(11))})
		}
		// (b)(c) candidates
		srcs := w.honest(cr, queries)
		keys := append([]HB{}, queries...)
		for _, kv := range w.sorted {
			if len(keys) < 8 {
				keys = append(keys, nn(kv.K))
			}
		}
		for _, s := range srcs {
			base := mutOf("honest: "+s.name, s.proof)
			sum.Count("honest-proof", strings.SplitN(s.name, " ", 2)[0]+fmt.Sprintf(" v%d", s.proof.V))
			sum.Count("honest-proof-entries", bucket(len(s.proof.Entries)))
			ms := append([]Mut{base}, mutate(cr, base, prev, *nmut)...)
			ms = append(ms, forged(base)...)
			ms = append(ms, fullEnc(cr, base)...)
			c := Case{Kind: "verify", KVs: kvs, Src: s.name, Keys: keys, Mutants: ms}
			// the honest proof itself must be accepted
			if v := verifyReal(w, base); !v.accepted {
				sum.Violations = append(sum.Violations, map[string]any{"what": "honest " + s.name + " proof rejected by VerifyProof", "case": Case{Kind: "verify", KVs: kvs, Src: s.name, Keys: keys, Mutants: []Mut{base}}})
			}
			runCase(c)
			b := base
			last = &b
		}
		// (b') sub-position proofs: Position = an inner node on the key's path, so the
		// proof is anchored at (and trusted for) that node's hash
		if ins := w.innerNodes(); len(ins) > 0 {
			in := ins[cr.Intn(len(ins))]
			var q []byte
			if len(in.keys) > 0 && cr.Chance(70) {
				q = nn(in.keys[cr.Intn(len(in.keys))])
			} else { // an absent key below the node
				nb := (len(in.prefix) + 7) / 8
				q = make([]byte, nb+1)
				for i, ch := range in.prefix {
					if ch == '1' {
						q[i/8] |= 1 << (7 - uint(i%8))
					}
				}
				q[nb] = alphabet[cr.Intn(4)]
			}
			ver := uint16(cr.Intn(2))
			sib := cr.Chance(50)
			var ph hash.Hash
			copy(ph[:], in.hash)
			rsp, err := w.tree.SyncGet(ctx, &syncer.GetRequest{Tree: syncer.TreeID{Root: w.root, Position: ph}, Key: q, IncludeSiblings: sib, ProofVersion: ver})
			if err != nil {
				panic(err)
			}
			name := fmt.Sprintf("subposition get v%d sib=%v", ver, sib)
			base := mutOf("honest: "+name, &rsp.Proof)
			sc := Case{Kind: "verify", KVs: kvs, Src: name, Keys: []HB{q}, Pos: in.hash, PosDepth: in.depth, PosPrefix: in.prefix}
			if !rsp.Proof.UntrustedRoot.Equal(&ph) {
				sum.Count("subposition", "anchored at the root (key leaves the node's subtree)")
				sum.Violations = append(sum.Violations, map[string]any{"what": "SyncGet with Position on the key's path returned a proof that is not anchored at Position", "case": Case{Kind: "verify", KVs: kvs, Src: name, Keys: []HB{q}, Pos: in.hash, PosDepth: in.depth, PosPrefix: in.prefix, Mutants: []Mut{base}}})
			} else {
				sum.Count("subposition", "anchored at Position")
				if v := verifyRealAt(ph, base); !v.accepted {
					sum.Violations = append(sum.Violations, map[string]any{"what": "honest sub-position proof rejected for the position's hash", "case": Case{Kind: "verify", KVs: kvs, Src: name, Keys: []HB{q}, Pos: in.hash, PosDepth: in.depth, PosPrefix: in.prefix, Mutants: []Mut{base}}})
				} else if a := readPtr(v.ptr, node.Depth(in.depth), q); a != truth(w, q) {
					sum.Violations = append(sum.Violations, map[string]any{"what": fmt.Sprintf("honest sub-position proof does not resolve its key: %q, the tree says %q", a, truth(w, q)), "case": Case{Kind: "verify", KVs: kvs, Src: name, Keys: []HB{q}, Pos: in.hash, PosDepth: in.depth, PosPrefix: in.prefix, Mutants: []Mut{base}}})
				}
				sc.Mutants = append(append([]Mut{base}, mutate(cr, base, prev, *nmut)...), forged(base)...)
				sc.Mutants = append(sc.Mutants, fullEnc(cr, base)...)
				sum.Count("honest-proof", "subposition "+fmt.Sprintf("v%d", ver))
				runCase(sc)
			}
		}
		prev = last
		w.tree.Close()
		// (d) remote sessions: one honest, one adversarial
		caps := [][2]uint64{{0, 0}, {1, 1}, {2, 16}, {3, 64}, {6, 600}, {50, 8192}}
		ampleCaps := [][2]uint64{{0, 0}, {50, 8192}, {0, 8192}, {50, 0}}
		// honest peer, any cache; corrupt peer, ample cache; corrupt peer, any cache
		cp := caps[cr.Intn(len(caps))]
		runCase(Case{Kind: "remote", KVs: kvs, Seed: cr.U64(), NodeCap: cp[0], ValCap: cp[1], Corrupt: 0, Ops: 12})
		cp = ampleCaps[cr.Intn(len(ampleCaps))]
		runCase(Case{Kind: "remote", KVs: kvs, Seed: cr.U64(), NodeCap: cp[0], ValCap: cp[1], Corrupt: 40, Ops: 25})
		cp = caps[cr.Intn(len(caps))]
		runCase(Case{Kind: "remote", KVs: kvs, Seed: cr.U64(), NodeCap: cp[0], ValCap: cp[1], Corrupt: 40, Ops: 25})
		sum.Sample(map[string]any{"kvs": kvs, "queries": queries}, 3)
	}
	// (e) fresh reader per query, tiny node caches, larger trees
	for i := 0; i < *nfresh; i++ {
		cr := r.Fork()
		kvs := genBigKVs(cr)
		sum.Count("fresh-tree-keys", bucket(len(kvs)))
		for cap := uint64(2); cap <= 6; cap++ {
			runCase(Case{Kind: "fresh", KVs: kvs, NodeCap: cap, Prefetch: uint16([]int{0, 1, 3}[cr.Intn(3)])})
		}
		runCase(Case{Kind: "fresh", KVs: kvs, NodeCap: uint64(cr.Range(2, 6)), Prefetch: uint16(cr.Intn(4)), Corrupt: 30, Seed: cr.U64()})
	}
	if *deep {
		runCase(Case{Kind: "depth", N: 129})
		runCase(Case{Kind: "depth", N: 130})
	}
	wb.Close()
	sum.Write(*out)
}
