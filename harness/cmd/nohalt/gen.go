package main

import (
	"fmt"
	"math/big"
	"sort"

	"github.com/cometbft/cometbft/abci/types"

	beacon "github.com/oasisprotocol/oasis-core/go/beacon/api"
	"github.com/oasisprotocol/oasis-core/go/common/cbor"
	"github.com/oasisprotocol/oasis-core/go/common/crypto/signature"
	"github.com/oasisprotocol/oasis-core/go/common/node"
	"github.com/oasisprotocol/oasis-core/go/common/quantity"
	"github.com/oasisprotocol/oasis-core/go/consensus/api/transaction"
	governance "github.com/oasisprotocol/oasis-core/go/governance/api"
	churp "github.com/oasisprotocol/oasis-core/go/keymanager/churp"
	secrets "github.com/oasisprotocol/oasis-core/go/keymanager/secrets"
	registry "github.com/oasisprotocol/oasis-core/go/registry/api"
	roothash "github.com/oasisprotocol/oasis-core/go/roothash/api"
	staking "github.com/oasisprotocol/oasis-core/go/staking/api"
	keymanagerAPI "github.com/oasisprotocol/oasis-core/go/keymanager/api"
	schedulerAPI "github.com/oasisprotocol/oasis-core/go/scheduler/api"
	upgrade "github.com/oasisprotocol/oasis-core/go/upgrade/api"
	vault "github.com/oasisprotocol/oasis-core/go/vault/api"
	"github.com/oasisprotocol/oasis-core/go/common/version"

	"verifharness/internal/muxdrv"
)

// allMethods lists every transaction method of every app. beacon.SetEpoch is left to the
// set_epoch generator: under DebugMockBackend an integer body IS a valid epoch, and an
// epoch like 2^63 makes the (debug) beacon unusable ("random beacon not available").
func allMethods() []transaction.MethodName {
	var ms []transaction.MethodName
	ms = append(ms, staking.Methods...)
	ms = append(ms, governance.Methods...)
	ms = append(ms, registry.Methods...)
	ms = append(ms, roothash.Methods...)
	for _, m := range beacon.Methods {
		if m != beacon.MethodSetEpoch {
			ms = append(ms, m)
		}
	}
	ms = append(ms, vault.Methods...)
	ms = append(ms, secrets.Methods...)
	ms = append(ms, churp.Methods...)
	return ms
}

// nextNonce returns the nonce to use for the key in the block being built.
func (w *world) nextNonce(k *muxdrv.Key, local map[staking.Address]uint64) uint64 {
	a := k.Address()
	n := w.nonce[a] + local[a]
	local[a]++
	return n
}

// okFee is a fee that passes the minimum gas price of the history (amount >= gas * minimum).
func (w *world) okFee(hint, gas uint64) *transaction.Fee {
	if m := w.k.MinGasPrice; m > 0 && hint < gas*m {
		hint = gas * m
	}
	return muxdrv.Fee(hint, gas)
}

// fee draws the fee shape of a delivered transaction: plausible, nil, amount 0 / gas 0 in all
// combinations, underpriced, exactly at the minimum gas price, huge amount, gas = MaxUint64.
func (w *world) fee(local bool) *transaction.Fee {
	r := w.rng
	min := w.k.MinGasPrice
	gas := uint64(muxdrv.DefaultGas)
	if min >= 1000 {
		gas = 4000 // keeps "exactly the minimum" affordable
	}
	if !w.has(fFees) {
		return w.okFee(uint64(10+r.Intn(50)), gas)
	}
	shape := r.Intn(16)
	tag := ""
	var f *transaction.Fee
	switch shape {
	case 0:
		f, tag = nil, "nil fee"
	case 1:
		f, tag = muxdrv.Fee(0, 0), "amount 0 gas 0"
	case 2:
		f, tag = muxdrv.Fee(uint64(1+r.Intn(100000)), 0), "amount > 0 gas 0"
	case 3:
		f, tag = muxdrv.Fee(0, gas), "amount 0 gas > 0"
	case 4:
		amt := uint64(0)
		if min > 0 {
			amt = gas*min - 1
		}
		f, tag = muxdrv.Fee(amt, gas), "just below the minimum price"
	case 5:
		f, tag = muxdrv.Fee(gas*min, gas), "exactly the minimum price"
	case 6:
		f, tag = &transaction.Fee{Amount: qBig(bigPow2(128)), Gas: transaction.Gas(gas)}, "huge amount"
	case 7:
		f, tag = &transaction.Fee{Amount: qBig(new(big.Int).SetUint64(^uint64(0))), Gas: transaction.Gas(gas)}, "amount 2^64-1"
	case 8:
		f, tag = &transaction.Fee{Amount: qU(5 + min), Gas: transaction.Gas(^uint64(0))}, "gas 2^64-1"
	case 9:
		f, tag = &transaction.Fee{Amount: qBig(bigPow2(200)), Gas: transaction.Gas(^uint64(0))}, "gas 2^64-1 huge amount"
	default:
		f, tag = w.okFee(uint64(1+r.Intn(50)), gas), "plausible"
	}
	w.count("fee-shape/" + tag)
	return f
}

// amount picks an extreme or plausible amount relative to a balance.
func (w *world) amount(bal *big.Int) quantity.Quantity {
	r := w.rng
	switch r.Intn(12) {
	case 0:
		return qU(0)
	case 1:
		return qU(1)
	case 2:
		return qBig(new(big.Int).Set(bal)) // empties the account
	case 3:
		return qBig(new(big.Int).Add(bal, big.NewInt(1)))
	case 4:
		return qBig(new(big.Int).SetUint64(^uint64(0)))
	case 5:
		return qBig(bigPow2(128))
	case 6:
		return qBig(bigPow2(255))
	case 7:
		return qBig(new(big.Int).Rsh(bal, 1))
	default:
		return qU(uint64(10 + r.Intn(20000)))
	}
}

func (w *world) pickKey() *muxdrv.Key { return w.keys[w.rng.Intn(len(w.keys))] }

func (w *world) balanceOf(k *muxdrv.Key) *big.Int {
	if w.prev == nil {
		return big.NewInt(0)
	}
	return w.prev.acct(k.Address()).General.Balance.ToBigInt()
}

func (w *world) escrowTarget() staking.Address {
	r := w.rng
	if r.Chance(80) {
		return w.g.Validators[r.Intn(len(w.g.Validators))].EntityAddress()
	}
	return w.pickKey().Address()
}

// activeProposalIDs from the last snapshot.
func (w *world) proposalIDs() []uint64 {
	var ids []uint64
	if w.prev != nil {
		for _, p := range w.prev.props {
			if p.State == governance.StateActive {
				ids = append(ids, p.ID)
			}
		}
	}
	return ids
}

// changeParamsTx builds a change-parameters proposal for one of the modules that accept them
// (staking, governance, registry, scheduler, roothash, vault, key manager), with valid and
// boundary values.  Kept out of the random stream: staking weights with vote = next-propose = 0
// (script govweights), scheduler MinValidators above the number of validators (that is the
// documented precondition, stream precond).
func (w *world) changeParamsTx(n uint64, fee *transaction.Fee, weightsOK bool) *transaction.Transaction {
	r := w.rng
	mod, body, tag := w.paramChange()
	_ = r
	w.count("govparams/" + tag)
	return governance.NewSubmitProposalTx(n, fee, &governance.ProposalContent{
		Metadata:         &governance.ProposalMetadata{Title: "verif c10 " + tag},
		ChangeParameters: &governance.ChangeParametersProposal{Module: mod, Changes: body},
	})
}

func (w *world) paramChange() (module string, changes []byte, tag string) {
	r := w.rng
	u8 := func(v uint8) *uint8 { return &v }
	u32 := func(v uint32) *uint32 { return &v }
	u64 := func(v uint64) *uint64 { return &v }
	ep := func(v uint64) *beacon.EpochTime { e := beacon.EpochTime(v); return &e }
	switch r.Intn(14) {
	case 0, 1, 2: // staking
		var ch staking.ConsensusParameterChanges
		switch r.Intn(6) {
		case 0:
			ch.MinTransferAmount = quantity.NewFromUint64(uint64(r.Intn(100)))
		case 1:
			ch.FeeSplitWeightPropose = quantity.NewFromUint64(uint64(r.Intn(4)))
			ch.FeeSplitWeightVote = quantity.NewFromUint64(uint64(1 + r.Intn(3)))
			ch.FeeSplitWeightNextPropose = quantity.NewFromUint64(uint64(r.Intn(3)))
		case 2:
			q := qU([]uint64{0, 1, 50_000, 100_000}[r.Intn(4)])
			ch.MinCommissionRate = &q
		case 3:
			q := qBig(pickBig(r, big.NewInt(0), big.NewInt(7), bigPow2(64)))
			ch.RewardFactorBlockProposed = &q
		case 4:
			q := qBig(pickBig(r, big.NewInt(0), big.NewInt(7), bigPow2(64)))
			ch.RewardFactorEpochSigned = &q
		default:
			ch.DebondingInterval = ep(uint64(1 + r.Intn(3)))
		}
		return staking.ModuleName, cbor.Marshal(ch), "staking"
	case 3, 4, 5, 6, 12, 13: // governance itself
		var ch governance.ConsensusParameterChanges
		switch r.Intn(10) {
		case 0, 1, 7, 8: // minimum deposit UP
			ch.MinProposalDeposit = quantity.NewFromUint64([]uint64{101, 150, 1000, 50_000, 200_000}[r.Intn(5)])
			return governance.ModuleName, cbor.Marshal(ch), "governance min_proposal_deposit up"
		case 2, 9: // and DOWN
			ch.MinProposalDeposit = quantity.NewFromUint64([]uint64{0, 1, 10, 99}[r.Intn(4)])
			return governance.ModuleName, cbor.Marshal(ch), "governance min_proposal_deposit down"
		case 3: // voting period (must stay below both upgrade epoch differences)
			ch.VotingPeriod = ep(uint64(1 + r.Intn(4)))
			if r.Chance(50) {
				ch.UpgradeMinEpochDiff = ep(uint64(2 + r.Intn(6)))
				ch.UpgradeCancelMinEpochDiff = ep(uint64(2 + r.Intn(6)))
			}
			return governance.ModuleName, cbor.Marshal(ch), "governance voting_period / upgrade epoch diffs"
		case 4:
			ch.StakeThreshold = u8([]uint8{67, 68, 90, 100, 66, 101}[r.Intn(6)])
			return governance.ModuleName, cbor.Marshal(ch), "governance stake_threshold"
		case 5:
			ch.UpgradeMinEpochDiff = ep(uint64(r.Intn(8)))
			ch.UpgradeCancelMinEpochDiff = ep(uint64(r.Intn(8)))
			return governance.ModuleName, cbor.Marshal(ch), "governance upgrade epoch diffs"
		default:
			ch.GasCosts = transaction.Costs{governance.GasOpSubmitProposal: transaction.Gas(r.Intn(3000)), governance.GasOpCastVote: transaction.Gas(r.Intn(3000))}
			return governance.ModuleName, cbor.Marshal(ch), "governance gas costs"
		}
	case 7: // registry
		var ch registry.ConsensusParameterChanges
		switch r.Intn(3) {
		case 0:
			// (a value below the expiration of registered nodes makes the state fail the registry
			// sanity check -- the debug sanity app and a genesis dump -- though no production app)
			ch.MaxNodeExpiration = ep([]uint64{1_000_000, 2_000_000, 1_000_001, 0, 5}[r.Intn(5)])
		case 1:
			b := r.Chance(50)
			ch.DisableRuntimeRegistration = &b
		default:
			ch.MaxRuntimeDeployments = u8(uint8(r.Intn(4)))
		}
		return registry.ModuleName, cbor.Marshal(ch), "registry"
	case 8: // scheduler
		var ch schedulerAPI.ConsensusParameterChanges
		switch r.Intn(3) {
		case 0:
			// free draws incl. non-positive values and min above max (refused at submission since
			// 2b1f48e); accepted minima stay <= 2, the number of validators the main stream keeps electable
			v := []int{-1, 0, 1, 2, 2}[r.Intn(5)]
			if v == 2 && w.k.Validators < 2 {
				v = 1
			}
			ch.MinValidators = &v
			if r.Chance(40) {
				m := []int{-1, 0, 1, 2, 3, 100}[r.Intn(6)]
				ch.MaxValidators = &m
			}
			if r.Chance(20) { // a minimum far above the maximum
				v, m := []int{5, 100}[r.Intn(2)], []int{1, 2, 3}[r.Intn(3)]
				ch.MinValidators, ch.MaxValidators = &v, &m
			}
		case 1:
			v := []int{-1, 0, 1, 2, 3, 100}[r.Intn(6)]
			ch.MaxValidators = &v
		default:
			d := schedulerAPI.VotingPowerDistribution(r.Intn(2))
			ch.VotingPowerDistribution = &d
		}
		return schedulerAPI.ModuleName, cbor.Marshal(ch), "scheduler"
	case 9: // roothash
		var ch roothash.ConsensusParameterChanges
		switch r.Intn(4) {
		case 0:
			ch.MaxRuntimeMessages = u32([]uint32{0, 1, 32, 1 << 31}[r.Intn(4)])
		case 1:
			ch.MaxInRuntimeMessages = u32([]uint32{0, 1, 32, 1 << 31}[r.Intn(4)])
		case 2:
			ch.MaxEvidenceAge = u64([]uint64{0, 1, 20, 1 << 62}[r.Intn(4)])
		default:
			ch.MaxPastRootsStored = u64([]uint64{0, 1, 100}[r.Intn(3)])
		}
		return roothash.ModuleName, cbor.Marshal(ch), "roothash"
	case 10: // vault
		var ch vault.ConsensusParameterChanges
		ch.MaxAuthorityAddresses = u8([]uint8{0, 1, 32, 255}[r.Intn(4)])
		return vault.ModuleName, cbor.Marshal(ch), "vault"
	default: // key manager (gas costs only)
		var ch secrets.ConsensusParameterChanges
		ch.GasCosts = transaction.Costs{secrets.GasOpUpdatePolicy: transaction.Gas(r.Intn(3000))}
		return keymanagerAPI.ModuleName, cbor.Marshal(ch), "keymanager"
	}
}

// randomTx builds one transaction of a random enabled kind.
func (w *world) randomTx(local map[staking.Address]uint64) (genTx, bool) {
	r := w.rng
	g := w.g
	var kinds []int
	for f := 0; f < numFeatures; f++ {
		switch f {
		case fTransfer, fEscrow, fCommission, fAllow, fGov, fMalformed, fRegistry, fLong:
			if w.has(f) {
				kinds = append(kinds, f)
			}
		}
	}
	// DebugMockBackend only: a SetEpoch in the first two blocks makes the scheduler see an epoch
	// change for which the (debug) beacon never generated entropy ("random beacon not available")
	if w.has(fGov) {
		kinds = append(kinds, fGov, fGov) // governance traffic weighs three times
	}
	if w.has(fEpochJump) && w.k.Mock && w.c.Next > 2 {
		kinds = append(kinds, fEpochJump)
	}
	if len(kinds) == 0 {
		return genTx{}, false
	}
	k := w.pickKey()
	bal := w.balanceOf(k)
	switch kinds[r.Intn(len(kinds))] {
	case fTransfer:
		if r.Chance(30) {
			tx := staking.NewBurnTx(w.nextNonce(k, local), w.fee(true), &staking.Burn{Amount: w.amount(bal)})
			return genTx{raw: muxdrv.Sign(k, tx), kind: "burn"}, true
		}
		tx := staking.NewTransferTx(w.nextNonce(k, local), w.fee(true), &staking.Transfer{To: w.pickKey().Address(), Amount: w.amount(bal)})
		return genTx{raw: muxdrv.Sign(k, tx), kind: "transfer"}, true
	case fEscrow:
		to := w.escrowTarget()
		if r.Chance(50) {
			tx := staking.NewAddEscrowTx(w.nextNonce(k, local), w.fee(true), &staking.Escrow{Account: to, Amount: w.amount(bal)})
			return genTx{raw: muxdrv.Sign(k, tx), kind: "add_escrow"}, true
		}
		// reclaim: prefer an existing delegation of k, often ALL its shares
		sh := big.NewInt(0)
		if w.prev != nil {
			var escs []staking.Address // sorted: map order must not influence the random stream
			for esc := range w.prev.delegs {
				escs = append(escs, esc)
			}
			sort.Slice(escs, func(a, b int) bool { return escs[a].String() < escs[b].String() })
			for _, esc := range escs {
				if d, ok := w.prev.delegs[esc][k.Address()]; ok && (r.Chance(60) || sh.Sign() == 0) {
					to, sh = esc, d.Shares.ToBigInt()
				}
			}
		}
		tx := staking.NewReclaimEscrowTx(w.nextNonce(k, local), w.fee(true), &staking.ReclaimEscrow{Account: to, Shares: w.amount(sh)})
		return genTx{raw: muxdrv.Sign(k, tx), kind: "reclaim_escrow"}, true
	case fCommission:
		v := g.Validators[r.Intn(len(g.Validators))]
		ep := uint64(0)
		if w.prev != nil {
			ep = w.prev.epoch
		}
		rate := []uint64{0, 1, 50_000, 100_000, 100_001}[r.Intn(5)]
		tx := muxdrv.TxAmendCommission(w.nextNonce(v.Entity, local), w.fee(true), ep+1+uint64(r.Intn(2)), rate, 0, 0, 0)
		return genTx{raw: muxdrv.Sign(v.Entity, tx), kind: "amend_commission"}, true
	case fAllow:
		if r.Chance(50) {
			tx := staking.NewAllowTx(w.nextNonce(k, local), w.fee(true), &staking.Allow{Beneficiary: w.pickKey().Address(), Negative: r.Chance(30), AmountChange: w.amount(bal)})
			return genTx{raw: muxdrv.Sign(k, tx), kind: "allow"}, true
		}
		tx := staking.NewWithdrawTx(w.nextNonce(k, local), w.fee(true), &staking.Withdraw{From: w.pickKey().Address(), Amount: w.amount(bal)})
		return genTx{raw: muxdrv.Sign(k, tx), kind: "withdraw"}, true
	case fGov:
		ids := w.proposalIDs()
		switch {
		case len(ids) == 0 || r.Chance(40):
			if r.Chance(20) {
				// cancel a pending upgrade when there is one (else a random id: fails at submit)
				id := uint64(r.Intn(5))
				if w.prev != nil {
					for _, p := range w.prev.props {
						if p.Content.Upgrade != nil && p.State == governance.StatePassed && r.Chance(70) {
							id = p.ID
						}
					}
				}
				tx := muxdrv.TxSubmitCancelUpgrade(w.nextNonce(k, local), w.fee(true), id)
				return genTx{raw: muxdrv.Sign(k, tx), kind: "submit_cancel_upgrade"}, true
			}
			if r.Chance(25) {
				// upgrade proposal; with no upgrader installed (as in this harness) a pending upgrade is
				// simply removed at its epoch (governance.go:212-219), with one the node stops by design
				ep := uint64(1)
				if w.prev != nil {
					ep = w.prev.epoch
				}
				at := ep + 3 + uint64(r.Intn(3))
				if w.prev != nil {
					at = ep + w.prev.govUMin + uint64(r.Intn(3)) // the CURRENT UpgradeMinEpochDiff
				}
				if r.Chance(15) {
					at = ep + uint64(r.Intn(3)) // too soon
				}
				d := upgrade.Descriptor{Versioned: cbor.NewVersioned(upgrade.LatestDescriptorVersion), Handler: upgrade.HandlerName(fmt.Sprintf("verif-%d", r.Intn(3))), Target: version.Versions, Epoch: beacon.EpochTime(at)}
				tx := governance.NewSubmitProposalTx(w.nextNonce(k, local), w.fee(true), &governance.ProposalContent{
					Metadata: &governance.ProposalMetadata{Title: "verif upgrade"}, Upgrade: &governance.UpgradeProposal{Descriptor: d}})
				return genTx{raw: muxdrv.Sign(k, tx), kind: "submit_upgrade"}, true
			}
			return genTx{raw: muxdrv.Sign(k, w.changeParamsTx(w.nextNonce(k, local), w.fee(true), true)), kind: "submit_change_params"}, true
		default:
			id := ids[r.Intn(len(ids))]
			if r.Chance(10) {
				id = uint64(r.Intn(40))
			}
			vote := governance.Vote(1 + r.Intn(3))
			if r.Chance(45) {
				vote = governance.VoteYes
			}
			if r.Chance(3) {
				vote = governance.Vote(r.Intn(256)) // castVote does not validate the value
			}
			voter := k
			switch x := r.Intn(100); {
			case x < 55:
				voter = g.Validators[r.Intn(len(g.Validators))].Entity
			case x < 85:
				voter = g.Accounts[3*r.Intn(4)].Key // the genesis delegators (accounts 0, 3, 6, 9)
			}
			tx := muxdrv.TxCastVote(w.nextNonce(voter, local), w.fee(true), id, vote)
			return genTx{raw: muxdrv.Sign(voter, tx), kind: "cast_vote"}, true
		}
	case fEpochJump:
		ep := uint64(1)
		if w.prev != nil {
			ep = w.prev.epoch
		}
		next := ep + 1
		switch r.Intn(6) {
		case 0:
			next = ep + uint64(2+r.Intn(40)) // jump
		case 1:
			next = ep // not an advance
		}
		tx := muxdrv.TxSetEpoch(w.nextNonce(k, local), w.fee(true), next)
		return genTx{raw: muxdrv.Sign(k, tx), kind: "set_epoch"}, true
	case fRegistry:
		v := g.Validators[r.Intn(len(g.Validators))]
		if w.d.Stream == "main" && v.Index < 2 {
			v = g.Validators[len(g.Validators)-1] // keep the proposers' nodes registered
		}
		if v.Index < 2 && len(g.Validators) <= 2 {
			nv := muxdrv.NewValidator(g.Seed, r.Intn(2))
			tx := muxdrv.TxRegisterNode(w.nextNonce(nv.Node, local), w.okFee(0, muxdrv.DefaultGas), nv, muxdrv.NodeDescriptor(nv, uint64(2+r.Intn(20)), node.RoleValidator))
			return genTx{raw: muxdrv.Sign(nv.Node, tx), kind: "register_node(unknown entity)"}, true
		}
		ep := uint64(1)
		if w.prev != nil {
			ep = w.prev.epoch
		}
		exp := ep + uint64(r.Intn(4)) // often about to expire / already expired
		tx := muxdrv.TxRegisterNode(w.nextNonce(v.Node, local), w.okFee(0, muxdrv.DefaultGas), v, muxdrv.NodeDescriptor(v, exp, node.RoleValidator))
		return genTx{raw: muxdrv.Sign(v.Node, tx), kind: "register_node"}, true
	case fLong:
		// a very long, well-signed tx of a random method with a garbage body
		ms := allMethods()
		m := ms[r.Intn(len(ms))]
		n := []int{1000, 8000, 15000, 16500, 40000}[r.Intn(5)]
		tx := &transaction.Transaction{Nonce: w.nextNonce(k, local), Fee: w.fee(true), Method: m, Body: cbor.Marshal(r.Bytes(n))}
		if n > 16000 {
			local[k.Address()]-- // over MaxTxSize: rejected before the nonce is consumed
			return genTx{raw: muxdrv.Sign(k, tx), kind: "oversized tx", garbage: true}, true
		}
		return genTx{raw: muxdrv.Sign(k, tx), kind: "long garbage body"}, true
	case fMalformed:
		ms := allMethods()
		m := ms[r.Intn(len(ms))]
		switch r.Intn(8) {
		case 0: // random bytes
			return genTx{raw: r.Bytes(1 + r.Intn(300)), kind: "random bytes", garbage: true}, true
		case 1: // signed for another chain
			tx := staking.NewTransferTx(w.nonce[k.Address()]+local[k.Address()], w.fee(true), &staking.Transfer{To: w.pickKey().Address(), Amount: qU(10)})
			return genTx{raw: muxdrv.SignRaw(k, tx, muxdrv.TxRawContext("deadbeef")), kind: "wrong chain context", garbage: true}, true
		case 2: // truncated
			tx := staking.NewTransferTx(w.nonce[k.Address()]+local[k.Address()], w.fee(true), &staking.Transfer{To: w.pickKey().Address(), Amount: qU(10)})
			raw := muxdrv.Sign(k, tx)
			return genTx{raw: muxdrv.Truncate(raw, 1+r.Intn(len(raw)-1)), kind: "truncated", garbage: true}, true
		case 3: // bit flip
			tx := staking.NewTransferTx(w.nonce[k.Address()]+local[k.Address()], w.fee(true), &staking.Transfer{To: w.pickKey().Address(), Amount: qU(10)})
			raw := muxdrv.Sign(k, tx)
			fl := muxdrv.FlipBit(raw, r.Intn(8*len(raw)))
			// A flip of bit 5 of a letter of a CBOR map key ("public_key" -> "pubLic_key") still
			// decodes (field names are matched case-insensitively) and the signature still
			// verifies: different bytes, same valid transaction. Not garbage then.
			var st transaction.SignedTransaction
			var inner transaction.Transaction
			if cbor.Unmarshal(fl, &st) == nil && st.Open(&inner) == nil {
				local[k.Address()]++
				return genTx{raw: fl, kind: "bit flip (still a valid envelope)"}, true
			}
			return genTx{raw: fl, kind: "bit flip", garbage: true}, true
		case 4: // every method with an empty / wrong-typed body
			bodies := [][]byte{nil, cbor.Marshal(map[string]int{}), cbor.Marshal("x"), cbor.Marshal(uint64(1) << 63), cbor.Marshal([]int{1, 2, 3}), {0xff}, {0x9f}}
			tx := &transaction.Transaction{Nonce: w.nextNonce(k, local), Fee: w.fee(true), Method: m, Body: bodies[r.Intn(len(bodies))]}
			return genTx{raw: muxdrv.Sign(k, tx), kind: "wrong body:" + string(m)}, true
		case 5: // unknown method
			tx := &transaction.Transaction{Nonce: w.nextNonce(k, local), Fee: w.fee(true), Method: transaction.MethodName("nosuch.Method"), Body: cbor.Marshal(1)}
			local[k.Address()]--
			return genTx{raw: muxdrv.Sign(k, tx), kind: "unknown method"}, true
		case 6: // wrong nonce
			tx := staking.NewTransferTx(w.nonce[k.Address()]+local[k.Address()]+uint64(1+r.Intn(5)), w.fee(true), &staking.Transfer{To: w.pickKey().Address(), Amount: qU(10)})
			return genTx{raw: muxdrv.Sign(k, tx), kind: "wrong nonce"}, true
		default: // no fee at all
			tx := staking.NewTransferTx(w.nextNonce(k, local), nil, &staking.Transfer{To: w.pickKey().Address(), Amount: qU(10)})
			local[k.Address()]--
			return genTx{raw: muxdrv.Sign(k, tx), kind: "nil fee"}, true
		}
	}
	return genTx{}, false
}

// evidence builds the misbehaviour list of a block.
func (w *world) evidence() ([]types.Misbehavior, string) {
	r := w.rng
	c, g := w.c, w.g
	if !w.has(fEvidence) || !r.Chance(25) || c.Next < 3 {
		return nil, "none"
	}
	var mis []types.Misbehavior
	tag := ""
	evH := c.Next - 1 - int64(r.Intn(2))
	n := 1 + r.Intn(3)
	for i := 0; i < n; i++ {
		switch {
		case r.Chance(40):
			mis = append(mis, c.DuplicateVote(muxdrv.UnknownAddress(uint64(r.Intn(5))), int64(1+r.Intn(100)), evH))
			tag += "U"
		default:
			// main stream: only validators 2.. are ever slashed (0 and 1 stay electable)
			lo := 2
			if w.d.Stream == "precond" {
				lo = 0
			}
			if len(g.Validators) <= lo {
				mis = append(mis, c.DuplicateVote(muxdrv.UnknownAddress(uint64(9)), 1, evH))
				tag += "U"
				continue
			}
			v := g.Validators[lo+r.Intn(len(g.Validators)-lo)]
			m := c.DuplicateVote(v.ConsAddr, 1, evH)
			if r.Chance(25) {
				m.Type = types.MisbehaviorType_LIGHT_CLIENT_ATTACK
			}
			if r.Chance(5) {
				m.Type = types.MisbehaviorType(77)
			}
			mis = append(mis, m)
			tag += "K"
			if r.Chance(30) { // repeated evidence against the same validator in one block
				mis = append(mis, m)
				tag += "K"
			}
		}
	}
	return mis, tag
}

func (w *world) votePattern() (muxdrv.VotePattern, string) {
	r := w.rng
	if !w.has(fVotes) {
		return muxdrv.VotesAll, "all"
	}
	switch r.Intn(6) {
	case 0, 1:
		return muxdrv.VotesNone, "none"
	case 2:
		return muxdrv.VotesMask(r.U64()), "mask"
	case 3:
		return muxdrv.VotesMask(1 << uint(r.Intn(4))), "one"
	default:
		return muxdrv.VotesAll, "all"
	}
}

func (w *world) randomBlock(b int) *blockPlan {
	r := w.rng
	bp := &blockPlan{proposer: r.Intn(len(w.props))}
	// long all-absent stretches: keep the pattern of the previous block with probability 1/2
	if w.lastVotes != nil && r.Chance(50) {
		bp.votes, bp.votesTag = w.lastVotes, w.lastVotesTag
	} else {
		bp.votes, bp.votesTag = w.votePattern()
	}
	w.lastVotes, w.lastVotesTag = bp.votes, bp.votesTag
	w.count("block/votes " + bp.votesTag)
	var etag string
	bp.mis, etag = w.evidence()
	w.count("block/evidence " + etag)
	local := map[staking.Address]uint64{}
	n := []int{0, 0, 1, 2, 3, 5, 8, 14}[r.Intn(8)]
	if w.k.Mock && r.Chance(35) && w.has(fEpochJump) && w.c.Next > 2 {
		// make epochs advance regularly under the mock backend
		k := w.keys[0]
		ep := uint64(1)
		if w.prev != nil {
			ep = w.prev.epoch
		}
		tx := muxdrv.TxSetEpoch(w.nextNonce(k, local), w.okFee(1, muxdrv.DefaultGas), ep+1)
		bp.txs = append(bp.txs, genTx{raw: muxdrv.Sign(k, tx), kind: "set_epoch"})
	}
	if w.k.Tiny {
		bp.txs = append(bp.txs, w.tinyJoiner(b, local)...)
	}
	for i := 0; i < n; i++ {
		if t, ok := w.randomTx(local); ok {
			bp.txs = append(bp.txs, t)
		}
	}
	// campaigns: two of three proposals are pushed through (every validator that has not
	// voted yet votes yes), so that parameter changes actually take effect while other
	// proposals, submitted under the old parameters, are still open
	if w.has(fGov) && w.prev != nil && r.Chance(60) {
		for _, p := range w.prev.props {
			if p.State != governance.StateActive || p.ID%3 == 0 {
				continue
			}
			voted := map[staking.Address]bool{}
			for _, v := range w.prev.votes[p.ID] {
				voted[v.Voter] = true
			}
			for _, v := range w.g.Validators {
				if !voted[v.EntityAddress()] {
					tx := muxdrv.TxCastVote(w.nextNonce(v.Entity, local), w.okFee(uint64(r.Intn(40)), muxdrv.DefaultGas), p.ID, governance.VoteYes)
					bp.txs = append(bp.txs, genTx{raw: muxdrv.Sign(v.Entity, tx), kind: "cast_vote (campaign)"})
				}
			}
		}
	}
	w.count(fmt.Sprintf("block/txs %s", bucket(len(bp.txs))))
	return bp
}

func bucket(n int) string {
	switch {
	case n == 0:
		return "0"
	case n <= 2:
		return "1-2"
	case n <= 5:
		return "3-5"
	default:
		return "6+"
	}
}

// tinyJoiner: fresh entities with 5..20 base units of self-escrow (thresholds 2 + 3) register
// validator nodes in blocks 2..4; they are elected at the next epoch with a stake below one
// voting-power unit.
func (w *world) tinyJoiner(b int, local map[staking.Address]uint64) (out []genTx) {
	g := w.g
	rich := g.Accounts[4]
	for j := 0; j < 2; j++ {
		nv := muxdrv.NewValidator(g.Seed, 7+j)
		esc := uint64(5 + (int(w.d.HSeed)+7*j)%16) // 5..20
		switch b {
		case 1:
			out = append(out, genTx{raw: muxdrv.Sign(rich.Key, muxdrv.TxTransfer(w.nextNonce(rich.Key, local), w.okFee(3, muxdrv.DefaultGas), nv.EntityAddress(), 50_000)), kind: "tiny:fund joiner"})
		case 2:
			out = append(out, genTx{raw: muxdrv.Sign(nv.Entity, muxdrv.TxAddEscrow(w.nextNonce(nv.Entity, local), w.okFee(1, muxdrv.DefaultGas), nv.EntityAddress(), esc)), kind: "tiny:self-escrow 5..20"})
			out = append(out, genTx{raw: muxdrv.Sign(nv.Entity, muxdrv.TxRegisterEntity(w.nextNonce(nv.Entity, local), w.okFee(1, 4*muxdrv.DefaultGas), nv.Entity, []signature.PublicKey{nv.Node.Public()})), kind: "tiny:register entity"})
		case 3:
			tx := muxdrv.TxRegisterNode(w.nextNonce(nv.Node, local), w.okFee(0, 4*muxdrv.DefaultGas), nv, muxdrv.NodeDescriptor(nv, 1000, node.RoleValidator))
			out = append(out, genTx{raw: muxdrv.Sign(nv.Node, tx), kind: "tiny:register validator node"})
		}
	}
	return out
}
