package main

import (
	"fmt"
	"math/big"

	"github.com/cometbft/cometbft/abci/types"

	"github.com/oasisprotocol/oasis-core/go/common/cbor"
	"github.com/oasisprotocol/oasis-core/go/common/quantity"
	"github.com/oasisprotocol/oasis-core/go/consensus/api/transaction"
	governance "github.com/oasisprotocol/oasis-core/go/governance/api"
	schedulerAPI "github.com/oasisprotocol/oasis-core/go/scheduler/api"
	staking "github.com/oasisprotocol/oasis-core/go/staking/api"

	"verifharness/internal/muxdrv"
)

// script is a deterministic corner-case history.
type script struct {
	name   string
	blocks int
	knobs  func(*knobs)
	block  func(w *world, b int) *blockPlan
}

var scripts []*script

func scriptByName(n string) *script {
	for _, s := range scripts {
		if s.name == n && n != "" {
			return s
		}
	}
	return nil
}

func baseKnobs(k *knobs) {
	k.Validators, k.Bypass, k.Mock, k.Huge, k.Twin = 4, false, false, false, false
	k.EpochInterval, k.Debonding, k.VotingPeriod = 3, 1, 1
	k.Pool = big.NewInt(1_000_000_000)
	k.Weights = [3]*big.Int{big.NewInt(2), big.NewInt(1), big.NewInt(1)}
	k.FactorSigned, k.FactorProposed, k.FactorElection = big.NewInt(1), big.NewInt(1), big.NewInt(1)
	k.ThrNum, k.ThrDen = 1, 2
	k.SlashAmt, k.Freeze = big.NewInt(4321), 1
	k.Commission = []uint64{5000, 10000, 15000, 20000}
	k.VoteNoEntity = true
	k.MinValidators = 1
	k.MinGasPrice, k.ByteGas = 0, 1
}

func init() {
	// (1) A change-parameters proposal that passes the parameter sanity check
	// (weights not all zero) and sets vote = next-propose = 0, executed at an epoch
	// boundary whose block carries fees.
	scripts = append(scripts, &script{
		name: "govweights", blocks: 12, knobs: baseKnobs,
		block: func(w *world, b int) *blockPlan {
			g := w.g
			bp := &blockPlan{proposer: b % len(w.props), votes: muxdrv.VotesAll, votesTag: "all"}
			local := map[staking.Address]uint64{}
			fee := muxdrv.Fee(1000, muxdrv.DefaultGas)
			switch b {
			case 0:
				ch := staking.ConsensusParameterChanges{
					FeeSplitWeightPropose:     quantity.NewFromUint64(1),
					FeeSplitWeightVote:        quantity.NewFromUint64(0),
					FeeSplitWeightNextPropose: quantity.NewFromUint64(0),
				}
				k := g.Validators[0].Entity
				tx := governance.NewSubmitProposalTx(w.nextNonce(k, local), fee, &governance.ProposalContent{
					Metadata:         &governance.ProposalMetadata{Title: "all fees to the proposer"},
					ChangeParameters: &governance.ChangeParametersProposal{Module: staking.ModuleName, Changes: cbor.Marshal(ch)},
				})
				bp.txs = append(bp.txs, genTx{raw: muxdrv.Sign(k, tx), kind: "submit_change_params"})
			case 1:
				for _, v := range g.Validators {
					tx := muxdrv.TxCastVote(w.nextNonce(v.Entity, local), fee, 1, governance.VoteYes)
					bp.txs = append(bp.txs, genTx{raw: muxdrv.Sign(v.Entity, tx), kind: "cast_vote"})
				}
			}
			// every block carries a fee-paying transfer
			a := g.Accounts[1]
			tx := muxdrv.TxTransfer(w.nextNonce(a.Key, local), fee, g.Accounts[2].Address, 100)
			bp.txs = append(bp.txs, genTx{raw: muxdrv.Sign(a.Key, tx), kind: "transfer"})
			return bp
		},
	})

	// (2) Everything on one epoch boundary: all validators absent in every block,
	// common pool drained by rewards, 100 % commission, validators 2 and 3 slashed to
	// zero (repeated evidence + unknown validators), a proposal with votes only from
	// non-validators closing, debonding completing, accounts emptied to zero.
	scripts = append(scripts, &script{
		name: "boundary", blocks: 14,
		knobs: func(k *knobs) {
			baseKnobs(k)
			k.Pool = big.NewInt(30_000)
			k.FactorProposed, k.FactorSigned, k.FactorElection = big.NewInt(50), big.NewInt(50), big.NewInt(50)
			k.Commission = []uint64{100_000, 100_000, 100_000, 0}
			k.SlashAmt, k.Freeze = bigPow2(61), 0
			k.ThrNum, k.ThrDen = 0, 1
		},
		block: func(w *world, b int) *blockPlan {
			g, c := w.g, w.c
			bp := &blockPlan{proposer: b % len(w.props), votes: muxdrv.VotesNone, votesTag: "none"}
			local := map[staking.Address]uint64{}
			fee := muxdrv.Fee(77, muxdrv.DefaultGas)
			zero := muxdrv.Fee(0, muxdrv.DefaultGas)
			switch b % 6 {
			case 0:
				k := g.Accounts[1].Key
				bp.txs = append(bp.txs, genTx{raw: muxdrv.Sign(k, muxdrv.TxSubmitChangeParams(w.nextNonce(k, local), fee, 20)), kind: "submit_change_params"})
				// delegators 0 (-> validator 0) and 3 (-> validator 3) reclaim everything
				for _, i := range []int{0, 3} {
					a := g.Accounts[i]
					v := g.Validators[i%len(g.Validators)]
					sh := uint64(0)
					if d, ok := w.prev.delegs[v.EntityAddress()][a.Address]; ok {
						sh = d.Shares.ToBigInt().Uint64()
					}
					bp.txs = append(bp.txs, genTx{raw: muxdrv.Sign(a.Key, muxdrv.TxReclaimEscrow(w.nextNonce(a.Key, local), fee, v.EntityAddress(), sh)), kind: "reclaim_escrow"})
				}
			case 1:
				// votes only from non-validators: delegators 6 and 9, and a non-delegator
				ids := w.proposalIDs()
				for _, i := range []int{6, 9, 4} {
					a := g.Accounts[i]
					for _, id := range ids {
						bp.txs = append(bp.txs, genTx{raw: muxdrv.Sign(a.Key, muxdrv.TxCastVote(w.nextNonce(a.Key, local), zero, id, governance.VoteYes)), kind: "cast_vote"})
					}
				}
				if c.Next > 2 {
					v2, v3 := g.Validators[2], g.Validators[3]
					ev := c.DuplicateVote(v2.ConsAddr, 1, c.Next-1)
					lc := c.DuplicateVote(v3.ConsAddr, 1, c.Next-1)
					lc.Type = types.MisbehaviorType_LIGHT_CLIENT_ATTACK
					bp.mis = []types.Misbehavior{ev, ev, c.DuplicateVote(muxdrv.UnknownAddress(1), 5, c.Next-1), lc}
				}
			case 2:
				// empty accounts 5 and 7 completely (zero fee), burn and transfer
				a5, a7 := g.Accounts[5], g.Accounts[7]
				b5 := w.prev.acct(a5.Address).General.Balance
				b7 := w.prev.acct(a7.Address).General.Balance
				bp.txs = append(bp.txs,
					genTx{raw: muxdrv.Sign(a5.Key, staking.NewBurnTx(w.nextNonce(a5.Key, local), zero, &staking.Burn{Amount: b5})), kind: "burn"},
					genTx{raw: muxdrv.Sign(a7.Key, staking.NewTransferTx(w.nextNonce(a7.Key, local), zero, &staking.Transfer{To: g.Accounts[8].Address, Amount: b7})), kind: "transfer"})
			}
			return bp
		},
	})

	// (3) Delegators overriding the vote of the validator they delegate to: validators 0..3
	// vote yes/yes/no/abstain, the genesis delegators 0 (-> validator 0), 9 (-> 1), 6 (-> 2),
	// 3 (-> 3) vote differently (or the same), one proposal per epoch.
	scripts = append(scripts, &script{
		name: "override", blocks: 10, knobs: baseKnobs,
		block: func(w *world, b int) *blockPlan {
			g := w.g
			bp := &blockPlan{proposer: b % len(w.props), votes: muxdrv.VotesMask(uint64(b)), votesTag: "mask"}
			local := map[staking.Address]uint64{}
			fee := muxdrv.Fee(33, muxdrv.DefaultGas)
			switch b % 3 {
			case 0:
				k := g.Accounts[1].Key
				bp.txs = append(bp.txs, genTx{raw: muxdrv.Sign(k, muxdrv.TxSubmitChangeParams(w.nextNonce(k, local), fee, uint64(11+b))), kind: "submit_change_params"})
			case 1:
				vv := []governance.Vote{governance.VoteYes, governance.VoteYes, governance.VoteNo, governance.VoteAbstain}
				dv := map[int]governance.Vote{0: governance.VoteNo, 9: governance.VoteYes, 6: governance.VoteAbstain, 3: governance.VoteYes}
				for _, id := range w.proposalIDs() {
					for i, v := range g.Validators {
						bp.txs = append(bp.txs, genTx{raw: muxdrv.Sign(v.Entity, muxdrv.TxCastVote(w.nextNonce(v.Entity, local), fee, id, vv[i%4])), kind: "cast_vote"})
					}
					for _, ai := range []int{0, 9, 6, 3} {
						a := g.Accounts[ai]
						bp.txs = append(bp.txs, genTx{raw: muxdrv.Sign(a.Key, muxdrv.TxCastVote(w.nextNonce(a.Key, local), fee, id, dv[ai])), kind: "cast_vote"})
					}
				}
			}
			return bp
		},
	})

	// (4) The minimum proposal deposit is raised, then lowered, by passed proposals while
	// other proposals -- submitted under the previous minimum -- are still open and close
	// later (passed -> refund of the RECORDED deposit, no votes -> discarded into the common pool).
	scripts = append(scripts, &script{
		name: "govdeposit", blocks: 22,
		knobs: func(k *knobs) { baseKnobs(k); k.VotingPeriod = 2 },
		block: func(w *world, b int) *blockPlan {
			g := w.g
			bp := &blockPlan{proposer: b % len(w.props), votes: muxdrv.VotesAll, votesTag: "all"}
			local := map[staking.Address]uint64{}
			fee := muxdrv.Fee(21, muxdrv.DefaultGas)
			govChange := func(k *muxdrv.Key, min uint64, title string) genTx {
				ch := governance.ConsensusParameterChanges{MinProposalDeposit: quantity.NewFromUint64(min)}
				tx := governance.NewSubmitProposalTx(w.nextNonce(k, local), fee, &governance.ProposalContent{
					Metadata:         &governance.ProposalMetadata{Title: title},
					ChangeParameters: &governance.ChangeParametersProposal{Module: governance.ModuleName, Changes: cbor.Marshal(ch)},
				})
				return genTx{raw: muxdrv.Sign(k, tx), kind: "submit_change_params"}
			}
			plain := func(k *muxdrv.Key, v uint64) genTx {
				return genTx{raw: muxdrv.Sign(k, muxdrv.TxSubmitChangeParams(w.nextNonce(k, local), fee, v)), kind: "submit_change_params"}
			}
			yes := func(id uint64) {
				for _, v := range g.Validators {
					bp.txs = append(bp.txs, genTx{raw: muxdrv.Sign(v.Entity, muxdrv.TxCastVote(w.nextNonce(v.Entity, local), fee, id, governance.VoteYes)), kind: "cast_vote"})
				}
			}
			a := g.Accounts
			switch b {
			case 0: // epoch 1: proposal 1 raises the minimum deposit 100 -> 1000 (closes at epoch 3)
				bp.txs = append(bp.txs, govChange(a[1].Key, 1000, "raise min deposit"))
			case 1:
				yes(1)
			case 5: // epoch 2: proposals 2 (will pass) and 3 (no votes) under the OLD minimum (close at epoch 4)
				bp.txs = append(bp.txs, plain(a[2].Key, 11), plain(a[3].Key, 12))
			case 6:
				yes(2)
			case 8: // epoch 3: proposal 1 has passed; proposal 4 lowers the minimum 1000 -> 10 (deposit 1000, closes at 5)
				bp.txs = append(bp.txs, govChange(a[1].Key, 10, "lower min deposit"))
			case 9:
				yes(4)
			case 11: // epoch 4: proposals 5 (will pass) and 6 (no votes) under the minimum 1000 (close at epoch 6)
				bp.txs = append(bp.txs, plain(a[2].Key, 13), plain(a[3].Key, 14))
			case 12:
				yes(5)
			}
			return bp
		},
	})

	// (5) Stakes below one voting-power unit (16 base units), stake NOT bypassed, thresholds 2 + 3:
	// a SOLE validator whose escrow is reclaimed down to 10 base units, and a fresh entity with
	// 9 base units that registers a validator node.  Both must get voting power 1.
	scripts = append(scripts, &script{
		name: "tinystake", blocks: 14,
		knobs: func(k *knobs) {
			baseKnobs(k)
			k.Validators, k.Tiny, k.TinyRemainder, k.EpochInterval = 1, true, 7, 3
		},
		block: func(w *world, b int) *blockPlan {
			g := w.g
			bp := &blockPlan{proposer: 0, votes: muxdrv.VotesAll, votesTag: "all"}
			local := map[staking.Address]uint64{}
			fee := muxdrv.Fee(2, muxdrv.DefaultGas)
			v0 := g.Validators[0]
			switch b {
			case 0:
				// every delegator of the sole validator reclaims everything, the validator all but 10
				for _, ai := range []int{0, 3, 6, 9} {
					a := g.Accounts[ai]
					if d, ok := w.prev.delegs[v0.EntityAddress()][a.Address]; ok {
						bp.txs = append(bp.txs, genTx{raw: muxdrv.Sign(a.Key, staking.NewReclaimEscrowTx(w.nextNonce(a.Key, local), fee, &staking.ReclaimEscrow{Account: v0.EntityAddress(), Shares: d.Shares})), kind: "reclaim_escrow"})
					}
				}
				if d, ok := w.prev.delegs[v0.EntityAddress()][v0.EntityAddress()]; ok {
					sh := new(big.Int).Sub(d.Shares.ToBigInt(), big.NewInt(10))
					bp.txs = append(bp.txs, genTx{raw: muxdrv.Sign(v0.Entity, staking.NewReclaimEscrowTx(w.nextNonce(v0.Entity, local), fee, &staking.ReclaimEscrow{Account: v0.EntityAddress(), Shares: qBig(sh)})), kind: "reclaim_escrow"})
				}
			case 6, 7, 8: // after the first election with the tiny sole validator: a tiny joiner
				bp.txs = append(bp.txs, w.tinyJoiner(b-5, local)...)
			}
			return bp
		},
	})

	// (6) KNOWN FINDING (not repaired): genesis with the sqrt voting-power distribution and a
	// validator stake of 2^100 (admissible: sqrt(supply) is below the cap); a passed scheduler
	// parameter change switches to the LINEAR distribution, after which the election's voting
	// power conversion overflows.  Reported under findingSqrtLinear.
	scripts = append(scripts, &script{
		name: "sqrtlinear", blocks: 12,
		knobs: func(k *knobs) { baseKnobs(k); k.SqrtHuge = true },
		block: func(w *world, b int) *blockPlan {
			g := w.g
			bp := &blockPlan{proposer: b % len(w.props), votes: muxdrv.VotesAll, votesTag: "all"}
			local := map[staking.Address]uint64{}
			fee := muxdrv.Fee(2, muxdrv.DefaultGas)
			switch b {
			case 0:
				d := schedulerAPI.VotingPowerDistribution(schedulerAPI.VotingPowerDistributionLinear)
				ch := schedulerAPI.ConsensusParameterChanges{VotingPowerDistribution: &d}
				k := g.Accounts[1].Key
				tx := governance.NewSubmitProposalTx(w.nextNonce(k, local), fee, &governance.ProposalContent{
					Metadata:         &governance.ProposalMetadata{Title: "linear voting power"},
					ChangeParameters: &governance.ChangeParametersProposal{Module: schedulerAPI.ModuleName, Changes: cbor.Marshal(ch)},
				})
				bp.txs = append(bp.txs, genTx{raw: muxdrv.Sign(k, tx), kind: "submit_change_params"})
			case 1:
				for _, v := range g.Validators {
					bp.txs = append(bp.txs, genTx{raw: muxdrv.Sign(v.Entity, muxdrv.TxCastVote(w.nextNonce(v.Entity, local), fee, 1, governance.VoteYes)), kind: "cast_vote"})
				}
			}
			return bp
		},
	})

	// (7) Scheduler parameter changes that would make every election fail -- {min 2, max 1},
	// {max 0}, {min -1} -- are refused at submission (repair 2b1f48e); a consistent one
	// {min 2, max 3} passes and the elections go on.
	scripts = append(scripts, &script{
		name: "minmaxvalidators", blocks: 14, knobs: baseKnobs,
		block: func(w *world, b int) *blockPlan {
			g := w.g
			bp := &blockPlan{proposer: b % len(w.props), votes: muxdrv.VotesAll, votesTag: "all"}
			local := map[staking.Address]uint64{}
			fee := muxdrv.Fee(2, muxdrv.DefaultGas)
			submit := func(mn, mx *int, title string) {
				ch := schedulerAPI.ConsensusParameterChanges{MinValidators: mn, MaxValidators: mx}
				k := g.Accounts[1].Key
				tx := governance.NewSubmitProposalTx(w.nextNonce(k, local), fee, &governance.ProposalContent{
					Metadata:         &governance.ProposalMetadata{Title: title},
					ChangeParameters: &governance.ChangeParametersProposal{Module: schedulerAPI.ModuleName, Changes: cbor.Marshal(ch)},
				})
				bp.txs = append(bp.txs, genTx{raw: muxdrv.Sign(k, tx), kind: "submit_change_params (" + title + ")"})
			}
			ip := func(v int) *int { return &v }
			switch b {
			case 0:
				submit(ip(2), ip(1), "min 2 max 1")
				submit(nil, ip(0), "max 0")
				submit(ip(-1), nil, "min -1")
				submit(ip(2), ip(3), "min 2 max 3")
			case 1:
				for _, id := range w.proposalIDs() {
					for _, v := range g.Validators {
						bp.txs = append(bp.txs, genTx{raw: muxdrv.Sign(v.Entity, muxdrv.TxCastVote(w.nextNonce(v.Entity, local), fee, id, governance.VoteYes)), kind: "cast_vote"})
					}
				}
			}
			return bp
		},
	})

	// (8) Fee shapes under a positive minimum gas price and NO per-byte gas cost: a validly
	// signed transfer with Fee{amount > 0, gas 0} (its gas price is 0: rejected, nothing else),
	// amount 0 gas 0, no fee, gas 2^64-1, exactly the minimum.
	scripts = append(scripts, &script{
		name: "zerogasfee", blocks: 6,
		knobs: func(k *knobs) { baseKnobs(k); k.MinGasPrice, k.ByteGas = 1, 0 },
		block: func(w *world, b int) *blockPlan {
			g := w.g
			bp := &blockPlan{proposer: b % len(w.props), votes: muxdrv.VotesAll, votesTag: "all"}
			local := map[staking.Address]uint64{}
			fees := []*transaction.Fee{
				muxdrv.Fee(5, 0), muxdrv.Fee(0, 0), nil, muxdrv.Fee(muxdrv.DefaultGas, muxdrv.DefaultGas),
				{Amount: qU(7), Gas: transaction.Gas(^uint64(0))}, muxdrv.Fee(muxdrv.DefaultGas-1, muxdrv.DefaultGas),
			}
			if b >= 1 && b <= 3 {
				for i, f := range fees {
					a := g.Accounts[1+i%3]
					tx := staking.NewTransferTx(w.nextNonce(a.Key, local), f, &staking.Transfer{To: g.Accounts[5].Address, Amount: qU(10)})
					bp.txs = append(bp.txs, genTx{raw: muxdrv.Sign(a.Key, tx), kind: fmt.Sprintf("transfer (fee shape %d)", i)})
					if i != 3 {
						local[a.Address]-- // rejected before the nonce is consumed
					}
				}
			}
			return bp
		},
	})
}
