package main

import (
	"bytes"
	"math"
	"context"
	"encoding/hex"
	"errors"
	"fmt"
	"math/big"
	"strings"

	"github.com/cometbft/cometbft/abci/types"
	cmted25519 "github.com/cometbft/cometbft/crypto/ed25519"
	cmttypes "github.com/cometbft/cometbft/types"

	beacon "github.com/oasisprotocol/oasis-core/go/beacon/api"
	"github.com/oasisprotocol/oasis-core/go/common"
	"github.com/oasisprotocol/oasis-core/go/common/cbor"
	"github.com/oasisprotocol/oasis-core/go/common/crypto/signature"
	"github.com/oasisprotocol/oasis-core/go/common/quantity"
	"github.com/oasisprotocol/oasis-core/go/consensus/api/events"
	"github.com/oasisprotocol/oasis-core/go/consensus/api/transaction"
	abciAPI "github.com/oasisprotocol/oasis-core/go/consensus/cometbft/api"
	consensusGenesis "github.com/oasisprotocol/oasis-core/go/consensus/genesis"
	governanceState "github.com/oasisprotocol/oasis-core/go/consensus/cometbft/apps/governance/state"
	registryState "github.com/oasisprotocol/oasis-core/go/consensus/cometbft/apps/registry/state"
	schedulerState "github.com/oasisprotocol/oasis-core/go/consensus/cometbft/apps/scheduler/state"
	schedulerAPI "github.com/oasisprotocol/oasis-core/go/scheduler/api"
	stakingState "github.com/oasisprotocol/oasis-core/go/consensus/cometbft/apps/staking/state"
	genesis "github.com/oasisprotocol/oasis-core/go/genesis/api"
	governance "github.com/oasisprotocol/oasis-core/go/governance/api"
	staking "github.com/oasisprotocol/oasis-core/go/staking/api"

	"verifharness/internal/muxdrv"
	"verifharness/internal/prng"
)

// generator features (bits of histDesc.Mask)
const (
	fTransfer = iota
	fEscrow
	fCommission
	fAllow
	fGov
	fMalformed
	fEvidence
	fVotes
	fEpochJump
	fRegistry
	fLong
	fFees
	numFeatures
)

func bigPow2(n uint) *big.Int { return new(big.Int).Lsh(big.NewInt(1), n) }

func qBig(b *big.Int) quantity.Quantity {
	var q quantity.Quantity
	if err := q.FromBigInt(b); err != nil {
		panic(err)
	}
	return q
}

func qU(v uint64) quantity.Quantity { return *quantity.NewFromUint64(v) }

// knobs are the genesis choices of one history.
type knobs struct {
	Validators     int
	Bypass         bool
	Mock           bool
	EpochInterval  int64
	Debonding      uint64
	VotingPeriod   uint64
	Pool           *big.Int
	SlashAmt       *big.Int
	Freeze         uint64
	Commission     []uint64
	Weights        [3]*big.Int
	FactorSigned   *big.Int
	FactorProposed *big.Int
	FactorElection *big.Int
	ThrNum, ThrDen uint64
	VoteNoEntity   bool
	Huge           bool
	Twin           bool
	MinValidators  int
	Tiny           bool  // stake thresholds below one voting-power unit; validators with 1..20 base units
	TinyRemainder  int64 // what a consensus slash leaves of the last validator's escrow (Tiny)
	NearCap        bool  // one validator holds a stake whose power is just below CometBFT's total power cap
	CapMargin      int64 // distance of the total supply's power from the cap (NearCap)
	SqrtHuge       bool  // genesis uses the sqrt voting-power distribution and one validator holds 2^100
	MinGasPrice    uint64 // consensus minimum gas price
	ByteGas        uint64 // gas cost per transaction byte
}

func pickBig(r *prng.R, xs ...*big.Int) *big.Int { return xs[r.Intn(len(xs))] }

func makeKnobs(d histDesc, r *prng.R) *knobs {
	k := &knobs{Validators: 4, EpochInterval: int64(2 + r.Intn(4)), Debonding: uint64(1 + r.Intn(2)), VotingPeriod: uint64(1 + r.Intn(2)), MinValidators: 1}
	if r.Chance(15) {
		k.Validators = 1 + r.Intn(3)
	}
	k.Bypass = r.Chance(35)
	k.Mock = r.Chance(30) && mockFlag
	k.Huge = k.Bypass && r.Chance(70)
	k.Twin = r.Chance(35)
	k.VoteNoEntity = r.Chance(60)
	if r.Chance(35) {
		k.Debonding, k.VotingPeriod = 1, 1 // proposals close and debonding completes on the same boundary
	} else if r.Chance(60) {
		k.VotingPeriod = 2 // proposals overlap: parameter changes take effect while others are open
	}
	max := bigPow2(61)
	if k.Bypass {
		max = bigPow2(255)
	}
	k.Pool = pickBig(r, big.NewInt(0), big.NewInt(1), big.NewInt(1000), big.NewInt(30_000), big.NewInt(1_000_000_000), max)
	k.SlashAmt = pickBig(r, big.NewInt(0), big.NewInt(1), big.NewInt(1000), big.NewInt(4321), max, max)
	k.Freeze = uint64(r.Intn(3)) // 0 = repeated slashing possible
	for i := 0; i < 4; i++ {
		k.Commission = append(k.Commission, []uint64{0, uint64(5000 * (i + 1)), 100_000, 99_999, 1}[r.Intn(5)])
	}
	ws := [][3]int64{{2, 1, 1}, {2, 1, 1}, {0, 1, 0}, {0, 0, 1}, {0, 1, 1}, {1, 0, 1}, {1, 1, 0}, {7, 3, 5}, {1, 0, 0}}
	w := ws[r.Intn(len(ws))]
	k.Weights = [3]*big.Int{big.NewInt(w[0]), big.NewInt(w[1]), big.NewInt(w[2])}
	if r.Chance(15) {
		k.Weights[r.Intn(3)] = bigPow2(128)
	}
	k.FactorSigned = pickBig(r, big.NewInt(0), big.NewInt(1), big.NewInt(50), bigPow2(64))
	k.FactorProposed = pickBig(r, big.NewInt(0), big.NewInt(1), big.NewInt(50), bigPow2(64))
	k.FactorElection = pickBig(r, big.NewInt(0), big.NewInt(1), big.NewInt(50))
	thr := [][2]uint64{{1, 2}, {0, 0}, {1, 1}, {0, 1}, {3, 4}}
	t := thr[r.Intn(len(thr))]
	k.ThrNum, k.ThrDen = t[0], t[1]
	if !k.Bypass && r.Chance(25) {
		k.Tiny, k.TinyRemainder = true, int64(1+r.Intn(20))
		if r.Chance(50) {
			k.Freeze = 0 // the slashed validator stays electable with its tiny remainder
		}
	}
	if !k.Bypass && r.Chance(15) {
		k.NearCap, k.CapMargin = true, int64(1000+r.Intn(5000))
	}
	if !k.Bypass && !k.NearCap && r.Chance(5) {
		k.SqrtHuge = true // sqrt genesis with a 2^100 stake: a passed switch to linear is the known finding
	}
	k.ByteGas = 1
	switch x := r.Intn(100); {
	case x < 20:
		k.MinGasPrice = 1
	case x < 35:
		k.MinGasPrice = 1000
	}
	if r.Chance(40) {
		k.ByteGas = 0
	}
	if capMarginFlag >= 0 {
		k.Bypass, k.Huge, k.Tiny, k.TinyRemainder, k.NearCap, k.CapMargin = false, false, true, 7, true, capMarginFlag
	}
	if d.Stream == "precond" {
		k.Validators = 2 + r.Intn(3)
		k.SlashAmt = max
		k.Freeze = 1 + uint64(r.Intn(2))
		k.Twin = false
		if r.Chance(40) {
			k.MinValidators = k.Validators // freezing ONE validator is then already enough
		}
	}
	return k
}

// world is one running history.
type world struct {
	d     histDesc
	k     *knobs
	rng   *prng.R
	g     *muxdrv.Genesis
	c     *muxdrv.Chain
	props []*muxdrv.Replica // props[i] has validator i's identity (i < nProps)
	obs   *muxdrv.Replica   // replays
	twin  *muxdrv.Replica   // same history without the stateless-garbage txs (twin mode)
	res   *histResult
	run   *runner
	keys  []*muxdrv.Key // accounts then validator entities
	nonce map[staking.Address]uint64
	prev  *snap

	g0vals  []staking.Address
	g0accts []staking.Address

	lastVotes    muxdrv.VotePattern
	lastVotesTag string

	rt *rtScen // stream roothash

	pending *violation // an invariant violation seen earlier in the history

	cmtVals *cmttypes.ValidatorSet // CometBFT's view of the validator set (NextValidators)
}

type histResult struct {
	viol      *violation
	blocksRun int
	epochs    int
	txs       int
	txFailed  int
	outcome   string
	finding   bool // the violation is the registered-key finding of script govweights
	findingKey string // the violation is reported as a keyed finding (known_findings.json decides)
	knownKey   string // the violation matches the narrow classification of a registered known finding
	hist      map[string]int
}

func (w *world) count(k string) { w.res.hist[k]++ }

func (w *world) has(f int) bool { return w.d.Mask>>uint(f)&1 == 1 }

func (w *world) closeAll() {
	for _, p := range w.props {
		if p != nil {
			p.Close()
		}
	}
	if w.obs != nil {
		w.obs.Close()
	}
	if w.twin != nil {
		w.twin.Close()
	}
}

func (w *world) mutate(doc *genesis.Document) {
	k := w.k
	st := &doc.Staking
	st.Parameters.FeeSplitWeightPropose = qBig(k.Weights[0])
	st.Parameters.FeeSplitWeightVote = qBig(k.Weights[1])
	st.Parameters.FeeSplitWeightNextPropose = qBig(k.Weights[2])
	st.Parameters.RewardFactorEpochSigned = qBig(k.FactorSigned)
	st.Parameters.RewardFactorBlockProposed = qBig(k.FactorProposed)
	st.Parameters.SigningRewardThresholdNumerator = k.ThrNum
	st.Parameters.SigningRewardThresholdDenominator = k.ThrDen
	st.Parameters.Slashing = map[staking.SlashReason]staking.Slash{
		staking.SlashConsensusEquivocation:     {Amount: qBig(k.SlashAmt), FreezeInterval: beacon.EpochTime(k.Freeze)},
		staking.SlashConsensusLightClientAttack: {Amount: qBig(k.SlashAmt), FreezeInterval: beacon.EpochTime(k.Freeze)},
	}
	st.Parameters.CommissionScheduleRules.RateChangeInterval = 1
	st.Parameters.CommissionScheduleRules.RateBoundLead = 1
	doc.Scheduler.Parameters.RewardFactorEpochElectionAny = qBig(k.FactorElection)
	doc.Scheduler.Parameters.MinValidators = k.MinValidators
	doc.Governance.Parameters.AllowVoteWithoutEntity = k.VoteNoEntity
	doc.Consensus.Parameters.MinGasPrice = k.MinGasPrice
	doc.Consensus.Parameters.GasCosts = transaction.Costs{consensusGenesis.GasOpTxByte: transaction.Gas(k.ByteGas)}
	if w.d.Stream == "roothash" {
		rtMutate(doc)
	}
	st.CommonPool = qBig(k.Pool)
	i := 0
	for _, v := range w.g0vals {
		acc := st.Ledger[v]
		acc.Escrow.CommissionSchedule = staking.CommissionSchedule{
			Rates:  []staking.CommissionRateStep{{Start: 0, Rate: qU(k.Commission[i%4])}},
			Bounds: []staking.CommissionRateBoundStep{{Start: 0, RateMin: qU(0), RateMax: qU(100_000)}},
		}
		i++
	}
	if k.Huge {
		// accounts 0..2 hold 2^64-1, 2^128, 2^255
		hs := []*big.Int{new(big.Int).SetUint64(^uint64(0)), bigPow2(128), bigPow2(255)}
		for j, a := range w.g0accts {
			if j < len(hs) {
				st.Ledger[a].General.Balance = qBig(hs[j])
			}
		}
	}
	if k.Tiny {
		// thresholds below one voting-power unit (16 base units): an entity with 5..20 base units
		// of escrow can run a validator
		for kind := range st.Parameters.Thresholds {
			st.Parameters.Thresholds[kind] = qU(1)
		}
		st.Parameters.Thresholds[staking.KindEntity] = qU(2)
		st.Parameters.Thresholds[staking.KindNodeValidator] = qU(3)
		st.Parameters.MinDelegationAmount = qU(1)
		if n := len(w.g0vals); n > 2 {
			esc := st.Ledger[w.g0vals[n-1]].Escrow.Active.Balance.ToBigInt()
			amt := new(big.Int).Sub(esc, big.NewInt(k.TinyRemainder))
			for r, sl := range st.Parameters.Slashing {
				sl.Amount = qBig(amt)
				st.Parameters.Slashing[r] = sl
			}
		}
	}
	if k.NearCap && len(w.g0vals) > 0 {
		// the last validator's self-escrow is raised so that the power of the WHOLE supply is
		// CapMargin below MaxTotalVotingPower = MaxInt64/8 (the genesis check allows up to the cap)
		rest := new(big.Int)
		for _, a := range st.Ledger {
			rest.Add(rest, a.General.Balance.ToBigInt())
			rest.Add(rest, a.Escrow.Active.Balance.ToBigInt())
			rest.Add(rest, a.Escrow.Debonding.Balance.ToBigInt())
		}
		rest.Add(rest, st.CommonPool.ToBigInt())
		rest.Add(rest, st.LastBlockFees.ToBigInt())
		rest.Add(rest, st.GovernanceDeposits.ToBigInt())
		capPow := new(big.Int).SetInt64(math.MaxInt64 / 8)
		want := new(big.Int).Mul(new(big.Int).Sub(capPow, big.NewInt(k.CapMargin)), big.NewInt(16))
		x := new(big.Int).Sub(want, rest)
		if x.Sign() > 0 {
			va := w.g0vals[len(w.g0vals)-1]
			acc := st.Ledger[va]
			b := new(big.Int).Add(acc.Escrow.Active.Balance.ToBigInt(), x)
			ts := new(big.Int).Add(acc.Escrow.Active.TotalShares.ToBigInt(), x)
			acc.Escrow.Active.Balance, acc.Escrow.Active.TotalShares = qBig(b), qBig(ts)
			d := st.Delegations[va][va]
			d.Shares = qBig(new(big.Int).Add(d.Shares.ToBigInt(), x))
		}
	}
	if k.SqrtHuge && len(w.g0vals) > 0 {
		doc.Scheduler.Parameters.VotingPowerDistribution = schedulerAPI.VotingPowerDistributionSqrt
		va := w.g0vals[len(w.g0vals)-1]
		acc := st.Ledger[va]
		x := bigPow2(100)
		acc.Escrow.Active.Balance = qBig(new(big.Int).Add(acc.Escrow.Active.Balance.ToBigInt(), x))
		acc.Escrow.Active.TotalShares = qBig(new(big.Int).Add(acc.Escrow.Active.TotalShares.ToBigInt(), x))
		d := st.Delegations[va][va]
		d.Shares = qBig(new(big.Int).Add(d.Shares.ToBigInt(), x))
	}
	// recompute the total supply
	total := new(big.Int)
	for _, a := range st.Ledger {
		total.Add(total, a.General.Balance.ToBigInt())
		total.Add(total, a.Escrow.Active.Balance.ToBigInt())
		total.Add(total, a.Escrow.Debonding.Balance.ToBigInt())
	}
	total.Add(total, st.CommonPool.ToBigInt())
	total.Add(total, st.LastBlockFees.ToBigInt())
	total.Add(total, st.GovernanceDeposits.ToBigInt())
	st.TotalSupply = qBig(total)
}

// newWorld builds genesis and replicas.
func newWorld(d histDesc, run *runner) (*world, error) {
	rng := prng.New(d.HSeed)
	w := &world{d: d, rng: rng, run: run, nonce: map[staking.Address]uint64{}, res: &histResult{hist: map[string]int{}}}
	w.k = makeKnobs(d, rng)
	if s := scriptByName(d.Script); s != nil && s.knobs != nil {
		s.knobs(w.k)
	}
	if d.Stream == "roothash" {
		rtKnobs(w.k)
		w.k.EpochInterval = int64(3 + rng.Intn(3))
		w.k.Commission[0] = []uint64{5000, 20_000, 99_999, 100_000}[rng.Intn(4)]
		if d.Script == scriptRtSuspendTimeout {
			w.k.EpochInterval = 3
		}
		if d.Script == scriptRtSlashReward {
			w.k.Commission[0], w.k.EpochInterval = 100_000, 3
		}
		w.k.Pool = pickBig(rng, big.NewInt(1000), big.NewInt(1_000_000_000))
	}
	k := w.k
	// the addresses are needed inside Mutate, before the Genesis object exists: derive them the
	// same way NewGenesis does (keys are pure functions of seed and index).
	seed := d.HSeed%1000 + 1
	for i := 0; i < k.Validators; i++ {
		w.g0vals = append(w.g0vals, muxdrv.NewKey(fmt.Sprintf("verif/%d/val/%d/entity", seed, i)).Address())
	}
	for i := 0; i < 10; i++ {
		w.g0accts = append(w.g0accts, muxdrv.NewKey(fmt.Sprintf("verif/%d/acct/%d", seed, i)).Address())
	}
	g, err := muxdrv.NewGenesis(seed, muxdrv.GenesisOpts{
		Validators: k.Validators, Accounts: 10, EpochInterval: k.EpochInterval, MockEpochs: k.Mock,
		BypassStake: k.Bypass, DebondingInterval: k.Debonding, VotingPeriod: k.VotingPeriod,
		MaxTxSize: 16384, Mutate: w.mutate,
	})
	if err != nil {
		return nil, fmt.Errorf("genesis: %w", err)
	}
	w.g = g
	for i, v := range g.Validators {
		if v.EntityAddress() != w.g0vals[i] {
			return nil, fmt.Errorf("validator address derivation mismatch")
		}
	}
	w.c = muxdrv.NewChain(g)
	w.initCmtVals()
	if d.Stream == "roothash" {
		w.rtInit()
	}
	nProps := 2
	if k.Twin || k.Validators == 1 {
		nProps = 1
	}
	for i := 0; i < nProps; i++ {
		// supplementarysanity (a debug app) runs on the proposers, except with mock epochs:
		// an epoch JUMP (only possible with DebugMockBackend) leaves proposals active past their
		// closing epoch, which that app reports as a fatal sanity failure.
		sanity := int64(1)
		if k.Mock {
			sanity = 0
		}
		if d.Script == "govdeposit" {
			sanity = 0 // the harness checks the deposits invariant itself and lets the history run on
		}
		if d.Stream == "roothash" && d.HSeed%2 == 1 {
			// half of the roothash histories run without the debug sanity app, so that a defect
			// shows as the production failure (panic of the real app) rather than as a sanity report
			sanity = 0
		}
		r, err := muxdrv.NewReplica(g, muxdrv.ReplicaConfig{Name: fmt.Sprintf("p%d", i), Identity: g.Validators[i].Identity, SanityInterval: sanity})
		if err != nil {
			w.closeAll()
			return nil, fmt.Errorf("replica: %w", err)
		}
		w.props = append(w.props, r)
	}
	if w.obs, err = muxdrv.NewReplica(g, muxdrv.ReplicaConfig{Name: "obs"}); err != nil {
		w.closeAll()
		return nil, fmt.Errorf("replica: %w", err)
	}
	if k.Twin {
		if w.twin, err = muxdrv.NewReplica(g, muxdrv.ReplicaConfig{Name: "twin", Identity: g.Validators[0].Identity}); err != nil {
			w.closeAll()
			return nil, fmt.Errorf("replica: %w", err)
		}
	}
	for _, a := range g.Accounts {
		w.keys = append(w.keys, a.Key)
	}
	for _, v := range g.Validators {
		w.keys = append(w.keys, v.Entity)
	}
	return w, nil
}

// initCmtVals builds the genesis validator set as CometBFT does.
func (w *world) initCmtVals() {
	var vs []*cmttypes.Validator
	for _, gv := range w.g.Cmt.Validators {
		vs = append(vs, cmttypes.NewValidator(gv.PubKey, gv.Power))
	}
	w.cmtVals = cmttypes.NewValidatorSet(vs)
}

// applyValidatorUpdates does what CometBFT's block executor does with ResponseEndBlock.ValidatorUpdates.
func (w *world) applyValidatorUpdates(res *muxdrv.BlockResult) (err error) {
	defer func() {
		if x := recover(); x != nil {
			err = fmt.Errorf("panic while applying validator updates: %v", x)
		}
	}()
	if len(res.ValidatorUpdates) == 0 {
		return nil
	}
	var changes []*cmttypes.Validator
	for _, u := range res.ValidatorUpdates {
		// validateValidatorUpdates: negative power, unsupported key type
		if u.Power < 0 {
			return fmt.Errorf("voting power can't be negative: %d for %x", u.Power, u.PubKey)
		}
		if len(u.PubKey) != cmted25519.PubKeySize {
			return fmt.Errorf("validator update with an unsupported public key (%d bytes)", len(u.PubKey))
		}
		changes = append(changes, cmttypes.NewValidator(cmted25519.PubKey(append([]byte{}, u.PubKey...)), u.Power))
		switch {
		case u.Power == 0:
			w.count("cmt-updates/removal")
		case u.Power == 1:
			w.count("cmt-updates/power 1 (stake below one power unit or bypass)")
		case u.Power > math.MaxInt64/16:
			w.count("cmt-updates/power above half the cap")
		default:
			w.count("cmt-updates/other power")
		}
	}
	nv := w.cmtVals.Copy()
	if err := nv.UpdateWithChangeSet(changes); err != nil {
		return fmt.Errorf("ValidatorSet.UpdateWithChangeSet: %w", err)
	}
	nv.IncrementProposerPriority(1)
	w.cmtVals = nv
	w.count("cmt-updates/blocks with updates accepted")
	return nil
}

// ---- state snapshots (typed queries on the primary replica) ----

type snap struct {
	height   int64
	epoch    uint64
	params   *staking.ConsensusParameters
	pool     *big.Int
	lastFees *big.Int
	accts    map[staking.Address]*staking.Account
	delegs   map[staking.Address]map[staking.Address]*staking.Delegation // escrow -> delegator
	resolves map[string]*signature.PublicKey                            // hex consensus address -> entity
	curVals  []signature.PublicKey                                       // entity ids of the scheduler's current validators
	props    []*governance.Proposal
	votes    map[uint64][]*governance.VoteEntry
	govThr   uint8
	signing  *stakingState.EpochSigning
	govDep   *big.Int // governance deposits pool
	govMin   *big.Int // governance MinProposalDeposit
	govVP    uint64   // governance VotingPeriod
	govUMin  uint64   // governance UpgradeMinEpochDiff
}

func (w *world) snapshot(r *muxdrv.Replica) (s *snap, err error) {
	defer func() {
		if x := recover(); x != nil {
			err = fmt.Errorf("snapshot panic: %v", x)
		}
	}()
	ctx := context.Background()
	ist, err := abciAPI.NewImmutableStateAt(ctx, r.Srv.State(), 0)
	if err != nil {
		return nil, err
	}
	defer ist.Close()
	ss := stakingState.NewImmutableState(ist)
	s = &snap{height: r.Height, accts: map[staking.Address]*staking.Account{}, resolves: map[string]*signature.PublicKey{}, votes: map[uint64][]*governance.VoteEntry{}}
	if s.params, err = ss.ConsensusParameters(ctx); err != nil {
		return nil, err
	}
	p, err := ss.CommonPool(ctx)
	if err != nil {
		return nil, err
	}
	s.pool = p.ToBigInt()
	lf, err := ss.LastBlockFees(ctx)
	if err != nil {
		return nil, err
	}
	s.lastFees = lf.ToBigInt()
	gd, err := ss.GovernanceDeposits(ctx)
	if err != nil {
		return nil, err
	}
	s.govDep = gd.ToBigInt()
	if s.signing, err = ss.EpochSigning(ctx); err != nil {
		return nil, err
	}
	addrs, err := ss.Addresses(ctx)
	if err != nil {
		return nil, err
	}
	for _, a := range addrs {
		acc, err := ss.Account(ctx, a)
		if err != nil {
			return nil, err
		}
		s.accts[a] = acc
	}
	if s.delegs, err = ss.Delegations(ctx); err != nil {
		return nil, err
	}
	rs := registryState.NewImmutableState(ist)
	var consAddrs [][]byte
	for _, v := range w.g.Validators {
		consAddrs = append(consAddrs, v.ConsAddr)
	}
	// validators elected later (e.g. the small-stake joiners) vote and propose as well
	// (the commit info of the next block lists the set of the block before: look back too)
	for _, hh := range []int64{w.c.Next - 2, w.c.Next - 1, w.c.Next, w.c.Next + 1} {
		for _, v := range w.c.ValidatorsAt(hh) {
			consAddrs = append(consAddrs, v.Address)
		}
	}
	for _, a := range consAddrs {
		n, err := rs.NodeByConsensusAddress(ctx, a)
		if err == nil {
			e := n.EntityID
			s.resolves[hex.EncodeToString(a)] = &e
		}
	}
	ep, _, err := r.Epoch(0)
	if err != nil {
		return nil, err
	}
	s.epoch = uint64(ep)
	cv, err := schedulerState.NewImmutableState(ist).CurrentValidators(ctx)
	if err != nil {
		return nil, err
	}
	seen := map[signature.PublicKey]bool{}
	for _, v := range cv {
		if !seen[v.EntityID] {
			seen[v.EntityID] = true
			s.curVals = append(s.curVals, v.EntityID)
		}
	}
	gs := governanceState.NewImmutableState(ist)
	if s.props, err = gs.Proposals(ctx); err != nil {
		return nil, err
	}
	for _, p := range s.props {
		vs, err := gs.Votes(ctx, p.ID)
		if err != nil {
			return nil, err
		}
		s.votes[p.ID] = vs
	}
	gp, err := gs.ConsensusParameters(ctx)
	if err != nil {
		return nil, err
	}
	s.govThr = gp.StakeThreshold
	s.govMin, s.govVP, s.govUMin = gp.MinProposalDeposit.ToBigInt(), uint64(gp.VotingPeriod), uint64(gp.UpgradeMinEpochDiff)
	return s, nil
}

// genesisSnap is the state after InitChain, taken from the genesis document (there is no
// committed version to query yet). InitChain folds LastBlockFees into the common pool.
func (w *world) genesisSnap() *snap {
	st := w.g.Doc.Staking
	s := &snap{height: 0, epoch: uint64(w.g.Doc.Beacon.Base), params: &st.Parameters, accts: map[staking.Address]*staking.Account{},
		resolves: map[string]*signature.PublicKey{}, votes: map[uint64][]*governance.VoteEntry{}, delegs: st.Delegations}
	s.pool = new(big.Int).Add(st.CommonPool.ToBigInt(), st.LastBlockFees.ToBigInt())
	s.lastFees = big.NewInt(0)
	for a, acc := range st.Ledger {
		s.accts[a] = acc
	}
	for _, v := range w.g.Validators {
		e := v.Entity.Public()
		s.resolves[hex.EncodeToString(v.ConsAddr)] = &e
		s.curVals = append(s.curVals, e)
	}
	s.govThr = w.g.Doc.Governance.Parameters.StakeThreshold
	s.signing = &stakingState.EpochSigning{ByEntity: map[signature.PublicKey]uint64{}}
	s.govDep = st.GovernanceDeposits.ToBigInt()
	gpar := w.g.Doc.Governance.Parameters
	s.govMin, s.govVP, s.govUMin = gpar.MinProposalDeposit.ToBigInt(), uint64(gpar.VotingPeriod), uint64(gpar.UpgradeMinEpochDiff)
	return s
}

func (s *snap) acct(a staking.Address) *staking.Account {
	if acc, ok := s.accts[a]; ok {
		return acc
	}
	return &staking.Account{}
}

// ---- one block ----

type blockPlan struct {
	proposer int
	votes    muxdrv.VotePattern
	votesTag string
	mis      []types.Misbehavior
	txs      []genTx

	inRounds  []inRound          // stream roothash
	inSubmits []common.Namespace // target runtime of every "rt:submit in-message" tx, in order
}

// inRound: a one-worker runtime's round whose scheduler commitment is in this block.
type inRound struct {
	id    common.Namespace
	round uint64
	plan  inPlan
	idx   int // index of the commitment transaction in the block
}

type genTx struct {
	raw     []byte
	garbage bool // stateless garbage: undecodable / wrong signature (no state effect expected)
	kind    string
}

var errElection = "couldn't elect validators"

// fail records a violation (or, in the precond stream, the documented failure).
func (w *world) fail(h int64, what string, err error) {
	detail := ""
	if err != nil {
		detail = err.Error()
		var pe *muxdrv.PanicError
		if errors.As(err, &pe) {
			detail = pe.Where + ": " + pe.Value
		}
	}
	if len(detail) > 600 {
		detail = detail[:600]
	}
	// the last fatal / proposal error lines of the node log
	for _, ln := range strings.Split(string(errLog.buf), "\n") {
		if strings.Contains(ln, "failed to prepare proposal") || strings.Contains(ln, "fatal error in application") || strings.Contains(ln, "failed to process proposal") {
			if i := strings.Index(ln, " stack="); i > 0 {
				ln = ln[:i]
			}
			if i := strings.Index(ln, "ts="); i >= 0 { // timestamps would make replays differ
				if j := strings.Index(ln[i:], " "); j > 0 {
					ln = ln[:i] + ln[i+j+1:]
				}
			}
			if len(ln) > 500 {
				ln = ln[:500]
			}
			if !strings.Contains(detail, ln) {
				detail += " | log: " + ln
			}
		}
	}
	if len(detail) > 2500 {
		detail = detail[:2500]
	}
	if strings.Contains(detail, "999_supplementarysanity") && strings.Contains(detail, "allowance is greater than total supply") {
		// The debug-only sanity app checks "allowance <= total supply" (SanityCheckAccount, the same
		// check a genesis document must pass); staking.Allow only rejects an allowance above the
		// supply of THAT moment (transactions.go:664-671) and a later Burn lowers the supply below
		// it. No production app fails during block execution: an observation, not a halt.
		w.res.outcome = "sanity app (debug): allowance above total supply after a burn"
		w.count("observation/supplementarysanity: allowance above total supply after a burn")
		return
	}
	if strings.Contains(detail, "999_supplementarysanity") && strings.Contains(detail, "expiration period greater than allowed") {
		// A passed registry parameter change lowered MaxNodeExpiration below the expiration of
		// already registered nodes: the state no longer passes the registry sanity check (debug
		// sanity app; also a genesis dump of it). No production app fails during block execution.
		w.res.outcome = "sanity app (debug): node expiration above a lowered MaxNodeExpiration"
		w.count("observation/supplementarysanity: registered node expiration above a lowered MaxNodeExpiration")
		return
	}
	if w.k.Bypass && strings.Contains(detail, "300_governance") && strings.Contains(detail, "total voting stake is zero") {
		// DebugBypassStake only: entities with zero escrow stay validators (no stake claims), so
		// after slashing / a reduced validator set ALL current validators can have zero active
		// escrow -- exactly the fatal condition of theorem tally_fatal_exactly_when_no_voting_stake.
		// Without the debug flag a slashed-to-zero entity is not electable.
		w.res.outcome = "debug (bypass stake): every current validator has zero escrow, closing a proposal is fatal"
		w.count("observation/bypass stake: total voting stake zero when a proposal closes")
		return
	}
	if w.d.Stream == "precond" && strings.Contains(detail, errElection) {
		w.res.outcome = "documented-election-failure"
		w.count("precond/documented election failure")
		return
	}
	w.res.outcome = "VIOLATION: " + what
	if w.pending != nil {
		what += " [after: " + w.pending.What + "]"
	}
	w.res.viol = &violation{What: what + ": " + detail, Case: w.d, Height: h, Detail: detail}
	if w.d.Script == "govweights" && strings.Contains(detail, "divide shareNextProposer") {
		w.res.finding = true
	}
	if strings.Contains(detail, "is too many base units to convert to power") && w.sqrtToLinearPassed() {
		// KNOWN FINDING (not repaired): the scheduler's change handler does not re-run the genesis
		// check of the total supply against the NEW voting-power distribution
		w.res.knownKey = findingSqrtLinear
	}
	if w.d.Stream == "roothash" && strings.Contains(detail, "failed transferring reward") && strings.Contains(detail, "failed to deposit to escrow") {
		w.res.findingKey = findingTFC
	}
}

// step executes one block on all replicas; false = history over.
func (w *world) step(bp *blockPlan) bool {
	g, c := w.g, w.c
	errLog.buf = errLog.buf[:0]
	prop := w.props[bp.proposer]
	in := c.NewBlock(g.Validators[bp.proposer].ConsAddr, bp.votes, bp.mis)
	h := in.Height
	var cand, clean [][]byte
	for _, t := range bp.txs {
		cand = append(cand, t.raw)
		if !t.garbage {
			clean = append(clean, t.raw)
		}
	}
	// mempool admission on a node that is not the proposer: mux.CheckTx has no recover, a panic
	// there crashes every node that receives the transaction
	if (w.d.Script != "" && w.d.HSeed%2 == 0) || (w.d.Script == "" && w.rng.Chance(30)) {
		for i, raw := range cand {
			if _, err := w.obs.CheckTx(raw, false); err != nil {
				var pe *muxdrv.PanicError
				if errors.As(err, &pe) {
					w.fail(h, fmt.Sprintf("panic in CheckTx of transaction %d (%s)", i, bp.txs[i].kind), err)
					return false
				}
			}
		}
		w.count("oracle/blocks whose transactions also went through CheckTx")
	}
	txs, err := prop.Propose(in, cand)
	if err != nil {
		w.fail(h, "panic in PrepareProposal", err)
		return false
	}
	if muxdrv.MetaBody(txs) == nil {
		// PrepareProposal recovered a panic and returned an empty proposal (mux.go:406-426):
		// the proposer cannot build a block. Find out why by replaying on the observer.
		_, rerr := w.obs.Replay(in, append(append([][]byte{}, cand...)))
		w.fail(h, "honest proposer cannot build a proposal (empty PrepareProposal)", rerr)
		return false
	}
	if len(txs) != len(cand)+1 {
		w.count("oracle/proposal dropped txs")
	}
	res, err := prop.Process(in, txs)
	if err != nil {
		w.fail(h, "proposer failed to process its own proposal", err)
		return false
	}
	if vflag {
		var ks []string
		for i, t := range bp.txs {
			code := uint32(999)
			if i < len(res.TxResults) {
				code = res.TxResults[i].Code
			}
			ks = append(ks, fmt.Sprintf("%s=%d", t.kind, code))
		}
		logf("  h=%d proposer=%d votes=%s mis=%d txs: %s", h, bp.proposer, bp.votesTag, len(bp.mis), strings.Join(ks, ", "))
	}
	for i, other := range w.props {
		if i == bp.proposer {
			continue
		}
		r2, err := other.Process(in, txs)
		if err != nil {
			w.fail(h, "validator REJECTED / panicked on an honestly built proposal", err)
			return false
		}
		if !bytes.Equal(r2.AppHash, res.AppHash) {
			w.count("oracle/apphash differs between validators (C01, not counted)")
		}
	}
	if r3, err := w.obs.Replay(in, txs); err != nil {
		w.fail(h, "panic while replaying an accepted block", err)
		return false
	} else if !bytes.Equal(r3.AppHash, res.AppHash) {
		w.count("oracle/apphash differs on replay (C01, not counted)")
	}
	w.count("oracle/blocks executed on all replicas")

	// twin chain: same block without the stateless garbage
	if w.twin != nil {
		ttxs, err := w.twin.Propose(in, clean)
		if err != nil || muxdrv.MetaBody(ttxs) == nil {
			w.fail(h, "twin chain (without malformed txs) cannot propose", err)
			return false
		}
		tres, err := w.twin.Process(in, ttxs)
		if err != nil {
			w.fail(h, "twin chain (without malformed txs) failed", err)
			return false
		}
		// results of the well-formed txs must be identical, in order
		j := 0
		for i, t := range bp.txs {
			if t.garbage {
				if i < len(res.TxResults) && res.TxResults[i].Code == 0 {
					w.fail(h, fmt.Sprintf("malformed tx %d (%s) was accepted: %s", i, t.kind, hex.EncodeToString(t.raw)), nil)
					return false
				}
				continue
			}
			if i < len(res.TxResults) && j < len(tres.TxResults) {
				a, b := res.TxResults[i], tres.TxResults[j]
				if a.Code != b.Code || a.Codespace != b.Codespace || !bytes.Equal(a.Data, b.Data) || a.GasUsed != b.GasUsed || fmt.Sprint(a.Events) != fmt.Sprint(b.Events) {
					w.fail(h, fmt.Sprintf("result of tx %d (%s) depends on malformed txs in the block: code %d vs %d", i, t.kind, a.Code, b.Code), nil)
					return false
				}
			}
			j++
		}
		if !bytes.Equal(tres.AppHash, res.AppHash) {
			w.fail(h, "state after the block depends on malformed txs (AppHash differs from the twin chain without them)", nil)
			return false
		}
		w.count("oracle/twin blocks compared")
	}

	for i, tr := range res.TxResults {
		if i >= len(bp.txs) {
			break
		}
		w.res.txs++
		if tr.Code != 0 {
			w.res.txFailed++
			w.count("txresult/" + bp.txs[i].kind + " failed")
		} else {
			w.count("txresult/" + bp.txs[i].kind + " ok")
		}
	}

	if w.d.Stream == "roothash" {
		cnt := func(where string, evs []muxdrv.Event) {
			for _, e := range evs {
				for _, a := range e.Attrs {
					switch {
					case e.Type == "oasis_event_999_roothash" && a[0] != "runtime-id":
						w.count("rt-events/" + where + " roothash " + a[0])
					case e.Type == stakingEventType && a[0] == "take_escrow":
						w.count("rt-events/" + where + " staking take_escrow (slash)")
						if where == "BeginBlock" && len(bp.mis) == 0 {
							w.count("rt-events/BeginBlock take_escrow without consensus evidence (runtime liveness slash)")
						}
					case e.Type == stakingEventType && where == "EndBlock" && (a[0] == "transfer" || a[0] == "add_escrow" || a[0] == "debonding_start"):
						// effects of runtime messages: staking operations by the runtime's own account
						var t staking.TransferEvent
						var ae staking.AddEscrowEvent
						ra := staking.NewRuntimeAddress(w.rt.id)
						if a[0] == "transfer" && events.DecodeValue(a[1], &t) == nil && t.From == ra {
							w.count("rt-events/EndBlock runtime message: transfer executed")
						}
						if a[0] == "add_escrow" && events.DecodeValue(a[1], &ae) == nil && ae.Owner == ra {
							w.count("rt-events/EndBlock runtime message: add_escrow executed")
						}
					}
				}
			}
		}
		cnt("BeginBlock", res.BeginEvents)
		cnt("EndBlock", res.EndEvents)
		for _, tr := range res.TxResults {
			cnt("tx", tr.Events)
		}
	}
	// play CometBFT's acceptance of the block RESPONSE (state/execution.go: validateValidatorUpdates
	// + NextValidators.UpdateWithChangeSet): an error there fails ApplyBlock on every node
	if err := w.applyValidatorUpdates(res); err != nil {
		w.fail(h, "CometBFT rejects the validator updates returned by EndBlock (ApplyBlock fails on every node)", err)
		return false
	}
	c.Applied(res)
	w.res.blocksRun++
	cur, err := w.snapshot(prop)
	if err != nil {
		w.fail(h, "state query failed after block", err)
		return false
	}
	// the invariant that makes closing proposals safe: the governance deposits pool holds
	// exactly the recorded deposits of the open proposals (theorem governance_deposits_total)
	open := new(big.Int)
	for _, p := range cur.props {
		if p.State == governance.StateActive {
			open.Add(open, p.Deposit.ToBigInt())
		}
	}
	if open.Cmp(cur.govDep) != 0 && w.pending == nil {
		// keep going: the broken invariant is reported at the end of the history unless it turns
		// into an actual halt before (then the halt is reported, with this as its cause)
		w.pending = &violation{What: fmt.Sprintf("governance deposits pool (%s) differs from the sum of the open proposals' recorded deposits (%s) after block %d", cur.govDep, open, h), Case: w.d, Height: h}
	}
	if w.prev != nil {
		if cur.epoch != w.prev.epoch {
			w.res.epochs++
			w.count("block/epoch transition")
		}
		w.observe(in, bp, res, w.prev, cur)
		if w.rt != nil {
			w.observeInMsgs(h, bp, res)
		}
	}
	w.prev = cur
	// nonces
	for a, acc := range cur.accts {
		w.nonce[a] = acc.General.Nonce
	}
	return true
}

func runHistory(d histDesc, run *runner, record bool) *histResult {
	if d.Stream == "schedvrf" {
		return runSchedVRF(d)
	}
	if !record {
		run = nil
	}
	w, err := newWorld(d, run)
	if err != nil {
		// a genesis the node refuses is not a violation (sanity checks are the preconditions)
		return &histResult{outcome: "genesis rejected: " + err.Error(), hist: map[string]int{"genesis/rejected": 1}}
	}
	defer w.closeAll()
	w.count("genesis/accepted")
	w.describeKnobs()
	s0 := w.genesisSnap()
	w.prev = s0
	for a, acc := range s0.accts {
		w.nonce[a] = acc.General.Nonce
	}
	sc := scriptByName(d.Script)
	for b := 0; b < d.Blocks; b++ {
		var bp *blockPlan
		if d.Stream == "roothash" {
			bp = w.roothashBlock(b)
		} else if sc != nil {
			bp = sc.block(w, b)
		} else {
			bp = w.randomBlock(b)
		}
		if !w.step(bp) {
			break
		}
	}
	if w.res.viol == nil && w.pending != nil && !strings.HasPrefix(w.res.outcome, "sanity app") && w.res.outcome != "documented-election-failure" {
		w.res.outcome = "VIOLATION: " + w.pending.What
		w.res.viol = w.pending
	}
	if w.res.outcome == "" {
		w.res.outcome = "completed"
		if d.Stream == "precond" {
			w.count("precond/precondition not violated in this history")
		}
	}
	logf("history %+v: %s blocks=%d epochs=%d txs=%d failed=%d", d, w.res.outcome, w.res.blocksRun, w.res.epochs, w.res.txs, w.res.txFailed)
	return w.res
}

func (w *world) describeKnobs() {
	k := w.k
	w.count(fmt.Sprintf("knob-validators/%d", k.Validators))
	w.count(fmt.Sprintf("knob-mode/bypass=%v mock=%v twin=%v huge=%v", k.Bypass, k.Mock, k.Twin, k.Huge))
	w.count("knob-pool/" + sizeClass(k.Pool))
	w.count("knob-slash/" + sizeClass(k.SlashAmt) + fmt.Sprintf(" freeze=%d", k.Freeze))
	w.count(fmt.Sprintf("knob-weights/%s:%s:%s", sizeClass(k.Weights[0]), sizeClass(k.Weights[1]), sizeClass(k.Weights[2])))
	w.count(fmt.Sprintf("knob-threshold/%d over %d", k.ThrNum, k.ThrDen))
	w.count(fmt.Sprintf("knob-gas/min price %d, per byte %d", k.MinGasPrice, k.ByteGas))
	w.count(fmt.Sprintf("knob-stake/tiny=%v nearcap=%v", k.Tiny, k.NearCap))
	w.count(fmt.Sprintf("knob-periods/debond=%d voting=%d interval=%d", k.Debonding, k.VotingPeriod, k.EpochInterval))
}

func sizeClass(b *big.Int) string {
	switch {
	case b.Sign() == 0:
		return "0"
	case b.Cmp(big.NewInt(1)) == 0:
		return "1"
	case b.BitLen() <= 32:
		return "<2^32"
	case b.BitLen() <= 64:
		return "<2^64"
	case b.BitLen() <= 128:
		return "<=2^128"
	default:
		return ">2^128"
	}
}

const findingSqrtLinear = "C10:sqrt-to-linear-switch-with-stake-above-2^67"

// sqrtToLinearPassed: the genesis distribution is sqrt, the history contains a PASSED scheduler
// change to the linear distribution, and some active escrow is at least 2^67 base units.
func (w *world) sqrtToLinearPassed() bool {
	if w.g.Doc.Scheduler.Parameters.VotingPowerDistribution != schedulerAPI.VotingPowerDistributionSqrt || w.prev == nil {
		return false
	}
	passed := false
	for _, p := range w.prev.props {
		cp := p.Content.ChangeParameters
		if cp == nil || p.State != governance.StatePassed || cp.Module != schedulerAPI.ModuleName {
			continue
		}
		var ch schedulerAPI.ConsensusParameterChanges
		if cbor.Unmarshal(cp.Changes, &ch) == nil && ch.VotingPowerDistribution != nil && *ch.VotingPowerDistribution == schedulerAPI.VotingPowerDistributionLinear {
			passed = true
		}
	}
	big67 := bigPow2(67)
	huge := false
	for _, a := range w.prev.accts {
		if a.Escrow.Active.Balance.ToBigInt().Cmp(big67) >= 0 {
			huge = true
		}
	}
	return passed && huge
}
