package main

// Stream "roothash": a non-TEE compute runtime with an elected executor committee is driven
// through rounds on the REAL multiplexer with properly signed ExecutorCommit transactions:
// rounds that finalize, rounds left to time out, discrepancies (conflicting commitments,
// backup-worker resolution), failure-indicating commitments, equivocation evidence, stale /
// foreign commitments, and SUSPENSION of the runtime (its compute nodes' registrations expire,
// so no committee is elected at the next epoch) while a round timeout is armed, followed by
// re-registration (resumption).  Oracle S as in the main stream: any panic / empty proposal /
// REJECT of an honest proposal is a violation.

import (
	"context"
	"fmt"
	"math/big"
	"time"

	"github.com/oasisprotocol/oasis-core/go/common"
	"github.com/oasisprotocol/oasis-core/go/common/cbor"
	"github.com/oasisprotocol/oasis-core/go/common/crypto/hash"
	"github.com/oasisprotocol/oasis-core/go/common/crypto/signature"
	"github.com/oasisprotocol/oasis-core/go/common/node"
	"github.com/oasisprotocol/oasis-core/go/consensus/api/transaction"
	abciAPI "github.com/oasisprotocol/oasis-core/go/consensus/cometbft/api"
	roothashState "github.com/oasisprotocol/oasis-core/go/consensus/cometbft/apps/roothash/state"
	genesis "github.com/oasisprotocol/oasis-core/go/genesis/api"
	registry "github.com/oasisprotocol/oasis-core/go/registry/api"
	roothash "github.com/oasisprotocol/oasis-core/go/roothash/api"
	"github.com/oasisprotocol/oasis-core/go/roothash/api/block"
	"github.com/oasisprotocol/oasis-core/go/roothash/api/commitment"
	"github.com/oasisprotocol/oasis-core/go/roothash/api/message"
	scheduler "github.com/oasisprotocol/oasis-core/go/scheduler/api"
	staking "github.com/oasisprotocol/oasis-core/go/staking/api"

	governance "github.com/oasisprotocol/oasis-core/go/governance/api"
	"github.com/oasisprotocol/oasis-core/go/common/quantity"

	"verifharness/internal/muxdrv"
	"verifharness/internal/prng"
)

// rtScen is the per-history runtime scenario.
type rtScen struct {
	id        common.Namespace
	group     uint16
	backup    uint16
	timeout   int64
	nodes     []*muxdrv.Validator // compute nodes, all owned by validator 0's entity
	expire    uint64              // epoch through which the first registration is valid
	slashAmt  *big.Int
	prevArmed bool // a round timeout was armed after the previous block
	prevSusp  bool

	own        []bool   // nodes[i] belongs to its OWN entity (else to validator 0's entity)
	ownEscrow  []uint64 // self-escrow of the own entity (just above / well above the thresholds)
	stragglers uint16
	liveEval   uint64 // MinLiveRoundsForEvaluation (0 = liveness evaluation off)
	livePct    uint8
	maxFails   uint8
	liveSlash  *big.Int
	msgs       bool // rounds carry runtime messages
	rtModel    registry.RuntimeGovernanceModel
	updates    int // runtime descriptor updates submitted so far
	wantRtGov  bool
	missPct    uint8 // MaxMissedProposalsPercent

	pctEq, pctBad uint8 // reward percentages of the runtime descriptor (valid: <= 100)
	cur      common.Namespace   // the runtime the commitment builders work on
	extra    []common.Namespace // further runtimes (one worker each) registered at once, in-messages enabled
	maxIn    map[common.Namespace]uint32
	inMsgs   bool // committed in-message counts / hashes vary
	inCache  map[string]inPlan
	extraRnd map[common.Namespace]uint64 // last round of an extra runtime a commitment was sent for
}

// inPlan is what a round's commitments claim about the incoming messages.
type inPlan struct {
	count    uint32
	h        hash.Hash
	own      uint64 // own queue size when the plan was made
	accessor bool   // the hash is the hash of what the queue accessor returned for that count
	tag      string
}

func rtKnobs(k *knobs) {
	baseKnobs(k)
}

// scriptRtSlashReward: a discrepancy resolved by the backup worker, the misbehaving entity is
// slashed to zero and the SAME entity (100 % commission) is rewarded as the resolver.
const scriptRtSlashReward = "rt-slash-reward"

// scriptRtSuspendTimeout: the primary scheduler commits alone in the last block of the epoch
// after which the compute nodes' registrations expire: the runtime is suspended while the
// round timeout of the unfinished round is armed, and the chain runs past that height.
const scriptRtSuspendTimeout = "rt-suspend-timeout"

// scriptRtSlashPercent: a runtime descriptor with a reward percentage above 100 must be refused;
// with it accepted, a resolved discrepancy makes distributeSlashedFunds fail in EndBlock.
const scriptRtSlashPercent = "rt-slash-percent"

const findingTFC = "C10:transfer-from-common-escrow-zero-balance-pool-full-commission"

func (w *world) rtInit() {
	r := w.rng
	s := &rtScen{}
	s.id = common.NewTestNamespaceFromSeed([]byte(fmt.Sprintf("verif/c10/%d/rt", w.d.HSeed)), common.NamespaceTest)
	s.group = []uint16{1, 2, 2, 2, 3}[r.Intn(5)]
	s.backup = uint16(r.Intn(2))
	s.timeout = int64(2 + r.Intn(6))
	s.expire = uint64(2 + r.Intn(3))
	if r.Chance(40) {
		s.expire = 1000
	}
	s.slashAmt = pickBig(r, big.NewInt(0), big.NewInt(100), big.NewInt(5000), bigPow2(61))
	n := int(s.group+s.backup) + r.Intn(2)
	multi := r.Chance(60) // several entities own the compute nodes
	for i := 0; i < n; i++ {
		cn := *muxdrv.NewValidator(w.g.Seed, 10+i)
		own := multi && (i > 0 || r.Chance(50))
		if !own {
			cn.Entity = w.g.Validators[0].Entity
		}
		s.nodes = append(s.nodes, &cn)
		s.own = append(s.own, own)
		// thresholds: entity 100 + compute node 300
		s.ownEscrow = append(s.ownEscrow, []uint64{400, 450, 1000, 20000}[r.Intn(4)])
	}
	s.stragglers = uint16(r.Intn(2))
	if r.Chance(60) {
		s.liveEval, s.livePct, s.maxFails = uint64(r.Intn(3)), []uint8{60, 100, 100}[r.Intn(3)], []uint8{1, 1, 2}[r.Intn(3)]
		s.missPct = []uint8{0, 50, 1}[r.Intn(3)]
	}
	s.liveSlash = pickBig(r, big.NewInt(0), big.NewInt(100), big.NewInt(5000), bigPow2(61))
	s.msgs = r.Chance(60)
	// a runtime is always registered under entity governance; some are handed over to
	// runtime governance later (then only the runtime itself -- a message -- can update it)
	s.rtModel = registry.GovernanceEntity
	s.wantRtGov = r.Chance(35)
	pcts := []uint8{0, 1, 50, 99, 100, 101, 200, 255}
	s.pctEq, s.pctBad = pcts[r.Intn(len(pcts))], pcts[r.Intn(len(pcts))]
	s.cur = s.id
	s.maxIn = map[common.Namespace]uint32{s.id: uint32(2 + r.Intn(3))}
	s.inCache, s.extraRnd = map[string]inPlan{}, map[common.Namespace]uint64{}
	if w.d.Script == "" || w.d.Script == scriptRtInMsgs {
		s.inMsgs = true
		for i := 0; i < 1+r.Intn(2); i++ {
			id := common.NewTestNamespaceFromSeed([]byte(fmt.Sprintf("verif/c10/%d/rt-extra-%d", w.d.HSeed, i)), common.NamespaceTest)
			s.extra = append(s.extra, id)
			s.maxIn[id] = uint32(2 + r.Intn(3))
		}
	}
	if w.d.Script == scriptRtSlashReward {
		// deterministic: 2 workers + 1 backup, all nodes of ONE entity whose commission is 100 %,
		// incorrect-results penalty larger than the entity's escrow
		s.group, s.backup, s.timeout, s.expire, s.slashAmt = 2, 1, 5, 1000, bigPow2(61)
		s.nodes = nil
		s.own, s.ownEscrow = nil, nil
		for i := 0; i < 3; i++ {
			cn := *muxdrv.NewValidator(w.g.Seed, 10+i)
			cn.Entity = w.g.Validators[0].Entity
			s.nodes = append(s.nodes, &cn)
			s.own = append(s.own, false)
			s.ownEscrow = append(s.ownEscrow, 0)
		}
		s.stragglers, s.liveEval, s.msgs, s.rtModel = 0, 0, false, registry.GovernanceEntity
	}
	if w.d.Script == scriptRtSlashReward || w.d.Script == scriptRtSuspendTimeout {
		s.pctEq, s.pctBad = 30, 40
	}
	if w.d.Script == scriptRtSlashPercent {
		// as rt-slash-reward, but an ordinary commission and a bad-results reward percentage of 200
		// (refused at registration; the history then registers the runtime with 40)
		s.group, s.backup, s.timeout, s.expire, s.slashAmt = 2, 1, 5, 1000, big.NewInt(5000)
		s.nodes, s.own, s.ownEscrow = nil, nil, nil
		for i := 0; i < 3; i++ {
			cn := *muxdrv.NewValidator(w.g.Seed, 10+i)
			cn.Entity = w.g.Validators[0].Entity
			s.nodes = append(s.nodes, &cn)
			s.own = append(s.own, false)
			s.ownEscrow = append(s.ownEscrow, 0)
		}
		s.stragglers, s.liveEval, s.msgs, s.rtModel, s.wantRtGov = 0, 0, false, registry.GovernanceEntity, false
		s.pctEq, s.pctBad = 30, 200
	}
	if w.d.Script == scriptRtSuspendTimeout {
		s.group, s.backup, s.timeout, s.expire, s.slashAmt = 2, 0, 6, 2, big.NewInt(0)
		s.nodes, s.own, s.ownEscrow = nil, nil, nil
		for i := 0; i < 2; i++ {
			cn := *muxdrv.NewValidator(w.g.Seed, 10+i)
			cn.Entity = w.g.Validators[0].Entity
			s.nodes = append(s.nodes, &cn)
			s.own = append(s.own, false)
			s.ownEscrow = append(s.ownEscrow, 0)
		}
		s.stragglers, s.liveEval, s.msgs, s.rtModel, s.wantRtGov = 0, 0, false, registry.GovernanceEntity, false
	}
	multiN := 0
	for _, o := range s.own {
		if o {
			multiN++
		}
	}
	w.count(fmt.Sprintf("rt-owners/%d own-entity nodes of %d", multiN, len(s.nodes)))
	w.count(fmt.Sprintf("rt-liveness/eval=%d stragglers=%d msgs=%v", s.liveEval, s.stragglers, s.msgs))
	w.rt = s
	w.count(fmt.Sprintf("rt-shape/group=%d backup=%d", s.group, s.backup))
	w.count(fmt.Sprintf("rt-timeout/%d", s.timeout))
}

func rtMutate(doc *genesis.Document) {
	doc.RootHash.Parameters.DebugDoNotSuspendRuntimes = false
	doc.RootHash.Parameters.MaxEvidenceAge = 20
	doc.RootHash.Parameters.GasCosts = transaction.Costs{roothash.GasOpSubmitMsg: 1500, roothash.GasOpComputeCommit: 1800, roothash.GasOpEvidence: 1900}
}

// rtExtraDescriptor: a second/third compute runtime with ONE executor worker (a scheduler
// commitment finalizes the round in the same block) and incoming messages enabled.
func (w *world) rtExtraDescriptor(id common.Namespace) *registry.Runtime {
	d := w.rtDescriptor()
	d.ID = id
	d.GovernanceModel = registry.GovernanceEntity
	d.Executor = registry.ExecutorParameters{GroupSize: 1, GroupBackupSize: 0, RoundTimeout: 5, MaxMessages: 32}
	d.TxnScheduler.MaxInMessages = w.rt.maxIn[id]
	d.Constraints = map[scheduler.CommitteeKind]map[scheduler.Role]registry.SchedulingConstraints{
		scheduler.KindComputeExecutor: {
			scheduler.RoleWorker:       {MinPoolSize: &registry.MinPoolSizeConstraint{Limit: 1}},
			scheduler.RoleBackupWorker: {MinPoolSize: &registry.MinPoolSizeConstraint{Limit: 0}},
		},
	}
	d.Staking.Slashing = nil
	d.Staking.RewardSlashEquvocationRuntimePercent, d.Staking.RewardSlashBadResultsRuntimePercent = 30, 40
	return d
}

func (w *world) rtDescriptor() *registry.Runtime {
	s := w.rt
	rt := &registry.Runtime{
		Versioned: cbor.NewVersioned(registry.LatestRuntimeDescriptorVersion),
		ID:        s.id,
		EntityID:  w.g.Validators[0].Entity.Public(),
		Kind:      registry.KindCompute,
		Executor: registry.ExecutorParameters{GroupSize: s.group, GroupBackupSize: s.backup, RoundTimeout: s.timeout + int64(s.updates%3), MaxMessages: 32,
			AllowedStragglers: s.stragglers, MinLiveRoundsForEvaluation: s.liveEval, MinLiveRoundsPercent: s.livePct, MaxLivenessFailures: s.maxFails, MaxMissedProposalsPercent: s.missPct},
		TxnScheduler: registry.TxnSchedulerParameters{
			BatchFlushTimeout: time.Second, MaxBatchSize: 1, MaxBatchSizeBytes: 1024, ProposerTimeout: 2 * time.Second,
			MaxInMessages: s.maxIn[s.id],
		},
		AdmissionPolicy: registry.RuntimeAdmissionPolicy{AnyNode: &registry.AnyNodeRuntimeAdmissionPolicy{}},
		Constraints: map[scheduler.CommitteeKind]map[scheduler.Role]registry.SchedulingConstraints{
			scheduler.KindComputeExecutor: {
				scheduler.RoleWorker:       {MinPoolSize: &registry.MinPoolSizeConstraint{Limit: s.group}},
				scheduler.RoleBackupWorker: {MinPoolSize: &registry.MinPoolSizeConstraint{Limit: s.backup}},
			},
		},
		GovernanceModel: s.rtModel,
		Staking: registry.RuntimeStakingParameters{
			MinInMessageFee: qU(100),
			Slashing: map[staking.SlashReason]staking.Slash{
				staking.SlashRuntimeIncorrectResults: {Amount: qBig(s.slashAmt)},
				staking.SlashRuntimeEquivocation:     {Amount: qBig(s.slashAmt)},
				staking.SlashRuntimeLiveness:         {Amount: qBig(s.liveSlash), FreezeInterval: 1},
			},
			RewardSlashEquvocationRuntimePercent: s.pctEq,
			RewardSlashBadResultsRuntimePercent:  s.pctBad,
		},
		Deployments: []*registry.VersionInfo{{}},
	}
	rt.Genesis.StateRoot.Empty()
	return rt
}

// rtState reads the state of the primary runtime.
func (w *world) rtState() *roothash.RuntimeState { return w.rtStateOf(w.rt.id) }

// rtQueue returns (queue size, first [limit] messages through the node's queue accessor).
func (w *world) rtQueue(id common.Namespace, limit uint32) (size uint64, msgs []*message.IncomingMessage) {
	defer func() { _ = recover() }()
	ctx := context.Background()
	ist, err := abciAPI.NewImmutableStateAt(ctx, w.props[0].Srv.State(), 0)
	if err != nil {
		return 0, nil
	}
	defer ist.Close()
	rs := roothashState.NewImmutableState(ist)
	if meta, err := rs.IncomingMessageQueueMeta(ctx, id); err == nil && meta != nil {
		size = uint64(meta.Size)
	}
	if limit > 0 {
		msgs, _ = rs.IncomingMessageQueue(ctx, id, 0, limit)
	}
	return size, msgs
}

// rtInPlan decides (once per runtime and round, so that all commitments of a round agree) the
// in-message count and hash the committee commits to: 0, the own queue size, one more, own +
// the other runtimes' queues, or a huge count -- with the hash of what the queue ACCESSOR
// returns for that count (what honest nodes do), or a hash that cannot match.
func (w *world) rtInPlan(id common.Namespace, round uint64) inPlan {
	s := w.rt
	key := fmt.Sprintf("%x/%d", id[:], round)
	if p, ok := s.inCache[key]; ok {
		return p
	}
	var p inPlan
	p.h.Empty()
	if s.inMsgs {
		r := prng.New(w.d.HSeed*131 + round*7907 + uint64(id[31]))
		own, _ := w.rtQueue(id, 0)
		other := uint64(0)
		for _, o := range append([]common.Namespace{s.id}, s.extra...) {
			if o != id {
				sz, _ := w.rtQueue(o, 0)
				other += sz
			}
		}
		p.own = own
		switch r.Intn(6) {
		case 0:
			p.count, p.tag = 0, "0"
		case 1, 2:
			p.count, p.tag = uint32(own), "own queue size"
		case 3:
			p.count, p.tag = uint32(own+1), "own+1"
		case 4:
			p.count, p.tag = uint32(own+other), "own+other runtimes' queues"
		default:
			p.count, p.tag = 1_000_000, "huge"
		}
		_, msgs := w.rtQueue(id, p.count)
		p.h = message.InMessagesHash(msgs)
		p.accessor = true
		if r.Chance(15) {
			p.h = hash.NewFromBytes([]byte("not the hash of any queue prefix"))
			p.accessor = false
			p.tag += ", wrong hash"
		}
	}
	s.inCache[key] = p
	return p
}

// rtStateOf reads a runtime's state on the primary replica (nil before registration).
func (w *world) rtStateOf(id common.Namespace) *roothash.RuntimeState {
	defer func() { _ = recover() }()
	ctx := context.Background()
	ist, err := abciAPI.NewImmutableStateAt(ctx, w.props[0].Srv.State(), 0)
	if err != nil {
		return nil
	}
	defer ist.Close()
	st, err := roothashState.NewImmutableState(ist).RuntimeState(ctx, id)
	if err != nil {
		return nil
	}
	return st
}

func (w *world) rtNode(id signature.PublicKey) *muxdrv.Validator {
	for _, n := range w.rt.nodes {
		if n.Node.Public().Equal(id) {
			return n
		}
	}
	return nil
}

// rtCommit builds a signed commitment of node n for the next round on top of blk.
// variant selects the (arbitrary, non-TEE) result roots: equal variants are equal votes.
func (w *world) rtCommit(blk *block.Block, sched signature.PublicKey, n *muxdrv.Validator, variant int, failure commitment.ExecutorCommitmentFailure, roundDelta int64, badPrev bool) (*commitment.ExecutorCommitment, error) {
	nb := block.NewEmptyBlock(blk, 1, block.Normal)
	var rmsgs []message.Message
	var empty hash.Hash
	empty.Empty()
	inCount := uint32(0)
	if variant == 0 || variant == 1 || variant == 2 {
		if w.rt.cur == w.rt.id {
			rmsgs = w.rtMsgs(nb.Header.Round) // every vote on the scheduler's batch carries its messages hash
		}
		if roundDelta == 0 && !badPrev {
			pl := w.rtInPlan(w.rt.cur, nb.Header.Round)
			empty, inCount = pl.h, pl.count
		}
	}
	msgs := message.MessagesHash(rmsgs)
	io := hash.NewFromBytes([]byte(fmt.Sprintf("io/%d/%d", nb.Header.Round, variant)))
	sr := hash.NewFromBytes([]byte(fmt.Sprintf("state/%d/%d", nb.Header.Round, variant)))
	ec := commitment.ExecutorCommitment{
		NodeID: n.Node.Public(),
		Header: commitment.ExecutorCommitmentHeader{
			SchedulerID: sched,
			Header: commitment.ComputeResultsHeader{
				Round:        uint64(int64(nb.Header.Round) + roundDelta),
				PreviousHash: nb.Header.PreviousHash,
			},
		},
	}
	if badPrev {
		ec.Header.Header.PreviousHash = hash.NewFromBytes([]byte("not the previous block"))
	}
	if failure == commitment.FailureNone {
		ec.Header.Header.IORoot = &io
		ec.Header.Header.StateRoot = &sr
		ec.Header.Header.MessagesHash = &msgs
		ec.Header.Header.InMessagesHash = &empty
		ec.Header.Header.InMessagesCount = inCount
	} else {
		ec.Header.Failure = failure
	}
	if failure == commitment.FailureNone && n.Node.Public().Equal(sched) {
		ec.Messages = rmsgs // only the scheduler includes the messages themselves
		w.count(fmt.Sprintf("rt-msgs/scheduler commit with %d runtime messages", len(rmsgs)))
	}
	if err := ec.Sign(n.Node.Signer, w.rt.cur); err != nil {
		return nil, err
	}
	return &ec, nil
}

// rtMsgs is the (deterministic) list of runtime messages of a round: staking transfers /
// withdrawals / escrow operations from the runtime's account incl. failing ones, a runtime
// update, governance votes.
func (w *world) rtMsgs(round uint64) []message.Message {
	s := w.rt
	if !s.msgs {
		return nil
	}
	r := prng.New(w.d.HSeed*31 + round*7919 + 5)
	if r.Chance(45) {
		return nil
	}
	g := w.g
	amt := func() quantity.Quantity {
		if r.Chance(60) {
			return qU(uint64(10 + r.Intn(300)))
		}
		return []quantity.Quantity{qU(0), qU(1), qU(1_000_000), qBig(bigPow2(128))}[r.Intn(4)]
	}
	var out []message.Message
	for i := 0; i < 1+r.Intn(3); i++ {
		switch r.Intn(16) {
		case 0, 1, 8, 9, 10:
			out = append(out, message.Message{Staking: &message.StakingMessage{Transfer: &staking.Transfer{To: g.Accounts[5].Address, Amount: amt()}}})
		case 2, 11:
			out = append(out, message.Message{Staking: &message.StakingMessage{Withdraw: &staking.Withdraw{From: g.Accounts[6].Address, Amount: amt()}}})
		case 3, 12, 13:
			out = append(out, message.Message{Staking: &message.StakingMessage{AddEscrow: &staking.Escrow{Account: g.Validators[r.Intn(len(g.Validators))].EntityAddress(), Amount: amt()}}})
		case 4:
			out = append(out, message.Message{Staking: &message.StakingMessage{ReclaimEscrow: &staking.ReclaimEscrow{Account: g.Validators[r.Intn(len(g.Validators))].EntityAddress(), Shares: amt()}}})
		case 5:
			d := w.rtDescriptor()
			d.Executor.RoundTimeout = int64(2 + r.Intn(6))
			out = append(out, message.Message{Registry: &message.RegistryMessage{UpdateRuntime: d}})
		case 6, 14:
			out = append(out, message.Message{Governance: &message.GovernanceMessage{CastVote: &governance.ProposalVote{ID: uint64(1 + r.Intn(3)), Vote: governance.Vote(1 + r.Intn(3))}}})
		default:
			out = append(out, message.Message{Staking: &message.StakingMessage{}}) // no field set: invalid
		}
	}
	return out
}

func (w *world) rtCommitTx(local map[staking.Address]uint64, signer *muxdrv.Validator, kind string, ecs ...*commitment.ExecutorCommitment) genTx {
	var cs []commitment.ExecutorCommitment
	for _, e := range ecs {
		if e != nil {
			cs = append(cs, *e)
		}
	}
	tx := roothash.NewExecutorCommitTx(w.nextNonce(signer.Node, local), muxdrv.Fee(0, 4*muxdrv.DefaultGas), w.rt.cur, cs)
	return genTx{raw: muxdrv.Sign(signer.Node, tx), kind: kind}
}

func (w *world) rtRegisterNodes(local map[staking.Address]uint64, expiration uint64) []genTx {
	var out []genTx
	for _, cn := range w.rt.nodes {
		nd := muxdrv.NodeDescriptor(cn, expiration, node.RoleComputeWorker)
		nd.Runtimes = []*node.Runtime{{ID: w.rt.id}}
		for _, id := range w.rt.extra {
			nd.Runtimes = append(nd.Runtimes, &node.Runtime{ID: id})
		}
		tx := muxdrv.TxRegisterNode(w.nextNonce(cn.Node, local), muxdrv.Fee(0, 4*muxdrv.DefaultGas), cn, nd)
		out = append(out, genTx{raw: muxdrv.Sign(cn.Node, tx), kind: "rt:register compute node"})
	}
	return out
}

// roothashBlock plans block b of a roothash history: the primary runtime's traffic, then the
// in-message traffic to every runtime and the extra runtimes' rounds.
func (w *world) roothashBlock(b int) *blockPlan {
	w.rt.cur = w.rt.id
	bp, local := w.roothashPrimary(b)
	if b > 2 && len(w.rt.extra) > 0 {
		w.rtExtras(bp, local)
	}
	w.rt.cur = w.rt.id
	return bp
}

const scriptRtInMsgs = "rt-inmsgs"

// rtExtras: SubmitMsg traffic to all runtimes (valid, below the minimum fee, to a full queue) and
// rounds of the one-worker runtimes, each finalized while the other runtimes still hold messages.
func (w *world) rtExtras(bp *blockPlan, local map[staking.Address]uint64) {
	r, g, s := w.rng, w.g, w.rt
	all := append([]common.Namespace{s.id}, s.extra...)
	scripted := w.d.Script == scriptRtInMsgs
	// rounds of the extra runtimes first (their commitments see the queues of the previous block)
	for _, id := range s.extra {
		st := w.rtStateOf(id)
		if st == nil || st.Suspended || st.Committee == nil || st.CommitmentPool == nil {
			continue
		}
		if !scripted && !r.Chance(55) {
			continue
		}
		round := st.LastBlock.Header.Round + 1
		schedM, ok := st.Committee.Scheduler(round, 0)
		if !ok {
			continue
		}
		sched := w.rtNode(schedM.PublicKey)
		if sched == nil {
			continue
		}
		s.cur = id
		if ec, err := w.rtCommit(st.LastBlock, sched.Node.Public(), sched, 0, commitment.FailureNone, 0, false); err == nil {
			pl := w.rtInPlan(id, round)
			bp.txs = append(bp.txs, w.rtCommitTx(local, sched, "rt:extra runtime commit (in-msgs "+pl.tag+")", ec))
			w.count("rt-inmsgs/commit claims " + pl.tag)
			bp.inRounds = append(bp.inRounds, inRound{id: id, round: round, plan: pl, idx: len(bp.txs) - 1})
		}
		s.cur = s.id
	}
	// incoming messages
	n := r.Intn(4)
	if scripted {
		n = 3
	}
	for i := 0; i < n; i++ {
		id := all[r.Intn(len(all))]
		a := g.Accounts[1+r.Intn(3)]
		fee := []uint64{100, 100, 150, 99}[r.Intn(4)]
		if scripted {
			id, fee = all[i%len(all)], 100
		}
		tx := roothash.NewSubmitMsgTx(w.nextNonce(a.Key, local), muxdrv.Fee(uint64(r.Intn(60)), 4*muxdrv.DefaultGas),
			&roothash.SubmitMsg{ID: id, Tag: uint64(r.Intn(9)), Fee: qU(fee), Tokens: qU(uint64(r.Intn(3000))), Data: r.Bytes(r.Intn(40))})
		bp.txs = append(bp.txs, genTx{raw: muxdrv.Sign(a.Key, tx), kind: "rt:submit in-message"})
		bp.inSubmits = append(bp.inSubmits, id)
	}
}

// roothashPrimary plans the primary runtime's part of block b.
func (w *world) roothashPrimary(b int) (*blockPlan, map[staking.Address]uint64) {
	r, g, s := w.rng, w.g, w.rt
	scripted := w.d.Script == scriptRtSlashReward || w.d.Script == scriptRtSuspendTimeout || w.d.Script == scriptRtSlashPercent
	bp := &blockPlan{proposer: r.Intn(len(w.props))}
	bp.votes, bp.votesTag = w.votePattern()
	var etag string
	bp.mis, etag = w.evidence()
	if scripted {
		bp.votes, bp.votesTag, bp.mis, etag = muxdrv.VotesAll, "all", nil, "none"
	}
	w.count("block/votes " + bp.votesTag)
	w.count("block/evidence " + etag)
	local := map[staking.Address]uint64{}
	v0 := g.Validators[0]
	big4 := muxdrv.Fee(uint64(r.Intn(60)), 4*muxdrv.DefaultGas)

	switch b {
	case 0:
		bp.txs = append(bp.txs, genTx{raw: muxdrv.Sign(v0.Entity, registry.NewRegisterRuntimeTx(w.nextNonce(v0.Entity, local), big4, w.rtDescriptor())), kind: "rt:register runtime"})
		for _, id := range s.extra {
			bp.txs = append(bp.txs, genTx{raw: muxdrv.Sign(v0.Entity, registry.NewRegisterRuntimeTx(w.nextNonce(v0.Entity, local), big4, w.rtExtraDescriptor(id))), kind: "rt:register extra runtime"})
		}
		ids := []signature.PublicKey{v0.Node.Public()}
		for i, cn := range s.nodes {
			if !s.own[i] {
				ids = append(ids, cn.Node.Public())
			}
		}
		bp.txs = append(bp.txs, genTx{raw: muxdrv.Sign(v0.Entity, muxdrv.TxRegisterEntity(w.nextNonce(v0.Entity, local), big4, v0.Entity, ids)), kind: "rt:register entity nodes"})
		// fund the other node owners and the runtime's own account
		rich := g.Accounts[4]
		for i, cn := range s.nodes {
			if s.own[i] {
				bp.txs = append(bp.txs, genTx{raw: muxdrv.Sign(rich.Key, muxdrv.TxTransfer(w.nextNonce(rich.Key, local), muxdrv.Fee(5, muxdrv.DefaultGas), cn.Entity.Address(), 60_000)), kind: "rt:fund node owner"})
			}
		}
		tx := staking.NewTransferTx(w.nextNonce(rich.Key, local), muxdrv.Fee(5, muxdrv.DefaultGas), &staking.Transfer{To: staking.NewRuntimeAddress(s.id), Amount: qU(uint64(2000 + r.Intn(40_000)))})
		bp.txs = append(bp.txs, genTx{raw: muxdrv.Sign(rich.Key, tx), kind: "rt:fund runtime account"})
		return bp, local
	case 1:
		if w.rtState() == nil && (s.pctEq > 100 || s.pctBad > 100) {
			// the descriptor with a reward percentage above 100 was refused: register a valid one
			w.count("rt-percent/descriptor with a percentage above 100 refused, valid one registered")
			if s.pctEq > 100 {
				s.pctEq = 30
			}
			if s.pctBad > 100 {
				s.pctBad = 40
			}
			bp.txs = append(bp.txs, genTx{raw: muxdrv.Sign(v0.Entity, registry.NewRegisterRuntimeTx(w.nextNonce(v0.Entity, local), big4, w.rtDescriptor())), kind: "rt:register runtime"})
		} else if s.pctEq > 100 || s.pctBad > 100 {
			w.count("rt-percent/descriptor with a percentage above 100 ACCEPTED")
		}
		for i, cn := range s.nodes {
			if s.own[i] {
				bp.txs = append(bp.txs, genTx{raw: muxdrv.Sign(cn.Entity, muxdrv.TxAddEscrow(w.nextNonce(cn.Entity, local), muxdrv.Fee(1, muxdrv.DefaultGas), cn.Entity.Address(), s.ownEscrow[i])), kind: "rt:node owner self-escrow"})
				bp.txs = append(bp.txs, genTx{raw: muxdrv.Sign(cn.Entity, muxdrv.TxRegisterEntity(w.nextNonce(cn.Entity, local), big4, cn.Entity, []signature.PublicKey{cn.Node.Public()})), kind: "rt:register node owner entity"})
			}
		}
		return bp, local
	case 2:
		bp.txs = append(bp.txs, w.rtRegisterNodes(local, s.expire)...)
		return bp, local
	}

	st := w.rtState()
	// bookkeeping of the scenario the seeded change needs
	switch {
	case st == nil:
		w.count("rt-status/not registered")
	case st.Suspended:
		w.count("rt-status/suspended")
		if !s.prevSusp && s.prevArmed {
			w.count("rt-scenario/SUSPENDED WHILE A ROUND TIMEOUT WAS ARMED")
		}
	case st.Committee == nil:
		w.count("rt-status/no committee yet")
	case st.NextTimeout != roothash.TimeoutNever:
		w.count("rt-status/active, round timeout armed")
	default:
		w.count("rt-status/active, idle")
	}
	if st != nil {
		s.prevArmed = !st.Suspended && st.NextTimeout != roothash.TimeoutNever
		s.prevSusp = st.Suspended
		w.count(fmt.Sprintf("rt-round/%s", bucket(int(st.LastBlock.Header.Round))))
		w.count("rt-lastblock/" + fmt.Sprint(st.LastBlock.Header.HeaderType))
	}

	if w.d.Script == scriptRtSuspendTimeout {
		// epoch interval 3: committee from height 6, nodes valid through epoch 2 (heights 6..8)
		if st != nil && !st.Suspended && st.Committee != nil && st.CommitmentPool != nil && w.c.Next == 8 {
			round := st.LastBlock.Header.Round + 1
			if schedM, ok := st.Committee.Scheduler(round, 0); ok {
				if sched := w.rtNode(schedM.PublicKey); sched != nil {
					if ec, err := w.rtCommit(st.LastBlock, sched.Node.Public(), sched, 0, commitment.FailureNone, 0, false); err == nil {
						bp.txs = append(bp.txs, w.rtCommitTx(local, sched, "rt:scheduler commit", ec))
					}
				}
			}
		}
		return bp, local
	}
	if scripted {
		if st == nil || st.Suspended || st.Committee == nil || st.CommitmentPool == nil {
			return bp, local
		}
		round := st.LastBlock.Header.Round + 1
		schedM, ok := st.Committee.Scheduler(round, 0)
		if !ok {
			return bp, local
		}
		sched := w.rtNode(schedM.PublicKey)
		for _, m := range st.Committee.Members {
			n := w.rtNode(m.PublicKey)
			if n == nil || sched == nil {
				continue
			}
			variant := -1
			switch {
			case st.CommitmentPool.Discrepancy && m.Role == scheduler.RoleBackupWorker:
				variant = 0 // the backup worker confirms the scheduler's result
			case !st.CommitmentPool.Discrepancy && st.CommitmentPool.HighestRank != 0 && n == sched:
				variant = 0
			case !st.CommitmentPool.Discrepancy && st.CommitmentPool.HighestRank != 0 && m.Role == scheduler.RoleWorker:
				variant = 1 // the other worker disagrees
			}
			if variant >= 0 {
				if ec, err := w.rtCommit(st.LastBlock, sched.Node.Public(), n, variant, commitment.FailureNone, 0, false); err == nil {
					bp.txs = append(bp.txs, w.rtCommitTx(local, n, fmt.Sprintf("rt:scripted commit variant %d", variant), ec))
				}
			}
		}
		// the scheduler's commitment has to come first
		for i, t := range bp.txs {
			if sched != nil && i > 0 && t.kind == "rt:scripted commit variant 0" && !st.CommitmentPool.Discrepancy {
				bp.txs[0], bp.txs[i] = bp.txs[i], bp.txs[0]
			}
		}
		return bp, local
	}

	// background load: a fee-paying transfer now and then, staking messages to the runtime
	if r.Chance(40) {
		a := g.Accounts[1]
		bp.txs = append(bp.txs, genTx{raw: muxdrv.Sign(a.Key, muxdrv.TxTransfer(w.nextNonce(a.Key, local), muxdrv.Fee(uint64(r.Intn(300)), muxdrv.DefaultGas), g.Accounts[2].Address, uint64(10+r.Intn(1000)))), kind: "transfer"})
	}
	if r.Chance(10) {
		a := g.Accounts[2]
		tx := roothash.NewSubmitMsgTx(w.nextNonce(a.Key, local), muxdrv.Fee(uint64(r.Intn(60)), 4*muxdrv.DefaultGas), &roothash.SubmitMsg{ID: s.id, Fee: qU(100), Tokens: qU(uint64(r.Intn(3000))), Data: []byte("in")})
		bp.txs = append(bp.txs, genTx{raw: muxdrv.Sign(a.Key, tx), kind: "rt:submit in-message"})
		bp.inSubmits = append(bp.inSubmits, s.id)
	}
	if st != nil && st.Runtime != nil {
		s.rtModel = st.Runtime.GovernanceModel
	}
	// hand-over to runtime governance: stake for the runtime's own account, then the update
	if s.wantRtGov && s.rtModel == registry.GovernanceEntity && st != nil && r.Chance(15) {
		rich := g.Accounts[4]
		bp.txs = append(bp.txs, genTx{raw: muxdrv.Sign(rich.Key, muxdrv.TxAddEscrow(w.nextNonce(rich.Key, local), muxdrv.Fee(1, muxdrv.DefaultGas), staking.NewRuntimeAddress(s.id), uint64(500+r.Intn(3000)))), kind: "rt:escrow for the runtime account"})
		d := w.rtDescriptor()
		d.GovernanceModel = registry.GovernanceRuntime
		bp.txs = append(bp.txs, genTx{raw: muxdrv.Sign(v0.Entity, registry.NewRegisterRuntimeTx(w.nextNonce(v0.Entity, local), big4, d)), kind: "rt:hand over to runtime governance"})
	}
	// runtime governance: the owner updates the descriptor (round timeout changes)
	if r.Chance(6) && s.rtModel == registry.GovernanceEntity {
		s.updates++
		d := w.rtDescriptor()
		if r.Chance(40) { // an update with reward percentages drawn anew (above 100: refused)
			pcts := []uint8{0, 1, 50, 99, 100, 101, 200, 255}
			d.Staking.RewardSlashEquvocationRuntimePercent, d.Staking.RewardSlashBadResultsRuntimePercent = pcts[r.Intn(len(pcts))], pcts[r.Intn(len(pcts))]
			bp.txs = append(bp.txs, genTx{raw: muxdrv.Sign(v0.Entity, registry.NewRegisterRuntimeTx(w.nextNonce(v0.Entity, local), big4, d)), kind: "rt:update runtime descriptor (percentages)"})
		}
		bp.txs = append(bp.txs, genTx{raw: muxdrv.Sign(v0.Entity, registry.NewRegisterRuntimeTx(w.nextNonce(v0.Entity, local), big4, w.rtDescriptor())), kind: "rt:update runtime descriptor"})
	}
	// a node owner pulls its stake: below the thresholds its node is not eligible next epoch
	if r.Chance(5) {
		for i, cn := range s.nodes {
			if s.own[i] && r.Chance(50) {
				bp.txs = append(bp.txs, genTx{raw: muxdrv.Sign(cn.Entity, muxdrv.TxReclaimEscrow(w.nextNonce(cn.Entity, local), muxdrv.Fee(1, muxdrv.DefaultGas), cn.Entity.Address(), s.ownEscrow[i]/2)), kind: "rt:node owner reclaims escrow"})
				break
			}
		}
	}
	// resumption: re-register the compute nodes
	ep := w.prev.epoch
	if (st == nil || st.Suspended || r.Chance(4)) && r.Chance(25) {
		bp.txs = append(bp.txs, w.rtRegisterNodes(local, ep+uint64(r.Intn(4)))...) // +0: already expired (fails)
	}
	if st == nil || st.Suspended || st.Committee == nil || st.CommitmentPool == nil {
		// commitments against a runtime that cannot take them (must fail for themselves only)
		if st != nil && r.Chance(30) {
			n := s.nodes[r.Intn(len(s.nodes))]
			if ec, err := w.rtCommit(st.LastBlock, n.Node.Public(), n, 0, commitment.FailureNone, 0, false); err == nil {
				bp.txs = append(bp.txs, w.rtCommitTx(local, n, "rt:commit to suspended/idle runtime", ec))
			}
		}
		return bp, local
	}

	com := st.Committee
	round := st.LastBlock.Header.Round + 1
	var workers, backups []*muxdrv.Validator
	for _, m := range com.Members {
		n := w.rtNode(m.PublicKey)
		if n == nil {
			continue
		}
		if m.Role == scheduler.RoleWorker {
			workers = append(workers, n)
		} else {
			backups = append(backups, n)
		}
	}
	schedM, ok := com.Scheduler(round, 0)
	if !ok || len(workers) == 0 {
		return bp, local
	}
	sched := w.rtNode(schedM.PublicKey)
	if sched == nil {
		return bp, local
	}
	schedID := sched.Node.Public()
	var others []*muxdrv.Validator
	for _, n := range workers {
		if n != sched {
			others = append(others, n)
		}
	}
	haveSched := st.CommitmentPool.HighestRank == 0
	mk := func(n *muxdrv.Validator, variant int, f commitment.ExecutorCommitmentFailure) *commitment.ExecutorCommitment {
		ec, err := w.rtCommit(st.LastBlock, schedID, n, variant, f, 0, false)
		if err != nil {
			return nil
		}
		return ec
	}

	// discrepancy pending: backup workers resolve (or not)
	if st.CommitmentPool.Discrepancy {
		w.count("rt-status/discrepancy pending")
		if len(backups) > 0 && r.Chance(65) {
			for _, n := range backups {
				bp.txs = append(bp.txs, w.rtCommitTx(local, n, "rt:backup worker commit", mk(n, r.Intn(2), commitment.FailureNone)))
			}
		}
		return bp, local
	}

	switch x := r.Intn(100); {
	case x < 12:
		// nothing: an armed timeout keeps running / an idle runtime stays idle
	case x < 50 && !haveSched:
		// the primary scheduler alone: with more than one worker the round stays open and the
		// round timeout is armed for this height + RoundTimeout
		bp.txs = append(bp.txs, w.rtCommitTx(local, sched, "rt:scheduler commit", mk(sched, 0, commitment.FailureNone)))
	case x < 50:
		// the remaining workers agree (with allowed stragglers the last one often stays silent:
		// it misses the round, which the liveness evaluation at the epoch end counts)
		for i, n := range others {
			if s.stragglers > 0 && i == len(others)-1 && r.Chance(60) {
				w.count("rt-msgs/a worker deliberately misses the round")
				continue
			}
			bp.txs = append(bp.txs, w.rtCommitTx(local, n, "rt:worker commit (agrees)", mk(n, 0, commitment.FailureNone)))
		}
	case x < 62:
		// everybody in one block
		if !haveSched {
			bp.txs = append(bp.txs, w.rtCommitTx(local, sched, "rt:scheduler commit", mk(sched, 0, commitment.FailureNone)))
		}
		for i, n := range others {
			if s.stragglers > 0 && i == len(others)-1 && r.Chance(60) {
				w.count("rt-msgs/a worker deliberately misses the round")
				continue
			}
			bp.txs = append(bp.txs, w.rtCommitTx(local, n, "rt:worker commit (agrees)", mk(n, 0, commitment.FailureNone)))
		}
	case x < 76:
		// discrepancy: a worker votes for other roots
		if !haveSched {
			bp.txs = append(bp.txs, w.rtCommitTx(local, sched, "rt:scheduler commit", mk(sched, 0, commitment.FailureNone)))
		}
		for i, n := range others {
			bp.txs = append(bp.txs, w.rtCommitTx(local, n, "rt:worker commit (conflicts)", mk(n, 1+i%2, commitment.FailureNone)))
		}
	case x < 82:
		// failure-indicating commitments (a scheduler may not send one for its own proposal)
		n := workers[r.Intn(len(workers))]
		f := []commitment.ExecutorCommitmentFailure{commitment.FailureUnknown, commitment.FailureStateUnavailable}[r.Intn(2)]
		bp.txs = append(bp.txs, w.rtCommitTx(local, n, "rt:failure-indicating commit", mk(n, 0, f)))
	case x < 88:
		// equivocation evidence against a worker (two different signed commitments, same round)
		n := workers[r.Intn(len(workers))]
		a, c := mk(n, 3, commitment.FailureNone), mk(n, 4, commitment.FailureNone)
		if a != nil && c != nil {
			ev := &roothash.Evidence{ID: s.id, EquivocationExecutor: &roothash.EquivocationExecutorEvidence{CommitA: *a, CommitB: *c}}
			k := g.Accounts[3].Key
			if r.Chance(50) {
				k = workers[r.Intn(len(workers))].Node // a node submits: the reward goes to its entity
			}
			bp.txs = append(bp.txs, genTx{raw: muxdrv.Sign(k, roothash.NewEvidenceTx(w.nextNonce(k, local), muxdrv.Fee(0, 4*muxdrv.DefaultGas), ev)), kind: "rt:equivocation evidence"})
		}
	case x < 94:
		// stale / foreign / malformed commitments: must fail for themselves only
		n := s.nodes[r.Intn(len(s.nodes))]
		switch r.Intn(4) {
		case 0:
			ec, _ := w.rtCommit(st.LastBlock, schedID, n, 0, commitment.FailureNone, int64(1+r.Intn(3)), false)
			bp.txs = append(bp.txs, w.rtCommitTx(local, n, "rt:commit for a wrong round", ec))
		case 1:
			ec, _ := w.rtCommit(st.LastBlock, schedID, n, 0, commitment.FailureNone, 0, true)
			bp.txs = append(bp.txs, w.rtCommitTx(local, n, "rt:commit on a wrong parent", ec))
		case 2:
			out := muxdrv.NewValidator(g.Seed, 40)
			ec, _ := w.rtCommit(st.LastBlock, schedID, out, 0, commitment.FailureNone, 0, false)
			bp.txs = append(bp.txs, w.rtCommitTx(local, out, "rt:commit by a non-member", ec))
		default:
			// a lower-priority scheduler proposes its own batch
			if len(others) > 0 {
				o := others[r.Intn(len(others))]
				ec, _ := w.rtCommit(st.LastBlock, o.Node.Public(), o, 5, commitment.FailureNone, 0, false)
				bp.txs = append(bp.txs, w.rtCommitTx(local, o, "rt:backup scheduler commit", ec))
			}
		}
	default:
		// a worker votes before the scheduler committed
		if len(others) > 0 {
			n := others[r.Intn(len(others))]
			bp.txs = append(bp.txs, w.rtCommitTx(local, n, "rt:worker commit (agrees)", mk(n, 0, commitment.FailureNone)))
		}
	}
	return bp, local
}

// observeInMsgs records, for every one-worker runtime round committed in this block, the queue
// handling of its finalization: queue size at EndBlock, committed count, whether the committed
// hash can match -> new queue size or a failed round.
func (w *world) observeInMsgs(h int64, bp *blockPlan, res *muxdrv.BlockResult) {
	succ := map[common.Namespace]uint64{}
	k := 0
	for i, t := range bp.txs {
		if t.kind != "rt:submit in-message" {
			continue
		}
		if k < len(bp.inSubmits) && i < len(res.TxResults) && res.TxResults[i].Code == 0 {
			succ[bp.inSubmits[k]]++
		}
		k++
	}
	for _, ir := range bp.inRounds {
		if ir.idx >= len(res.TxResults) || res.TxResults[ir.idx].Code != 0 {
			w.count("kskip/in-msgs: the commitment transaction failed")
			continue
		}
		st := w.rtStateOf(ir.id)
		if st == nil || st.LastBlock.Header.Round != ir.round {
			w.count("kskip/in-msgs: round not finalized in this block")
			continue
		}
		size := ir.plan.own + succ[ir.id]
		hashOK := ir.plan.accessor && (uint64(ir.plan.count) <= ir.plan.own || succ[ir.id] == 0)
		newSize, _ := w.rtQueue(ir.id, 0)
		out := fmt.Sprintf("OOne %d", newSize)
		switch st.LastBlock.Header.HeaderType {
		case block.Normal:
			w.count("rt-inmsgs/round finalized")
		case block.RoundFailed:
			out = "ONone"
			w.count("rt-inmsgs/round failed")
		default:
			continue
		}
		w.emit(h, "in_msgs", fmt.Sprintf("CInMsg %d %d %s", size, ir.plan.count, cbool(hashOK)), out, size == 0 && ir.plan.count == 0)
	}
}
