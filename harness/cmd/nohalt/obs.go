package main

import (
	"encoding/hex"
	"fmt"
	"math/big"
	"sort"
	"strings"

	beacon "github.com/oasisprotocol/oasis-core/go/beacon/api"
	"github.com/oasisprotocol/oasis-core/go/common/cbor"
	"github.com/oasisprotocol/oasis-core/go/consensus/api/events"
	governance "github.com/oasisprotocol/oasis-core/go/governance/api"
	staking "github.com/oasisprotocol/oasis-core/go/staking/api"

	"verifharness/internal/muxdrv"
)

const stakingEventType = "oasis_event_100_staking"

type xfer struct {
	from, to staking.Address
	amt      *big.Int
}

func transfers(evs []muxdrv.Event) (out []xfer) {
	for _, e := range evs {
		if e.Type != stakingEventType {
			continue
		}
		for _, a := range e.Attrs {
			if a[0] == "transfer" {
				var t staking.TransferEvent
				if events.DecodeValue(a[1], &t) == nil {
					out = append(out, xfer{t.From, t.To, t.Amount.ToBigInt()})
				}
			}
		}
	}
	return
}

func addEscrows(evs []muxdrv.Event) (out []staking.AddEscrowEvent) {
	for _, e := range evs {
		if e.Type != stakingEventType {
			continue
		}
		for _, a := range e.Attrs {
			if a[0] == "add_escrow" {
				var t staking.AddEscrowEvent
				if events.DecodeValue(a[1], &t) == nil {
					out = append(out, t)
				}
			}
		}
	}
	return
}

func takeEscrows(evs []muxdrv.Event) (out []staking.TakeEscrowEvent) {
	for _, e := range evs {
		if e.Type != stakingEventType {
			continue
		}
		for _, a := range e.Attrs {
			if a[0] == "take_escrow" {
				var t staking.TakeEscrowEvent
				if events.DecodeValue(a[1], &t) == nil {
					out = append(out, t)
				}
			}
		}
	}
	return
}

func reclaims(evs []muxdrv.Event) (out []staking.ReclaimEscrowEvent) {
	for _, e := range evs {
		if e.Type != stakingEventType {
			continue
		}
		for _, a := range e.Attrs {
			if a[0] == "reclaim_escrow" {
				var t staking.ReclaimEscrowEvent
				if events.DecodeValue(a[1], &t) == nil {
					out = append(out, t)
				}
			}
		}
	}
	return
}

func hasKind(evs []muxdrv.Event, kind string) bool {
	for _, e := range evs {
		for _, a := range e.Attrs {
			if a[0] == kind {
				return true
			}
		}
	}
	return false
}

func n(b *big.Int) string { return b.String() }

func cbool(b bool) string {
	if b {
		return "true"
	}
	return "false"
}

// emit records one K case.
func (w *world) emit(h int64, kind, call, out string, trivial bool) {
	if w.run == nil {
		return
	}
	w.run.w.Add("("+call+", "+out+")", caseDesc{Hist: w.d, Height: h, What: kind})
	w.count("kcase/" + kind)
	if strings.HasPrefix(out, "OFatal") {
		w.count("kcase/" + kind + " FATAL observed")
	}
	if !trivial {
		w.run.seen[kind+"|"+call] = true
	}
}

// observe derives the inputs/outputs of the modelled arithmetic of block in.Height
// from the state before (prev) and after (cur) and from the events.
func (w *world) observe(in *muxdrv.BlockInput, bp *blockPlan, res *muxdrv.BlockResult, prev, cur *snap) {
	h := in.Height
	p := prev.params
	wP, wV, wQ := p.FeeSplitWeightPropose.ToBigInt(), p.FeeSplitWeightVote.ToBigInt(), p.FeeSplitWeightNextPropose.ToBigInt()
	propEnt := prev.resolves[hex.EncodeToString(in.Proposer)]
	known := propEnt != nil
	var propAddr staking.Address
	if known {
		propAddr = staking.NewAddress(*propEnt)
	}

	// ---- disburseFeesVQ (BeginBlock) ----
	nEV := int64(len(in.LastCommit.Votes))
	var voters []staking.Address
	for _, v := range in.LastCommit.Votes {
		if !v.SignedLastBlock {
			continue
		}
		if e := prev.resolves[hex.EncodeToString(v.Validator.Address)]; e != nil {
			voters = append(voters, staking.NewAddress(*e))
		}
	}
	nVE := int64(len(voters))
	remaining := big.NewInt(0)
	{
		var pays []xfer
		for _, t := range transfers(res.BeginEvents) {
			if t.from == staking.FeeAccumulatorAddress {
				pays = append(pays, t)
			}
		}
		if k := len(pays); k > 0 && pays[k-1].to == staking.CommonPoolAddress {
			remaining = pays[k-1].amt
			pays = pays[:k-1]
		}
		np, sv := big.NewInt(0), big.NewInt(0)
		ok := true
		switch {
		case len(pays) == 0:
		case int64(len(pays)) == nVE+1 && nVE >= 1:
			np, sv = pays[0].amt, pays[1].amt
		case int64(len(pays)) == nVE && nVE >= 2:
			sv = pays[0].amt
		case len(pays) == 1 && nVE == 1:
			// next-proposer payment or the single voter's share?
			if known && pays[0].to == propAddr && voters[0] == propAddr {
				ok = false // indistinguishable from the events alone
			} else if known && pays[0].to == propAddr {
				np = pays[0].amt
			} else {
				sv = pays[0].amt
			}
		case len(pays) == 1:
			np = pays[0].amt
		default:
			ok = false
		}
		if ok {
			call := fmt.Sprintf("CFeeVQ %s %d %d %s %s %s", n(prev.lastFees), nEV, nVE, n(wV), n(wQ), cbool(known))
			w.emit(h, "fee_vq", call, fmt.Sprintf("OTriple %s %s %s", n(np), n(sv), n(remaining)), prev.lastFees.Sign() == 0)
			w.count(fmt.Sprintf("feevq-voters/%d of %d", nVE, nEV))
		} else {
			w.count("kskip/fee_vq ambiguous events")
		}
	}

	// ---- proposer reward (BeginBlock) ----
	rewardRem, rewardCom := big.NewInt(0), big.NewInt(0)
	if prev.height > 0 && cur.epoch != prev.epoch {
		// the scheduler's election rewards (AddRewards in its BeginBlock) emit the same kind of
		// events for the same entities: the proposer's reward cannot be told apart
		w.observeEpochBlock(in, res, prev, cur, known, propAddr, nVE, nEV)
	} else if known && prev.height > 0 {
		ep := beacon.EpochTime(cur.epoch)
		var scale *big.Int
		for _, st := range p.RewardSchedule {
			if ep < st.Until {
				scale = st.Scale.ToBigInt()
				break
			}
		}
		if scale != nil {
			acc := prev.acct(propAddr)
			rate := acc.Escrow.CommissionSchedule.CurrentRate(ep)
			if rate == nil {
				rate = &p.CommissionScheduleRules.MinCommissionRate
			}
			pool := new(big.Int).Add(prev.pool, remaining)
			sh := big.NewInt(0)
			for _, e := range addEscrows(res.BeginEvents) {
				if e.Escrow != propAddr {
					continue
				}
				if e.Owner == staking.CommonPoolAddress {
					rewardRem = e.Amount.ToBigInt()
				} else if e.Owner == propAddr {
					rewardCom, sh = e.Amount.ToBigInt(), e.NewShares.ToBigInt()
				}
			}
			out := "ONone"
			if rewardRem.Sign() != 0 || rewardCom.Sign() != 0 {
				p2 := new(big.Int).Sub(pool, rewardRem)
				p2.Sub(p2, rewardCom)
				out = fmt.Sprintf("OQuad %s %s %s %s", n(rewardRem), n(rewardCom), n(sh), n(p2))
			}
			call := fmt.Sprintf("CReward %s %s %s %s %s %s %d %d %s %s", staking.RewardAmountDenominator.String(), staking.CommissionRateDenominator.String(),
				n(acc.Escrow.Active.Balance.ToBigInt()), n(acc.Escrow.Active.TotalShares.ToBigInt()), n(p.RewardFactorBlockProposed.ToBigInt()), n(scale), nVE, nEV, n(pool), n(rate.ToBigInt()))
			w.emit(h, "reward", call, out, out == "ONone" && acc.Escrow.Active.Balance.IsZero())
			if out == "ONone" {
				w.count("reward-outcome/nothing paid")
			} else {
				w.count("reward-outcome/paid")
			}
		}
	}

	// ---- slashing (BeginBlock) ----
	{
		adj := map[staking.Address][2]*big.Int{}
		get := func(a staking.Address) [2]*big.Int {
			if v, ok := adj[a]; ok {
				return v
			}
			acc := prev.acct(a)
			act := acc.Escrow.Active.Balance.ToBigInt()
			v := [2]*big.Int{act, acc.Escrow.Debonding.Balance.ToBigInt()}
			adj[a] = v
			return v
		}
		amt := big.NewInt(0)
		if s, ok := p.Slashing[staking.SlashConsensusEquivocation]; ok {
			amt = s.Amount.ToBigInt()
		}
		// owners slashed for consensus misbehaviour: the entities named by the block's evidence;
		// any other BeginBlock slash is the runtime liveness penalty (roothash stream)
		evOwner := map[staking.Address]bool{}
		for _, m := range bp.mis {
			if e := prev.resolves[hex.EncodeToString(m.Validator.Address)]; e != nil {
				evOwner[staking.NewAddress(*e)] = true
			}
		}
		consAmt := amt
		// replay the BeginBlock events in order: rewards paid before a slash raise the balance it sees
		for _, ev := range stakingSevs(res.BeginEvents) {
			if ev.add != nil {
				v := get(ev.add.Escrow)
				v[0].Add(v[0], ev.add.Amount.ToBigInt())
				continue
			}
			if ev.take == nil {
				continue
			}
			t := *ev.take
			amt = consAmt
			kind := "slash"
			if !evOwner[t.Owner] {
				if w.rt == nil {
					w.count("kskip/slash of an entity not named by the evidence")
					continue
				}
				amt, kind = w.rt.liveSlash, "slash (runtime liveness)"
			}
			v := get(t.Owner)
			sd := t.DebondingAmount.ToBigInt()
			sa := new(big.Int).Sub(t.Amount.ToBigInt(), sd)
			call := fmt.Sprintf("CSlash %s %s %s", n(v[0]), n(v[1]), n(amt))
			w.emit(h, kind, call, fmt.Sprintf("OPair %s %s", n(sa), n(sd)), false)
			if sa.Cmp(v[0]) == 0 && sd.Cmp(v[1]) == 0 {
				w.count("slash-outcome/slashed to zero")
			} else {
				w.count("slash-outcome/partial")
			}
			v[0].Sub(v[0], sa)
			v[1].Sub(v[1], sd)
		}
	}

	// ---- disburseFeesP (EndBlock) ----
	{
		propAmt, commonAmt := big.NewInt(0), big.NewInt(0)
		for _, t := range transfers(res.EndEvents) {
			if t.from != staking.FeeAccumulatorAddress {
				continue
			}
			if t.to == staking.CommonPoolAddress {
				commonAmt = t.amt
			} else {
				propAmt = t.amt
			}
		}
		total := new(big.Int).Add(cur.lastFees, propAmt)
		total.Add(total, commonAmt)
		call := fmt.Sprintf("CFeeP %s %s %s %s %s", n(total), n(wP), n(wV), n(wQ), cbool(known))
		w.emit(h, "fee_p", call, fmt.Sprintf("OTriple %s %s %s", n(cur.lastFees), n(propAmt), n(commonAmt)), total.Sign() == 0)
		w.count("feep-total/" + sizeClass(total))
	}

	// ---- debonding completion (EndBlock of an epoch-transition block) ----
	if cur.epoch != prev.epoch {
		touched := map[staking.Address]bool{}
		for _, t := range takeEscrows(res.BeginEvents) {
			touched[t.Owner] = true
		}
		for _, tr := range res.TxResults {
			for _, t := range takeEscrows(tr.Events) { // slashing by an evidence transaction
				touched[t.Owner] = true
			}
			for _, e := range tr.Events {
				for _, a := range e.Attrs {
					if a[0] == "debonding_start" {
						var d staking.DebondingStartEscrowEvent
						if events.DecodeValue(a[1], &d) == nil {
							touched[d.Escrow] = true
						}
					}
				}
			}
		}
		pools := map[staking.Address][2]*big.Int{}
		for _, rc := range reclaims(res.EndEvents) {
			if touched[rc.Escrow] {
				w.count("kskip/debond pool changed earlier in the block")
				continue
			}
			pl, ok := pools[rc.Escrow]
			if !ok {
				acc := prev.acct(rc.Escrow)
				pl = [2]*big.Int{acc.Escrow.Debonding.Balance.ToBigInt(), acc.Escrow.Debonding.TotalShares.ToBigInt()}
				pools[rc.Escrow] = pl
			}
			call := fmt.Sprintf("CDebond %s %s %s", n(pl[0]), n(pl[1]), n(rc.Shares.ToBigInt()))
			w.emit(h, "debond", call, fmt.Sprintf("OOne %s", n(rc.Amount.ToBigInt())), false)
			pl[0].Sub(pl[0], rc.Amount.ToBigInt())
			pl[1].Sub(pl[1], rc.Shares.ToBigInt())
		}
	}

	// ---- governance deposits (EndBlock): refunds / discards of the proposals closed now ----
	{
		wasActive := map[uint64]*governance.Proposal{}
		for _, pr := range prev.props {
			if pr.State == governance.StateActive {
				wasActive[pr.ID] = pr
			}
		}
		pool := new(big.Int).Set(prev.govDep)
		var closed []*governance.Proposal
		for _, pr := range cur.props { // sorted by id, the order in which EndBlock closes them
			if old, ok := wasActive[pr.ID]; ok && pr.State != governance.StateActive {
				closed = append(closed, old)
			}
			if _, ok := wasActive[pr.ID]; !ok && pr.State == governance.StateActive {
				known := false
				for _, q := range prev.props {
					if q.ID == pr.ID {
						known = true
					}
				}
				if !known {
					pool.Add(pool, pr.Deposit.ToBigInt()) // submitted in this block
				}
			}
		}
		if len(closed) > 0 {
			sort.Slice(closed, func(a, b int) bool { return closed[a].ID < closed[b].ID })
			var deps, outs []string
			for _, pr := range closed {
				deps = append(deps, n(pr.Deposit.ToBigInt()))
			}
			for _, t := range transfers(res.EndEvents) {
				if t.from == staking.GovernanceDepositsAddress {
					outs = append(outs, fmt.Sprintf("(%s, 0, 0)", n(t.amt)))
				}
			}
			call := fmt.Sprintf("CGovClose %s [%s]", n(pool), strings.Join(deps, "; "))
			w.emit(h, "gov_close", call, fmt.Sprintf("OSeq [%s] %s", strings.Join(outs, "; "), n(cur.govDep)), false)
			if cur.params != nil && prev.govMin != nil && cur.govMin != nil && len(closed) > 0 {
				src := "random: "
				if w.d.Script != "" {
					src = "script: "
				}
				for _, pr := range closed {
					switch pr.Deposit.ToBigInt().Cmp(prev.govMin) {
					case -1:
						w.count("gov-close/" + src + "deposit below the current minimum (raised meanwhile)")
					case 1:
						w.count("gov-close/" + src + "deposit above the current minimum (lowered meanwhile)")
					default:
						w.count("gov-close/" + src + "deposit equals the current minimum")
					}
				}
			}
		}
	}

	// ---- governance tally (EndBlock) ----
	if hasKind(res.EndEvents, "proposal_finalized") || hasKind(res.EndEvents, (&governance.ProposalFinalizedEvent{}).EventKind()) {
		before := map[uint64]governance.ProposalState{}
		for _, pr := range prev.props {
			before[pr.ID] = pr.State
		}
		thr := prev.govThr // the threshold in force when EndBlock starts
		for _, pr := range cur.props {
			if pr.State == governance.StateActive {
				continue
			}
			if st, ok := before[pr.ID]; ok && st != governance.StateActive {
				continue // closed earlier
			}
			w.tallyCase(h, pr, cur, thr)
			// a passed change of the stake threshold applies to the proposals closed after it in
			// the same EndBlock (closeProposal re-reads the parameters, governance.go:382-385)
			if cp := pr.Content.ChangeParameters; cp != nil && pr.State == governance.StatePassed && cp.Module == governance.ModuleName {
				var ch governance.ConsensusParameterChanges
				if cbor.Unmarshal(cp.Changes, &ch) == nil && ch.StakeThreshold != nil {
					thr = *ch.StakeThreshold
				}
			}
		}
	}
}

// tallyCase records the tally of one proposal closed in this block. The state
// after the block is the state the tally saw: nothing after the governance
// EndBlock changes escrow pools, delegations or the current validator set.
func (w *world) tallyCase(h int64, pr *governance.Proposal, cur *snap, thr uint8) {
	ids := map[staking.Address]int{}
	id := func(a staking.Address) int {
		if v, ok := ids[a]; ok {
			return v
		}
		ids[a] = len(ids) + 1
		return ids[a]
	}
	var vals []staking.Address
	for _, e := range cur.curVals {
		vals = append(vals, staking.NewAddress(e))
	}
	sort.Slice(vals, func(i, j int) bool { return vals[i].String() < vals[j].String() })
	var vs []string
	isVal := map[staking.Address]bool{}
	for _, a := range vals {
		isVal[a] = true
		acc := cur.acct(a)
		vs = append(vs, fmt.Sprintf("(%d, %s, %s)", id(a), n(acc.Escrow.Active.Balance.ToBigInt()), n(acc.Escrow.Active.TotalShares.ToBigInt())))
	}
	votes := cur.votes[pr.ID]
	var vt []string
	voter := map[staking.Address]bool{}
	nonVal, odd := 0, 0
	for _, v := range votes {
		name := fmt.Sprintf("%d", uint8(v.Vote)) // any uint8 is stored by castVote
		if v.Vote < 1 || v.Vote > 3 {
			odd++
		}
		vt = append(vt, fmt.Sprintf("(%d, %s)", id(v.Voter), name))
		voter[v.Voter] = true
		if !isVal[v.Voter] {
			nonVal++
		}
	}
	var ds []string
	for _, esc := range vals {
		m := cur.delegs[esc]
		var dl []staking.Address
		for d := range m {
			dl = append(dl, d)
		}
		sort.Slice(dl, func(i, j int) bool { return dl[i].String() < dl[j].String() })
		for _, d := range dl {
			// all delegations to validator entities are given to the model (not only the voters')
			ds = append(ds, fmt.Sprintf("(%d, %d, %s)", id(d), id(esc), n(m[d].Shares.ToBigInt())))
		}
	}
	res := func(v governance.Vote) string {
		q := pr.Results[v]
		return n(q.ToBigInt())
	}
	passed := pr.State == governance.StatePassed || pr.State == governance.StateFailed
	call := fmt.Sprintf("CTally [%s] [%s] [%s] %d", strings.Join(vs, "; "), strings.Join(ds, "; "), strings.Join(vt, "; "), thr)
	other := new(big.Int)
	for v, q := range pr.Results {
		if v < 1 || v > 3 {
			other.Add(other, q.ToBigInt())
		}
	}
	out := fmt.Sprintf("OTally %s %s %s %s %s", res(governance.VoteYes), res(governance.VoteNo), res(governance.VoteAbstain), n(other), cbool(passed))
	if odd > 0 {
		w.count("tally-votes/with values outside yes-no-abstain")
	}
	w.emit(h, "tally", call, out, false)
	switch {
	case len(votes) == 0:
		w.count("tally-votes/no votes")
	case nonVal == len(votes):
		w.count("tally-votes/only non-validators")
	case nonVal == 0:
		w.count("tally-votes/only validators")
	default:
		w.count("tally-votes/validators and delegators")
	}
	w.count("tally-outcome/" + pr.State.String())
	if cp := pr.Content.ChangeParameters; cp != nil {
		tag := cp.Module
		if cp.Module == governance.ModuleName {
			var ch governance.ConsensusParameterChanges
			if cbor.Unmarshal(cp.Changes, &ch) == nil && ch.MinProposalDeposit != nil {
				tag += " min_proposal_deposit"
			}
		}
		w.count("govparams-closed/" + tag + " " + pr.State.String())
	}
}
