// Command nohalt is the harness of property C10 ("No block content can halt
// block execution").  It drives the REAL ABCI multiplexer (all real apps,
// through verifharness/internal/muxdrv) with an extreme block generator and
//
//   - S: reports every panic escaping BeginBlock/DeliverTx/EndBlock/Commit, every
//     empty PrepareProposal, every ProcessProposal REJECT of an honestly built
//     proposal, and every effect of a malformed transaction on anything but its
//     own result (twin chain without the malformed transactions);
//   - K: records, at every block, the real inputs and outputs of the modelled
//     fatal arithmetic (fee splits, proposer reward, slashing, debonding
//     completion, governance tally) as Coq terms for NoHalt/Model.v.
//
// Streams (-stream): main (property must hold), precond (histories that violate
// the documented precondition "enough stake-eligible validators remain"; only
// checked to fail in the documented way), both (default).
package main

import (
	"encoding/json"
	"flag"
	"fmt"
	"os"
	"sort"
	"strings"

	"github.com/oasisprotocol/oasis-core/go/common/logging"

	"verifharness/internal/coqout"
	"verifharness/internal/prng"
)

// errLog keeps the tail of the node's error-level log so that the reason of a recovered
// panic (PrepareProposal / ProcessProposal swallow them) can be attached to a violation.
type ringLog struct{ buf []byte }

func (r *ringLog) Write(p []byte) (int, error) {
	r.buf = append(r.buf, p...)
	if len(r.buf) > 1<<16 {
		r.buf = append([]byte{}, r.buf[len(r.buf)-1<<15:]...)
	}
	return len(p), nil
}

var errLog = &ringLog{}

const header = "From Verif Require Import Lib.Base NoHalt.Model.\n"

// histDesc is the replayable description of one history.
type histDesc struct {
	Stream string `json:"stream"`           // main | precond
	HSeed  uint64 `json:"hseed"`            // seed of the history
	Blocks int    `json:"blocks"`           // number of blocks
	Mask   uint64 `json:"mask"`             // enabled generator features (shrinking clears bits)
	Script string `json:"script,omitempty"` // scripted scenario instead of the random generator
}

type caseDesc struct {
	Hist   histDesc `json:"hist"`
	Height int64    `json:"height"`
	What   string   `json:"what"`
}

type violation struct {
	What   string   `json:"what"`
	Case   histDesc `json:"case"`
	Height int64    `json:"height"`
	Detail string   `json:"detail"`
}

type runner struct {
	w    *coqout.Writer
	sum  *coqout.Summary
	seen map[string]bool // distinct non-trivial K cases
}

const findingGovWeights = "C10:fee-split-vote-and-next-propose-weights-zeroed-by-passed-proposal"

const allFeatures = uint64(1<<numFeatures - 1)

func main() {
	seed := flag.Uint64("seed", 1, "")
	out := flag.String("out", "", "")
	cases := flag.Int("cases", 24, "histories of the main stream")
	pre := flag.Int("precond", 4, "histories of the precondition-violating stream")
	blocks := flag.Int("blocks", 24, "blocks per history")
	stream := flag.String("stream", "both", "main | precond | roothash | both (= all)")
	nrt := flag.Int("roothash", 10, "histories of the roothash stream (runtime rounds, timeouts, suspension)")
	rtBlocks := flag.Int("rtblocks", 30, "blocks per roothash history")
	nvrf := flag.Int("schedvrf", 150, "cases of the scheduler-level VRF stream")
	replay := flag.String("replay", "", "replay one case description (JSON)")
	verbose := flag.Bool("v", false, "")
	flag.Int64Var(&capMarginFlag, "capmargin", -1, "probe: force every non-bypass history to a total supply whose voting power is this far below CometBFT's cap, with small-stake joiners (default: knob)")
	flag.BoolVar(&mockFlag, "mock", false, "also generate DebugMockBackend histories (SetEpoch transactions, epoch jumps); off by default: they hit debug-only failures")
	flag.Parse()
	if *out == "" {
		d, _ := os.MkdirTemp("", "nohalt-out-")
		defer os.RemoveAll(d)
		*out = d
	}
	vflag = *verbose
	_ = logging.Initialize(errLog, logging.FmtLogfmt, logging.LevelError, nil)
	r := &runner{
		w:    coqout.NewWriter(*out, header, "run_call", "outv_eqb", 400),
		sum:  coqout.NewSummary("distinct (kind, inputs) tuples of the recorded arithmetic calls whose inputs are not all zero, plus histories that executed at least one epoch transition"),
		seen: map[string]bool{},
	}

	var hists []histDesc
	if *replay != "" {
		b, err := os.ReadFile(*replay)
		if err != nil {
			fmt.Println("cannot read replay file:", err)
			os.Exit(2)
		}
		var cd caseDesc
		var hd histDesc
		var v violation
		switch {
		case json.Unmarshal(b, &cd) == nil && cd.Hist.Blocks > 0:
			hists = []histDesc{cd.Hist}
		case json.Unmarshal(b, &v) == nil && v.Case.Blocks > 0:
			hists = []histDesc{v.Case}
		case json.Unmarshal(b, &hd) == nil && hd.Blocks > 0:
			hists = []histDesc{hd}
		default:
			fmt.Println("unrecognised replay description")
			os.Exit(2)
		}
	} else {
		rng := prng.New(*seed)
		if *stream == "main" || *stream == "both" {
			// scripted scenarios first (deterministic corner cases), then random histories
			for _, s := range scripts {
				hs := rng.U64() % 1_000_000
				hists = append(hists, histDesc{Stream: "main", HSeed: hs, Blocks: s.blocks, Mask: allFeatures, Script: s.name})
				if s.name == "zerogasfee" {
					// once with the transactions also going through CheckTx first (even seed), once
					// straight into a block (odd seed: the failure in DELIVERY)
					hists[len(hists)-1].HSeed = hs | 1
					hists = append(hists, histDesc{Stream: "main", HSeed: hs &^ 1, Blocks: s.blocks, Mask: allFeatures, Script: s.name})
				}
			}
			for i := 0; i < *cases; i++ {
				hists = append(hists, histDesc{Stream: "main", HSeed: rng.U64() % 1_000_000_000, Blocks: *blocks, Mask: allFeatures})
			}
		}
		if *stream == "roothash" || *stream == "both" {
			hists = append(hists, histDesc{Stream: "roothash", HSeed: rng.U64() % 1_000_000, Blocks: 14, Mask: allFeatures, Script: scriptRtSlashReward})
			hists = append(hists, histDesc{Stream: "roothash", HSeed: rng.U64() % 1_000_000, Blocks: 16, Mask: allFeatures, Script: scriptRtSlashPercent})
			hists = append(hists, histDesc{Stream: "roothash", HSeed: rng.U64()%1_000_000 | 1, Blocks: 24, Mask: allFeatures, Script: scriptRtInMsgs})
			hists = append(hists, histDesc{Stream: "roothash", HSeed: rng.U64()%1_000_000 &^ 1, Blocks: 24, Mask: allFeatures, Script: scriptRtInMsgs})
			// twice: with the debug sanity app (even seed) and without it (odd seed: the production failure)
			hs := rng.U64() % 1_000_000
			hists = append(hists, histDesc{Stream: "roothash", HSeed: hs &^ 1, Blocks: 18, Mask: allFeatures, Script: scriptRtSuspendTimeout})
			hists = append(hists, histDesc{Stream: "roothash", HSeed: hs | 1, Blocks: 18, Mask: allFeatures, Script: scriptRtSuspendTimeout})
			for i := 0; i < *nrt; i++ {
				hists = append(hists, histDesc{Stream: "roothash", HSeed: rng.U64() % 1_000_000_000, Blocks: *rtBlocks, Mask: allFeatures})
			}
		}
		if *stream == "schedvrf" || *stream == "both" {
			// the scheduler application alone, VRF beacon backend (one epoch transition per case)
			hists = append(hists, histDesc{Stream: "schedvrf", HSeed: 2, Blocks: 1, Mask: allFeatures, Script: "vrf-foreign-proofs"})
			hists = append(hists, histDesc{Stream: "schedvrf", HSeed: 3, Blocks: 1, Mask: allFeatures, Script: "vrf-foreign-proofs"})
			for i := 0; i < *nvrf; i++ {
				hists = append(hists, histDesc{Stream: "schedvrf", HSeed: rng.U64() % 1_000_000_000, Blocks: 1, Mask: allFeatures})
			}
		}
		if *stream == "precond" || *stream == "both" {
			for i := 0; i < *pre; i++ {
				hists = append(hists, histDesc{Stream: "precond", HSeed: rng.U64() % 1_000_000_000, Blocks: *blocks, Mask: allFeatures})
			}
		}
	}

	seenKnown := map[string]bool{}
	for _, h := range hists {
		res := runHistory(h, r, true)
		r.account(h, res)
		if res.viol != nil && res.knownKey != "" {
			// a registered known finding: reported under its key (the driver prints KNOWN-FINDING)
			if !seenKnown[res.knownKey] {
				seenKnown[res.knownKey] = true
				hd := h
				if int(res.viol.Height) < hd.Blocks {
					hd.Blocks = int(res.viol.Height)
				}
				r.sum.Findings = append(r.sum.Findings, coqout.Finding{Key: res.knownKey,
					What:   "chain halts: genesis uses the sqrt voting-power distribution with an escrow of at least 2^67 base units; a passed scheduler change-parameters proposal switches to the linear distribution (not validated against the supply) and the next election fails converting that stake: " + res.viol.Detail,
					Replay: hd})
			}
			r.sum.Count("known-finding", res.knownKey)
			continue
		}
		if res.viol != nil && res.findingKey != "" {
			// regression of the defect fixed by /repo commit c3a21ab (status fixed): a plain violation
			res.viol.What = res.findingKey + " (fixed defect is back: TransferFromCommon(escrow=true) fails on a pool slashed to zero with a 100 % commission rate, halting the chain in roothash EndBlock): " + res.viol.What
		}
		if res.viol != nil && res.finding {
			// regression of the defect fixed by /repo commit c9cfe37 (known_findings.json, status
			// fixed): a plain violation, only classified by its key
			res.viol.What = findingGovWeights + " (fixed defect is back: a passed change-parameters proposal with vote = next-propose weight = 0 halts the chain in disburseFeesVQ): " + res.viol.What
		}
		switch {
		case res.viol != nil && *replay == "":
			v := shrink(h, res.viol)
			if res.finding && !strings.HasPrefix(v.What, findingGovWeights) {
				v.What = findingGovWeights + " (fixed defect is back): " + v.What
			}
			if res.findingKey != "" && !strings.HasPrefix(v.What, res.findingKey) {
				v.What = res.findingKey + " (fixed defect is back): " + v.What
			}
			r.sum.Violations = append(r.sum.Violations, v)
		case res.viol != nil:
			r.sum.Violations = append(r.sum.Violations, res.viol)
		}
	}

	r.w.Close()
	r.sum.Evaluations = r.w.Total
	r.sum.DistinctNontrivial = len(r.seen)
	r.sum.Write(*out)
	if vflag {
		b, _ := json.MarshalIndent(r.sum.Histograms, "", " ")
		fmt.Println(string(b))
		fmt.Println("cases:", r.w.Total, "distinct:", len(r.seen), "violations:", len(r.sum.Violations))
		for _, v := range r.sum.Violations {
			b, _ := json.Marshal(v)
			fmt.Println(string(b))
		}
	}
}

// account adds one history's statistics to the summary.
func (r *runner) account(h histDesc, res *histResult) {
	s := r.sum
	s.Count("stream", h.Stream)
	for _, k := range sortedKeys(res.hist) {
		m := s.Histograms[histName(k)]
		if m == nil {
			m = map[string]int{}
			s.Histograms[histName(k)] = m
		}
		m[histKey(k)] += res.hist[k]
	}
	if res.epochs > 0 {
		r.seen[fmt.Sprintf("hist/%d/%s/%d", h.HSeed, h.Script, h.Mask)] = true
	}
	s.Sample(map[string]any{"hist": h, "blocks_run": res.blocksRun, "epochs": res.epochs, "txs": res.txs, "tx_failed": res.txFailed, "outcome": res.outcome}, 4)
}

func histName(k string) string {
	for i := 0; i < len(k); i++ {
		if k[i] == '/' {
			return k[:i]
		}
	}
	return "misc"
}

func histKey(k string) string {
	for i := 0; i < len(k); i++ {
		if k[i] == '/' {
			return k[i+1:]
		}
	}
	return k
}

func sortedKeys(m map[string]int) []string {
	ks := make([]string, 0, len(m))
	for k := range m {
		ks = append(ks, k)
	}
	sort.Strings(ks)
	return ks
}

// shrink greedily: fewer blocks (the failing height bounds it), then fewer features.
func shrink(h histDesc, v *violation) *violation {
	if h.Stream == "schedvrf" {
		return v // a single epoch transition: nothing to shrink
	}
	best, bv := h, v
	if int(v.Height) < best.Blocks && v.Height > 0 {
		c := best
		c.Blocks = int(v.Height)
		if r := runHistory(c, nil, false); r.viol != nil {
			best, bv = c, r.viol
		}
	}
	if best.Script == "" {
		for bit := 0; bit < numFeatures; bit++ {
			c := best
			c.Mask &^= 1 << uint(bit)
			if c.Mask == best.Mask {
				continue
			}
			if r := runHistory(c, nil, false); r.viol != nil {
				best, bv = c, r.viol
			}
		}
	}
	bv.Case = best
	return bv
}

var vflag, mockFlag bool
var capMarginFlag int64 = -1

func logf(format string, a ...any) {
	if vflag {
		fmt.Printf(format+"\n", a...)
	}
}
