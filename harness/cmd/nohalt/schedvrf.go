package main

// Stream "schedvrf": the REAL scheduler application (BeginBlock + EndBlock) on an epoch
// boundary with the VRF beacon backend, over a state built directly (registry nodes and
// statuses, entity escrows, beacon VRF state: which nodes submitted a proof in the previous
// epoch).  The full-multiplexer streams run the insecure beacon backend; this stream covers
// the sortition / fallback decision of shuffleValidators.
//
// Oracle: when at least MinValidators stake-eligible validators (registered, not frozen, not
// expired, one per entity) exist, the epoch transition must not fail -- whatever proofs
// compute nodes or ineligible validators submitted.  With fewer, the documented election
// error is expected.

import (
	"fmt"
	"strings"

	beacon "github.com/oasisprotocol/oasis-core/go/beacon/api"
	"github.com/oasisprotocol/oasis-core/go/common/cbor"
	"github.com/oasisprotocol/oasis-core/go/common/crypto/signature"
	memorySigner "github.com/oasisprotocol/oasis-core/go/common/crypto/signature/signers/memory"
	"github.com/oasisprotocol/oasis-core/go/common/entity"
	"github.com/oasisprotocol/oasis-core/go/common/node"
	"github.com/oasisprotocol/oasis-core/go/common/quantity"
	abciAPI "github.com/oasisprotocol/oasis-core/go/consensus/cometbft/api"
	beaconState "github.com/oasisprotocol/oasis-core/go/consensus/cometbft/apps/beacon/state"
	consensusState "github.com/oasisprotocol/oasis-core/go/consensus/cometbft/apps/consensus/state"
	registryState "github.com/oasisprotocol/oasis-core/go/consensus/cometbft/apps/registry/state"
	schedulerApp "github.com/oasisprotocol/oasis-core/go/consensus/cometbft/apps/scheduler"
	schedulerState "github.com/oasisprotocol/oasis-core/go/consensus/cometbft/apps/scheduler/state"
	stakingState "github.com/oasisprotocol/oasis-core/go/consensus/cometbft/apps/staking/state"
	consensusGenesis "github.com/oasisprotocol/oasis-core/go/consensus/genesis"
	registry "github.com/oasisprotocol/oasis-core/go/registry/api"
	scheduler "github.com/oasisprotocol/oasis-core/go/scheduler/api"
	staking "github.com/oasisprotocol/oasis-core/go/staking/api"

	"verifharness/internal/prng"
)

type vrfNode struct {
	validator bool
	frozen    bool
	expired   bool
	proof     bool
	stake     uint64
}

// vrfCase is derived from the history seed alone.
type vrfCase struct {
	nodes []vrfNode
	min   int
}

func makeVRFCase(d histDesc) vrfCase {
	r := prng.New(d.HSeed)
	var c vrfCase
	nV, nC := 1+r.Intn(6), r.Intn(5)
	if d.Script == "vrf-foreign-proofs" {
		// four healthy validators of which at most one has a proof, three compute nodes with proofs
		c.min = 3
		for i := 0; i < 4; i++ {
			c.nodes = append(c.nodes, vrfNode{validator: true, proof: i < int(d.HSeed%2), stake: uint64(1000 + i)})
		}
		for i := 0; i < 3; i++ {
			c.nodes = append(c.nodes, vrfNode{proof: true, stake: 10})
		}
		return c
	}
	c.min = 1 + r.Intn(nV+1)
	for i := 0; i < nV; i++ {
		c.nodes = append(c.nodes, vrfNode{validator: true, frozen: r.Chance(12), expired: r.Chance(10), proof: r.Chance(45),
			stake: []uint64{0, 1, 5, 1000, 1 << 40}[r.Intn(5)] + uint64(r.Intn(50))})
	}
	for i := 0; i < nC; i++ {
		c.nodes = append(c.nodes, vrfNode{proof: r.Chance(70), stake: uint64(r.Intn(100))})
	}
	return c
}

// runSchedVRF executes one case on the real scheduler application.
func runSchedVRF(d histDesc) *histResult {
	res := &histResult{hist: map[string]int{}, blocksRun: 1}
	c := makeVRFCase(d)
	const epoch = beacon.EpochTime(7)
	eligible, valProofs, otherProofs := 0, 0, 0
	for _, n := range c.nodes {
		switch {
		case n.validator && !n.frozen && !n.expired:
			eligible++
			if n.proof {
				valProofs++
			}
		case n.proof:
			otherProofs++
		}
	}
	if eligible >= c.min {
		res.hist["vrf-eligible/at least MinValidators stake-eligible validators"]++
	} else {
		res.hist["vrf-eligible/fewer than MinValidators (documented precondition violated)"]++
	}
	switch {
	case valProofs >= c.min:
		res.hist["vrf-path/sortition (enough validator proofs)"]++
	case valProofs+otherProofs >= c.min:
		res.hist["vrf-path/fallback although all proofs together reach the minimum"]++
	default:
		res.hist["vrf-path/fallback"]++
	}

	fail := func(what string) *histResult {
		res.outcome = "VIOLATION: " + what
		res.viol = &violation{What: what, Case: d, Height: 1, Detail: what}
		return res
	}
	var err error
	var pending int
	func() {
		defer func() {
			if x := recover(); x != nil {
				err = fmt.Errorf("PANIC: %v", x)
			}
		}()
		signature.UnsafeResetChainContext()
		signature.SetChainContext("verif c10 schedvrf")
		appState := abciAPI.NewMockApplicationState(&abciAPI.MockApplicationStateConfig{BaseEpoch: 1, CurrentEpoch: epoch, EpochChanged: true, LastHeight: 100})
		ctx := appState.NewContext(abciAPI.ContextInitChain)
		defer ctx.Close()
		must := func(e error) {
			if e != nil {
				panic(fmt.Sprintf("state setup: %v", e))
			}
		}
		cs := consensusState.NewMutableState(ctx.State())
		must(cs.SetChainContext(ctx, "verif c10 schedvrf"))
		must(cs.SetConsensusParameters(ctx, &consensusGenesis.Parameters{}))
		must(schedulerState.NewMutableState(ctx.State()).SetConsensusParameters(ctx, &scheduler.ConsensusParameters{MinValidators: c.min, MaxValidators: 100, MaxValidatorsPerEntity: 1}))
		stakeState := stakingState.NewMutableState(ctx.State())
		must(stakeState.SetConsensusParameters(ctx, &staking.ConsensusParameters{}))
		regState := registryState.NewMutableState(ctx.State())
		must(regState.SetConsensusParameters(ctx, &registry.ConsensusParameters{}))
		bcn := beaconState.NewMutableState(ctx.State())
		must(bcn.SetConsensusParameters(ctx, &beacon.ConsensusParameters{Backend: beacon.BackendVRF, VRFParameters: &beacon.VRFParameters{}}))
		must(bcn.DebugForceSetBeacon(ctx, []byte("mock random beacon mock random beacon mock random beacon!!")))
		must(bcn.SetEpoch(ctx, epoch, 100))
		prevAlpha := []byte("alpha of the previous epoch")
		pi := map[signature.PublicKey]*signature.Proof{}
		for i, n := range c.nodes {
			tag := fmt.Sprintf("verif c10 vrf %d/%d", d.HSeed, i)
			entS, nodeS, consS := memorySigner.NewTestSigner(tag+" entity"), memorySigner.NewTestSigner(tag+" node"), memorySigner.NewTestSigner(tag+" consensus")
			vrfS := memorySigner.NewTestSigner(tag + " vrf")
			vrfS.(*memorySigner.Signer).UnsafeSetRole(signature.SignerVRF)
			ent := &entity.Entity{Versioned: cbor.NewVersioned(entity.LatestDescriptorVersion), ID: entS.Public(), Nodes: []signature.PublicKey{nodeS.Public()}}
			sigEnt, e := entity.SignEntity(entS, registry.RegisterEntitySignatureContext, ent)
			must(e)
			must(regState.SetEntity(ctx, ent, sigEnt))
			roles := node.RoleComputeWorker
			if n.validator {
				roles = node.RoleValidator
			}
			exp := epoch + 10
			if n.expired {
				exp = epoch - 1
			}
			nd := &node.Node{Versioned: cbor.NewVersioned(node.LatestNodeDescriptorVersion), ID: nodeS.Public(), EntityID: ent.ID, Expiration: exp, Roles: roles,
				Consensus: node.ConsensusInfo{ID: consS.Public()}, VRF: node.VRFInfo{ID: vrfS.Public()}}
			sigNode, e := node.MultiSignNode([]signature.Signer{nodeS}, registry.RegisterNodeSignatureContext, nd)
			must(e)
			must(regState.SetNode(ctx, nil, nd, sigNode))
			status := &registry.NodeStatus{ElectionEligibleAfter: 2}
			if n.frozen {
				status.FreezeEndTime = registry.FreezeForever
			}
			must(regState.SetNodeStatus(ctx, nd.ID, status))
			bal := *quantity.NewFromUint64(n.stake)
			must(stakeState.SetAccount(ctx, staking.NewAddress(ent.ID), &staking.Account{Escrow: staking.EscrowAccount{Active: staking.SharePool{Balance: bal, TotalShares: bal}}}))
			if n.proof {
				proof, e := signature.Prove(vrfS, prevAlpha)
				must(e)
				pi[nd.ID] = proof
			}
		}
		must(bcn.SetVRFState(ctx, &beacon.VRFState{Epoch: epoch, Alpha: []byte("alpha of the current epoch"), PrevState: &beacon.PrevVRFState{Pi: pi, CanElectCommittees: true}}))

		app := schedulerApp.New(appState, &abciAPI.NoopMessageDispatcher{})
		bctx := appState.NewContext(abciAPI.ContextBeginBlock)
		defer bctx.Close()
		if err = app.BeginBlock(bctx); err != nil {
			err = fmt.Errorf("scheduler BeginBlock: %w", err)
			return
		}
		pv, e := schedulerState.NewMutableState(bctx.State()).PendingValidators(bctx)
		if e == nil {
			pending = len(pv)
		}
		ectx := appState.NewContext(abciAPI.ContextEndBlock)
		defer ectx.Close()
		if _, e := app.EndBlock(ectx); e != nil {
			err = fmt.Errorf("scheduler EndBlock: %w", e)
		}
	}()

	switch {
	case err != nil && strings.HasPrefix(err.Error(), "PANIC: state setup"):
		res.outcome = "case could not be set up: " + err.Error()
		res.hist["vrf-outcome/setup failed"]++
	case eligible >= c.min && eligible >= 1:
		if err != nil {
			return fail(fmt.Sprintf("epoch transition fails although %d stake-eligible validators exist (minimum %d; %d of them and %d other nodes submitted VRF proofs): %v", eligible, c.min, valProofs, otherProofs, err))
		}
		if pending < c.min {
			return fail(fmt.Sprintf("only %d validators pending with %d eligible (minimum %d)", pending, eligible, c.min))
		}
		res.outcome = "completed"
		res.hist["vrf-outcome/elected"]++
	default:
		// the documented precondition does not hold: the election error is the documented outcome
		if err != nil && strings.Contains(err.Error(), "elect") {
			res.hist["vrf-outcome/documented election failure (too few eligible validators)"]++
		} else if err != nil {
			return fail("unexpected failure without enough eligible validators: " + err.Error())
		} else {
			res.hist["vrf-outcome/elected"]++
		}
		res.outcome = "completed"
	}
	return res
}
