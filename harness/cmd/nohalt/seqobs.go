package main

// Correspondence cases for epoch-transition blocks: the proposer reward, the scheduler's
// election rewards (AddRewards in its BeginBlock) and the signing rewards (AddRewards in
// the staking EndBlock).  The inputs at the moment of each loop are obtained by replaying
// ALL staking events of the block, in order, on the escrow pools and the common pool of
// the previous block's state; the replay is validated against the state after the block
// (any difference: no case is recorded for that block).

import (
	"bytes"
	"encoding/hex"
	"fmt"
	"math/big"
	"sort"
	"strings"

	beacon "github.com/oasisprotocol/oasis-core/go/beacon/api"
	"github.com/oasisprotocol/oasis-core/go/common/crypto/signature"
	"github.com/oasisprotocol/oasis-core/go/consensus/api/events"
	staking "github.com/oasisprotocol/oasis-core/go/staking/api"

	"verifharness/internal/muxdrv"
)

type sev struct {
	kind string
	xfer *staking.TransferEvent
	add  *staking.AddEscrowEvent
	take *staking.TakeEscrowEvent
	deb  *staking.DebondingStartEscrowEvent
}

func stakingSevs(evs []muxdrv.Event) (out []sev) {
	for _, e := range evs {
		if e.Type != stakingEventType {
			continue
		}
		for _, a := range e.Attrs {
			s := sev{kind: a[0]}
			switch a[0] {
			case "transfer":
				var t staking.TransferEvent
				if events.DecodeValue(a[1], &t) != nil {
					continue
				}
				s.xfer = &t
			case "add_escrow":
				var t staking.AddEscrowEvent
				if events.DecodeValue(a[1], &t) != nil {
					continue
				}
				s.add = &t
			case "take_escrow":
				var t staking.TakeEscrowEvent
				if events.DecodeValue(a[1], &t) != nil {
					continue
				}
				s.take = &t
			case "debonding_start":
				var t staking.DebondingStartEscrowEvent
				if events.DecodeValue(a[1], &t) != nil {
					continue
				}
				s.deb = &t
			}
			out = append(out, s)
		}
	}
	return
}

type poolSt struct{ bal, ts *big.Int }

type tracker struct {
	pool *big.Int
	esc  map[staking.Address]*poolSt
}

func newTracker(prev *snap) *tracker {
	t := &tracker{pool: new(big.Int).Set(prev.pool), esc: map[staking.Address]*poolSt{}}
	for a, acc := range prev.accts {
		t.esc[a] = &poolSt{acc.Escrow.Active.Balance.ToBigInt(), acc.Escrow.Active.TotalShares.ToBigInt()}
	}
	return t
}

func (t *tracker) get(a staking.Address) *poolSt {
	if p, ok := t.esc[a]; ok {
		return p
	}
	p := &poolSt{new(big.Int), new(big.Int)}
	t.esc[a] = p
	return p
}

func (t *tracker) apply(s sev) {
	switch {
	case s.xfer != nil:
		if s.xfer.From == staking.CommonPoolAddress {
			t.pool.Sub(t.pool, s.xfer.Amount.ToBigInt())
		}
		if s.xfer.To == staking.CommonPoolAddress {
			t.pool.Add(t.pool, s.xfer.Amount.ToBigInt())
		}
	case s.add != nil:
		p := t.get(s.add.Escrow)
		p.bal.Add(p.bal, s.add.Amount.ToBigInt())
		p.ts.Add(p.ts, s.add.NewShares.ToBigInt())
		if s.add.Owner == staking.CommonPoolAddress {
			t.pool.Sub(t.pool, s.add.Amount.ToBigInt())
		}
	case s.take != nil:
		p := t.get(s.take.Owner)
		act := new(big.Int).Sub(s.take.Amount.ToBigInt(), s.take.DebondingAmount.ToBigInt())
		p.bal.Sub(p.bal, act)
		t.pool.Add(t.pool, s.take.Amount.ToBigInt())
	case s.deb != nil:
		p := t.get(s.deb.Escrow)
		p.bal.Sub(p.bal, s.deb.Amount.ToBigInt())
		p.ts.Sub(p.ts, s.deb.ActiveShares.ToBigInt())
	}
}

// rgroup is the event group of one reward payment.
type rgroup struct {
	addr         staking.Address
	rem, com, sh *big.Int
	n            int // number of events
}

// parseGroup recognises a reward payment at position i.
func parseGroup(ev []sev, i int) *rgroup {
	g := &rgroup{rem: new(big.Int), com: new(big.Int), sh: new(big.Int)}
	if i < len(ev) && ev[i].add != nil && ev[i].add.Owner == staking.CommonPoolAddress {
		g.addr, g.rem = ev[i].add.Escrow, ev[i].add.Amount.ToBigInt()
		g.n++
		i++
	}
	if i+1 < len(ev) && ev[i].xfer != nil && ev[i].xfer.From == staking.CommonPoolAddress &&
		ev[i+1].add != nil && ev[i+1].add.Owner == ev[i].xfer.To && ev[i+1].add.Escrow == ev[i].xfer.To &&
		(g.n == 0 || ev[i].xfer.To == g.addr) {
		g.addr = ev[i].xfer.To
		g.com, g.sh = ev[i+1].add.Amount.ToBigInt(), ev[i+1].add.NewShares.ToBigInt()
		g.n += 2
	}
	if g.n == 0 {
		return nil
	}
	return g
}

func parseGroups(ev []sev, i int) (gs []*rgroup, next int) {
	for {
		g := parseGroup(ev, i)
		if g == nil {
			return gs, i
		}
		gs = append(gs, g)
		i += g.n
	}
}

// assign maps groups onto the ordered entity list (strictly increasing positions).
func assign(gs []*rgroup, list []staking.Address) ([]*rgroup, bool) {
	out := make([]*rgroup, len(list))
	pos := 0
	for _, g := range gs {
		found := false
		for ; pos < len(list); pos++ {
			if list[pos] == g.addr {
				out[pos] = g
				pos++
				found = true
				break
			}
		}
		if !found {
			return nil, false
		}
	}
	return out, true
}

func seqOut(as []*rgroup, pool *big.Int) string {
	var items []string
	p := new(big.Int).Set(pool)
	for _, g := range as {
		if g == nil {
			items = append(items, "(0, 0, 0)")
			continue
		}
		items = append(items, fmt.Sprintf("(%s, %s, %s)", n(g.rem), n(g.com), n(g.sh)))
		p.Sub(p, g.rem)
		p.Sub(p, g.com)
	}
	return fmt.Sprintf("OSeq [%s] %s", strings.Join(items, "; "), n(p))
}

func scaleOpt(p *staking.ConsensusParameters, ep beacon.EpochTime) (string, *big.Int) {
	for _, st := range p.RewardSchedule {
		if ep < st.Until {
			return "(Some " + n(st.Scale.ToBigInt()) + ")", st.Scale.ToBigInt()
		}
	}
	return "None", nil
}

func rateOf(prev *snap, a staking.Address, ep beacon.EpochTime) *big.Int {
	acc := prev.acct(a)
	if r := acc.Escrow.CommissionSchedule.CurrentRate(ep); r != nil {
		return r.ToBigInt()
	}
	return prev.params.CommissionScheduleRules.MinCommissionRate.ToBigInt()
}

type pendingCase struct {
	kind, call, out string
	trivial         bool
}

// observeEpochBlock records the reward cases of an epoch-transition block.
func (w *world) observeEpochBlock(in *muxdrv.BlockInput, res *muxdrv.BlockResult, prev, cur *snap, known bool, propAddr staking.Address, nVE, nEV int64) {
	h := in.Height
	ep := beacon.EpochTime(cur.epoch)
	p := prev.params
	rd, cd := staking.RewardAmountDenominator.String(), staking.CommissionRateDenominator.String()
	scaleS, scale := scaleOpt(p, ep)
	t := newTracker(prev)
	var cases []pendingCase

	// ---------------- BeginBlock ----------------
	B := stakingSevs(res.BeginEvents)
	i := 0
	for i < len(B) && B[i].xfer != nil && B[i].xfer.From == staking.FeeAccumulatorAddress {
		t.apply(B[i])
		i++
	}
	g1, j := parseGroups(B, i)
	k := j
	for k < len(B) && B[k].take != nil {
		k++
	}
	var g2 []*rgroup
	hasTake := k > j
	end := k
	if hasTake {
		g2, end = parseGroups(B, k)
	}
	// election list: entities of the newly elected validators, sorted by address
	var list []staking.Address
	for _, e := range cur.curVals {
		list = append(list, staking.NewAddress(e))
	}
	sort.Slice(list, func(a, b int) bool { return bytes.Compare(list[a][:], list[b][:]) < 0 })

	var propG *rgroup
	var elect []*rgroup
	okB := true
	switch {
	case hasTake:
		if len(g1) > 1 || (len(g1) == 1 && (!known || g1[0].addr != propAddr)) {
			okB = false
		} else if len(g1) == 1 {
			propG = g1[0]
		}
		elect = g2
	default:
		_, allElect := assign(g1, list)
		firstProp := false
		if len(g1) > 0 && known && g1[0].addr == propAddr {
			_, firstProp = assign(g1[1:], list)
		}
		switch {
		case allElect && firstProp:
			okB = false
			w.count("kskip/proposer vs election reward ambiguous")
		case firstProp:
			propG, elect = g1[0], g1[1:]
		case allElect:
			elect = g1
		default:
			okB = false
		}
	}
	if end != len(B) {
		// staking events this parser does not know in BeginBlock
		okB = false
	}
	if okB {
		// proposer reward
		if known && scale != nil {
			st := t.get(propAddr)
			call := fmt.Sprintf("CReward %s %s %s %s %s %s %d %d %s %s", rd, cd, n(st.bal), n(st.ts), n(p.RewardFactorBlockProposed.ToBigInt()), n(scale), nVE, nEV, n(t.pool), n(rateOf(prev, propAddr, ep)))
			out := "ONone"
			if propG != nil {
				p2 := new(big.Int).Sub(t.pool, propG.rem)
				p2.Sub(p2, propG.com)
				out = fmt.Sprintf("OQuad %s %s %s %s", n(propG.rem), n(propG.com), n(propG.sh), n(p2))
			}
			cases = append(cases, pendingCase{"reward (epoch block)", call, out, out == "ONone" && st.bal.Sign() == 0})
		}
		cut := k
		if !hasTake {
			cut = i
			if propG != nil {
				cut = i + propG.n
			}
		}
		for x := i; x < cut; x++ {
			t.apply(B[x])
		}
		// election rewards
		as, ok := assign(elect, list)
		if ok && cur.epoch != uint64(w.g.Doc.Beacon.Base) {
			var accts []string
			for _, a := range list {
				st := t.get(a)
				accts = append(accts, fmt.Sprintf("(%s, %s, %s)", n(st.bal), n(st.ts), n(rateOf(prev, a, ep))))
			}
			f := w.g.Doc.Scheduler.Parameters.RewardFactorEpochElectionAny.ToBigInt()
			call := fmt.Sprintf("CRewardSeq %s %s %s %s [%s] %s", rd, cd, n(f), scaleS, strings.Join(accts, "; "), n(t.pool))
			cases = append(cases, pendingCase{"rewards_seq election", call, seqOut(as, t.pool), false})
		}
		for x := cut; x < len(B); x++ {
			t.apply(B[x])
		}
	} else {
		for x := i; x < len(B); x++ {
			t.apply(B[x])
		}
		w.count("kskip/begin-block reward events not separable")
	}

	// ---------------- transactions ----------------
	for _, tr := range res.TxResults {
		for _, s := range stakingSevs(tr.Events) {
			t.apply(s)
		}
	}

	// ---------------- EndBlock: signing rewards ----------------
	E := stakingSevs(res.EndEvents)
	i = 0
	for i < len(E) && E[i].xfer != nil && E[i].xfer.From == staking.FeeAccumulatorAddress {
		t.apply(E[i])
		i++
	}
	for i < len(E) && E[i].kind == "reclaim_escrow" {
		i++
	}
	gs, j := parseGroups(E, i)
	if prev.signing != nil {
		counts := map[signature.PublicKey]uint64{}
		for e, c := range prev.signing.ByEntity {
			counts[e] = c
		}
		for _, v := range in.LastCommit.Votes {
			if !v.SignedLastBlock {
				continue
			}
			if e := prev.resolves[hex.EncodeToString(v.Validator.Address)]; e != nil {
				counts[*e]++
			}
		}
		var ents []signature.PublicKey
		for e := range counts {
			ents = append(ents, e)
		}
		sort.Slice(ents, func(a, b int) bool { return bytes.Compare(ents[a][:], ents[b][:]) < 0 })
		var list2 []staking.Address
		var items []string
		for _, e := range ents {
			a := staking.NewAddress(e)
			list2 = append(list2, a)
			st := t.get(a)
			items = append(items, fmt.Sprintf("(%d, %s, %s, %s)", counts[e], n(st.bal), n(st.ts), n(rateOf(prev, a, ep))))
		}
		if as, ok := assign(gs, list2); ok {
			call := fmt.Sprintf("CSigning %s %s %d %d %d %s %s [%s] %s", rd, cd, p.SigningRewardThresholdNumerator, p.SigningRewardThresholdDenominator,
				prev.signing.Total+1, n(p.RewardFactorEpochSigned.ToBigInt()), scaleS, strings.Join(items, "; "), n(t.pool))
			cases = append(cases, pendingCase{"signing path", call, seqOut(as, t.pool), len(ents) == 0})
		} else {
			w.count("kskip/signing reward events not assignable")
		}
	}
	for x := i; x < len(E); x++ {
		t.apply(E[x])
	}
	_ = j

	// ---------------- validation of the replay ----------------
	good := t.pool.Cmp(cur.pool) == 0
	for a, acc := range cur.accts {
		st := t.get(a)
		if st.bal.Cmp(acc.Escrow.Active.Balance.ToBigInt()) != 0 || st.ts.Cmp(acc.Escrow.Active.TotalShares.ToBigInt()) != 0 {
			good = false
		}
	}
	if !good {
		w.count("kskip/event replay does not reproduce the state")
		return
	}
	w.count("seq/event replay validated")
	for _, c := range cases {
		w.emit(h, c.kind, c.call, c.out, c.trivial)
	}
}
