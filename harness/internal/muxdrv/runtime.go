package muxdrv

// Runtime helpers (ported from harness/cmd/failtx so that other harnesses can share them):
// a minimal compute runtime descriptor, its registration tx, a compute node for an existing
// entity, executor commitments that finalize a round, and a roothash state query.

import (
	"context"
	"fmt"
	"time"

	"github.com/oasisprotocol/oasis-core/go/common"
	"github.com/oasisprotocol/oasis-core/go/common/cbor"
	"github.com/oasisprotocol/oasis-core/go/common/crypto/hash"
	"github.com/oasisprotocol/oasis-core/go/common/crypto/signature"
	"github.com/oasisprotocol/oasis-core/go/consensus/api/transaction"
	roothashState "github.com/oasisprotocol/oasis-core/go/consensus/cometbft/apps/roothash/state"
	registry "github.com/oasisprotocol/oasis-core/go/registry/api"
	roothash "github.com/oasisprotocol/oasis-core/go/roothash/api"
	"github.com/oasisprotocol/oasis-core/go/roothash/api/block"
	"github.com/oasisprotocol/oasis-core/go/roothash/api/commitment"
	"github.com/oasisprotocol/oasis-core/go/roothash/api/message"
	scheduler "github.com/oasisprotocol/oasis-core/go/scheduler/api"
	staking "github.com/oasisprotocol/oasis-core/go/staking/api"
)

// RuntimeID derives a deterministic test runtime identifier.
func RuntimeID(seed uint64, tag string) common.Namespace {
	return common.NewTestNamespaceFromSeed([]byte(fmt.Sprintf("verif/%d/%s", seed, tag)), common.NamespaceTest)
}

// RuntimeDescriptor is a minimal compute runtime owned by entity ent: one executor worker,
// any node admitted, entity governance.
func RuntimeDescriptor(id common.Namespace, ent signature.PublicKey) *registry.Runtime {
	rt := &registry.Runtime{
		Versioned: cbor.NewVersioned(registry.LatestRuntimeDescriptorVersion),
		ID:        id,
		EntityID:  ent,
		Kind:      registry.KindCompute,
		Executor:  registry.ExecutorParameters{GroupSize: 1, RoundTimeout: 20, MaxMessages: 32},
		TxnScheduler: registry.TxnSchedulerParameters{
			BatchFlushTimeout: time.Second, MaxBatchSize: 1, MaxBatchSizeBytes: 1024, ProposerTimeout: 2 * time.Second,
			MaxInMessages: 2,
		},
		AdmissionPolicy: registry.RuntimeAdmissionPolicy{AnyNode: &registry.AnyNodeRuntimeAdmissionPolicy{}},
		Constraints: map[scheduler.CommitteeKind]map[scheduler.Role]registry.SchedulingConstraints{
			scheduler.KindComputeExecutor: {
				scheduler.RoleWorker:       {MinPoolSize: &registry.MinPoolSizeConstraint{Limit: 1}},
				scheduler.RoleBackupWorker: {MinPoolSize: &registry.MinPoolSizeConstraint{Limit: 0}},
			},
		},
		GovernanceModel: registry.GovernanceEntity,
		Staking: registry.RuntimeStakingParameters{
			MinInMessageFee: q(100),
			Slashing: map[staking.SlashReason]staking.Slash{
				staking.SlashRuntimeIncorrectResults: {Amount: q(100)},
				staking.SlashRuntimeEquivocation:     {Amount: q(100)},
			},
			RewardSlashEquvocationRuntimePercent: 30,
			RewardSlashBadResultsRuntimePercent:  40,
		},
		Deployments: []*registry.VersionInfo{{}},
	}
	rt.Genesis.StateRoot.Empty()
	return rt
}

// TxRegisterRuntime must be signed by the owning entity; give it about 4*DefaultGas.
func TxRegisterRuntime(nonce uint64, fee *transaction.Fee, rt *registry.Runtime) *transaction.Transaction {
	return registry.NewRegisterRuntimeTx(nonce, fee, rt)
}

// ComputeNode derives an additional node identity belonging to the entity of v (register it
// with TxRegisterEntity listing both nodes, then TxRegisterNode with
// NodeDescriptor(cn, exp, node.RoleComputeWorker) and nd.Runtimes set).
func ComputeNode(seed uint64, i int, v *Validator) *Validator {
	cn := *NewValidator(seed, 100+i)
	cn.Entity = v.Entity
	return &cn
}

// ExecutorCommit builds the signed executor commitment of node key n (which must be the
// worker and scheduler of the runtime's committee) for the round after blk; variant selects
// the (arbitrary, non-TEE) result roots.
func ExecutorCommit(rt common.Namespace, blk *block.Block, n *Key, variant int) commitment.ExecutorCommitment {
	nb := block.NewEmptyBlock(blk, 1, block.Normal)
	msgs := message.MessagesHash(nil)
	var empty hash.Hash
	empty.Empty()
	io := hash.NewFromBytes([]byte(fmt.Sprintf("io/%d/%d", nb.Header.Round, variant)))
	sr := hash.NewFromBytes([]byte(fmt.Sprintf("state/%d/%d", nb.Header.Round, variant)))
	ec := commitment.ExecutorCommitment{
		NodeID: n.Public(),
		Header: commitment.ExecutorCommitmentHeader{
			SchedulerID: n.Public(),
			Header: commitment.ComputeResultsHeader{
				Round:        nb.Header.Round,
				PreviousHash: nb.Header.PreviousHash,
			},
		},
	}
	ec.Header.Header.IORoot = &io
	ec.Header.Header.StateRoot = &sr
	ec.Header.Header.MessagesHash = &msgs
	ec.Header.Header.InMessagesHash = &empty
	if err := ec.Sign(n.Signer, rt); err != nil {
		panic(err)
	}
	return ec
}

// TxExecutorCommit wraps commitments for one runtime (any funded account may submit it).
func TxExecutorCommit(nonce uint64, fee *transaction.Fee, rt common.Namespace, ecs ...commitment.ExecutorCommitment) *transaction.Transaction {
	return roothash.NewExecutorCommitTx(nonce, fee, rt, ecs)
}

// RuntimeState reads the roothash state of a runtime at height (0 = latest); nil if unknown.
func (r *Replica) RuntimeState(height int64, id common.Namespace) *roothash.RuntimeState {
	tree, cl, err := r.TreeAt(height)
	if err != nil {
		return nil
	}
	defer cl()
	st, err := roothashState.NewImmutableState(tree).RuntimeState(context.Background(), id)
	if err != nil {
		return nil
	}
	return st
}
