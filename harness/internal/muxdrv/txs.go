package muxdrv

import (
	"crypto/ed25519"
	"crypto/sha512"
	"net"

	beacon "github.com/oasisprotocol/oasis-core/go/beacon/api"
	"github.com/oasisprotocol/oasis-core/go/common/cbor"
	"github.com/oasisprotocol/oasis-core/go/common/crypto/signature"
	"github.com/oasisprotocol/oasis-core/go/common/entity"
	"github.com/oasisprotocol/oasis-core/go/common/node"
	"github.com/oasisprotocol/oasis-core/go/common/quantity"
	"github.com/oasisprotocol/oasis-core/go/consensus/api/transaction"
	"github.com/oasisprotocol/oasis-core/go/common/version"
	governance "github.com/oasisprotocol/oasis-core/go/governance/api"
	upgradeAPI "github.com/oasisprotocol/oasis-core/go/upgrade/api"
	registry "github.com/oasisprotocol/oasis-core/go/registry/api"
	staking "github.com/oasisprotocol/oasis-core/go/staking/api"
)

// Fee builds a fee (amount in base units, gas limit). Fee(0, 0) is valid CBOR but buys no gas.
func Fee(amount uint64, gas uint64) *transaction.Fee {
	return &transaction.Fee{Amount: q(amount), Gas: transaction.Gas(gas)}
}

// DefaultGas is enough for every transaction kind built here under the NewGenesis gas costs.
const DefaultGas = 10_000

// Sign signs a transaction with the regular (chain-separated) context and
// returns the raw bytes that go into a block.
func Sign(k *Key, tx *transaction.Transaction) []byte {
	sigTx, err := transaction.Sign(k.Signer, tx)
	if err != nil {
		panic(err)
	}
	return cbor.Marshal(sigTx)
}

// TxRawContext is the raw signing context of consensus transactions for a chain context.
func TxRawContext(chainContext string) []byte {
	return []byte("oasis-core/consensus: tx for chain " + chainContext)
}

// SignRaw signs a transaction under an ARBITRARY raw context (e.g. another
// chain's context, TxRawContext("deadbeef"), or another domain's context such
// as "oasis-core/registry: register entity"), producing a well-formed envelope
// whose signature does not verify under the chain's tx context.
func SignRaw(k *Key, tx *transaction.Transaction, rawContext []byte) []byte {
	blob := cbor.Marshal(tx)
	h := sha512.New512_256()
	h.Write(rawContext)
	h.Write(blob)
	sig := ed25519.Sign(k.Priv, h.Sum(nil))
	var st transaction.SignedTransaction
	st.Blob = blob
	st.Signature.PublicKey = k.Public()
	copy(st.Signature.Signature[:], sig)
	return cbor.Marshal(&st)
}

// Resign replaces the claimed public key of a signed tx (signature then no longer matches).
func WithSigner(raw []byte, pk signature.PublicKey) []byte {
	var st transaction.SignedTransaction
	if err := cbor.Unmarshal(raw, &st); err != nil {
		return raw
	}
	st.Signature.PublicKey = pk
	return cbor.Marshal(&st)
}

// FlipBit flips bit i (mod 8*len) of a copy of raw.
func FlipBit(raw []byte, i int) []byte {
	out := append([]byte{}, raw...)
	if len(out) == 0 {
		return out
	}
	i %= 8 * len(out)
	out[i/8] ^= 1 << uint(i%8)
	return out
}

// Truncate drops the last n bytes.
func Truncate(raw []byte, n int) []byte {
	if n > len(raw) {
		n = len(raw)
	}
	return append([]byte{}, raw[:len(raw)-n]...)
}

// ---- staking ----

func TxTransfer(nonce uint64, fee *transaction.Fee, to staking.Address, amount uint64) *transaction.Transaction {
	return staking.NewTransferTx(nonce, fee, &staking.Transfer{To: to, Amount: q(amount)})
}

func TxBurn(nonce uint64, fee *transaction.Fee, amount uint64) *transaction.Transaction {
	return staking.NewBurnTx(nonce, fee, &staking.Burn{Amount: q(amount)})
}

func TxAddEscrow(nonce uint64, fee *transaction.Fee, account staking.Address, amount uint64) *transaction.Transaction {
	return staking.NewAddEscrowTx(nonce, fee, &staking.Escrow{Account: account, Amount: q(amount)})
}

func TxReclaimEscrow(nonce uint64, fee *transaction.Fee, account staking.Address, shares uint64) *transaction.Transaction {
	return staking.NewReclaimEscrowTx(nonce, fee, &staking.ReclaimEscrow{Account: account, Shares: q(shares)})
}

func TxAllow(nonce uint64, fee *transaction.Fee, beneficiary staking.Address, negative bool, change uint64) *transaction.Transaction {
	return staking.NewAllowTx(nonce, fee, &staking.Allow{Beneficiary: beneficiary, Negative: negative, AmountChange: q(change)})
}

func TxWithdraw(nonce uint64, fee *transaction.Fee, from staking.Address, amount uint64) *transaction.Transaction {
	return staking.NewWithdrawTx(nonce, fee, &staking.Withdraw{From: from, Amount: q(amount)})
}

// TxAmendCommission amends the schedule with one rate step (and optionally one bound step
// when boundStart > 0).
func TxAmendCommission(nonce uint64, fee *transaction.Fee, rateStart uint64, rate uint64, boundStart, boundMin, boundMax uint64) *transaction.Transaction {
	var cs staking.CommissionSchedule
	cs.Rates = []staking.CommissionRateStep{{Start: beacon.EpochTime(rateStart), Rate: q(rate)}}
	if boundStart > 0 {
		cs.Bounds = []staking.CommissionRateBoundStep{{Start: beacon.EpochTime(boundStart), RateMin: q(boundMin), RateMax: q(boundMax)}}
	}
	return staking.NewAmendCommissionScheduleTx(nonce, fee, &staking.AmendCommissionSchedule{Amendment: cs})
}

// ---- governance ----

// TxSubmitChangeParams submits a change-parameters proposal for the staking module which
// changes the minimum transfer amount (a harmless, always-valid change).
func TxSubmitChangeParams(nonce uint64, fee *transaction.Fee, minTransfer uint64) *transaction.Transaction {
	mt := quantity.NewFromUint64(minTransfer)
	changes := staking.ConsensusParameterChanges{MinTransferAmount: mt}
	return governance.NewSubmitProposalTx(nonce, fee, &governance.ProposalContent{
		Metadata: &governance.ProposalMetadata{Title: "verif change parameters"},
		ChangeParameters: &governance.ChangeParametersProposal{
			Module:  staking.ModuleName,
			Changes: cbor.Marshal(changes),
		},
	})
}

// TxSubmitCancelUpgrade submits a cancel-upgrade proposal (invalid unless such an upgrade is pending).
func TxSubmitCancelUpgrade(nonce uint64, fee *transaction.Fee, proposalID uint64) *transaction.Transaction {
	return governance.NewSubmitProposalTx(nonce, fee, &governance.ProposalContent{
		Metadata:      &governance.ProposalMetadata{Title: "verif cancel upgrade"},
		CancelUpgrade: &governance.CancelUpgradeProposal{ProposalID: proposalID},
	})
}

// UpgradeDescriptor is a valid upgrade descriptor for the running binary (dummy e2e handler).
func UpgradeDescriptor(epoch uint64) upgradeAPI.Descriptor {
	return upgradeAPI.Descriptor{
		Versioned: cbor.NewVersioned(upgradeAPI.LatestDescriptorVersion),
		Handler:   "__e2e-test-valid",
		Target:    version.Versions,
		Epoch:     beacon.EpochTime(epoch),
	}
}

// TxSubmitUpgrade submits an upgrade proposal for the given epoch (must be at least
// UpgradeMinEpochDiff epochs ahead).
func TxSubmitUpgrade(nonce uint64, fee *transaction.Fee, epoch uint64) *transaction.Transaction {
	return governance.NewSubmitProposalTx(nonce, fee, &governance.ProposalContent{
		Metadata: &governance.ProposalMetadata{Title: "verif upgrade"},
		Upgrade:  &governance.UpgradeProposal{Descriptor: UpgradeDescriptor(epoch)},
	})
}

func TxCastVote(nonce uint64, fee *transaction.Fee, id uint64, vote governance.Vote) *transaction.Transaction {
	return governance.NewCastVoteTx(nonce, fee, &governance.ProposalVote{ID: id, Vote: vote})
}

// ---- beacon ----

// TxSetEpoch is only accepted with GenesisOpts.MockEpochs.
func TxSetEpoch(nonce uint64, fee *transaction.Fee, epoch uint64) *transaction.Transaction {
	return transaction.NewTransaction(nonce, fee, beacon.MethodSetEpoch, beacon.EpochTime(epoch))
}

// ---- registry ----

// TxRegisterEntity (re-)registers an entity descriptor signed by its key with the given node list.
func TxRegisterEntity(nonce uint64, fee *transaction.Fee, ent *Key, nodes []signature.PublicKey) *transaction.Transaction {
	e := &entity.Entity{
		Versioned: cbor.NewVersioned(entity.LatestDescriptorVersion),
		ID:        ent.Public(),
		Nodes:     nodes,
	}
	se, err := entity.SignEntity(ent.Signer, registry.RegisterEntitySignatureContext, e)
	if err != nil {
		panic(err)
	}
	return registry.NewRegisterEntityTx(nonce, fee, se)
}

// NodeDescriptor builds the validator node descriptor of v expiring at the given epoch.
func NodeDescriptor(v *Validator, expiration uint64, roles node.RolesMask) *node.Node {
	var consensusAddr, p2pAddr node.Address
	_ = consensusAddr.FromIP(net.ParseIP("127.0.0.1"), 9999)
	_ = p2pAddr.FromIP(net.ParseIP("127.0.0.1"), 9998)
	return &node.Node{
		Versioned:  cbor.NewVersioned(node.LatestNodeDescriptorVersion),
		ID:         v.Node.Public(),
		EntityID:   v.Entity.Public(),
		Expiration: beacon.EpochTime(expiration),
		TLS:        node.TLSInfo{PubKey: v.TLS.Public()},
		P2P:        node.P2PInfo{ID: v.P2P.Public(), Addresses: []node.Address{p2pAddr}},
		Consensus: node.ConsensusInfo{
			ID:        v.Cons.Public(),
			Addresses: []node.ConsensusAddress{{ID: v.Cons.Public(), Address: consensusAddr}},
		},
		VRF:   node.VRFInfo{ID: v.VRF.Public()},
		Roles: roles,
	}
}

// TxRegisterNode builds a node (re-)registration; the tx must be signed by v.Node.
func TxRegisterNode(nonce uint64, fee *transaction.Fee, v *Validator, n *node.Node) *transaction.Transaction {
	signers := []signature.Signer{v.Node.Signer, v.P2P.Signer, v.Cons.Signer, v.VRF.Signer, v.TLS.Signer}
	sn, err := node.MultiSignNode(signers, registry.RegisterNodeSignatureContext, n)
	if err != nil {
		panic(err)
	}
	return registry.NewRegisterNodeTx(nonce, fee, sn)
}

// NewValidator derives a fresh validator identity (entity + node keys) that is not in the genesis.
func NewValidator(seed uint64, i int) *Validator { return newValidator(seed^0x0e77e2, 500+i) }
