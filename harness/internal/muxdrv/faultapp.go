package muxdrv

import (
	"encoding/binary"
	"fmt"
	"sync/atomic"

	"github.com/cometbft/cometbft/abci/types"

	"github.com/oasisprotocol/oasis-core/go/common/cbor"
	"github.com/oasisprotocol/oasis-core/go/consensus/api/transaction"
	"github.com/oasisprotocol/oasis-core/go/consensus/cometbft/api"
	genesis "github.com/oasisprotocol/oasis-core/go/genesis/api"
)

// FaultApp is a small deterministic consensus application that a harness registers with the
// REAL multiplexer (ReplicaConfig.ExtraApps) on every replica of a chain. It counts blocks in
// BeginBlock and sums the operands of "veriffault.Add" transactions (so it writes state).
// Per replica, the harness can arm ONE transient node-local fault:
//
//   - ArmTx(k):    the k-th (1-based) veriffault.Add transaction executed in delivery mode
//     returns api.UnavailableStateError AFTER it wrote state, which the multiplexer turns into
//     a panic (mux.go DeliverTx) -- the documented "unavailable/corrupted state" path;
//   - ArmBegin():  the next BeginBlock returns an error (a panic in the mux) after all the
//     other applications' BeginBlock ran (the name sorts last).
//
// The fault fires once and disarms itself. Being registered through the public Register API it
// needs no hook in the repository.
type FaultApp struct {
	armTx    atomic.Int64 // 0 = disarmed; k = fail at the k-th Add of deliver-mode executions
	armBegin atomic.Bool
	seen     atomic.Int64
	Fired    atomic.Int64
}

// FaultMethodAdd is the transaction method of the application (body: uint64 operand).
var FaultMethodAdd = transaction.NewMethodName("veriffault", "Add", uint64(0))

var (
	faultKeyBlocks = []byte("veriffault/blocks")
	faultKeySum    = []byte("veriffault/sum")
)

func (a *FaultApp) ArmTx(k int) { a.seen.Store(0); a.armTx.Store(int64(k)) }
func (a *FaultApp) ArmBegin()   { a.armBegin.Store(true) }
func (a *FaultApp) Disarm()     { a.armTx.Store(0); a.armBegin.Store(false) }
func (a *FaultApp) Armed() bool { return a.armTx.Load() != 0 || a.armBegin.Load() }

func (a *FaultApp) Name() string                      { return "999_veriffault" }
func (a *FaultApp) ID() uint8                         { return 0xF1 }
func (a *FaultApp) Methods() []transaction.MethodName { return []transaction.MethodName{FaultMethodAdd} }
func (a *FaultApp) Blessed() bool                     { return false }
func (a *FaultApp) Dependencies() []string            { return nil }
func (a *FaultApp) Subscribe()                        {}
func (a *FaultApp) OnCleanup()                        {}
func (a *FaultApp) EndBlock(*api.Context) (types.ResponseEndBlock, error) {
	return types.ResponseEndBlock{}, nil
}

func faultLoad(ctx *api.Context, key []byte) (uint64, error) {
	raw, err := ctx.State().Get(ctx, key)
	if err != nil {
		return 0, api.UnavailableStateError(err)
	}
	if len(raw) != 8 {
		return 0, nil
	}
	return binary.BigEndian.Uint64(raw), nil
}

func faultStore(ctx *api.Context, key []byte, v uint64) error {
	var raw [8]byte
	binary.BigEndian.PutUint64(raw[:], v)
	return api.UnavailableStateError(ctx.State().Insert(ctx, key, raw[:]))
}

func (a *FaultApp) InitChain(ctx *api.Context, _ types.RequestInitChain, _ *genesis.Document) error {
	if err := faultStore(ctx, faultKeyBlocks, 0); err != nil {
		return err
	}
	return faultStore(ctx, faultKeySum, 0)
}

func (a *FaultApp) BeginBlock(ctx *api.Context) error {
	n, err := faultLoad(ctx, faultKeyBlocks)
	if err != nil {
		return err
	}
	if err = faultStore(ctx, faultKeyBlocks, n+1); err != nil {
		return err
	}
	if a.armBegin.CompareAndSwap(true, false) {
		a.Fired.Add(1)
		return fmt.Errorf("veriffault: injected transient fault in BeginBlock")
	}
	return nil
}

func (a *FaultApp) ExecuteTx(ctx *api.Context, tx *transaction.Transaction) error {
	var operand uint64
	if err := cbor.Unmarshal(tx.Body, &operand); err != nil {
		return fmt.Errorf("veriffault: malformed body: %w", err)
	}
	sum, err := faultLoad(ctx, faultKeySum)
	if err != nil {
		return err
	}
	if err = faultStore(ctx, faultKeySum, sum+operand); err != nil {
		return err
	}
	if !ctx.IsCheckOnly() && !ctx.IsSimulation() {
		if k := a.armTx.Load(); k != 0 && a.seen.Add(1) == k {
			a.armTx.Store(0)
			a.Fired.Add(1)
			// a one-off node-local fault (e.g. a failed read from the node database)
			return api.UnavailableStateError(fmt.Errorf("veriffault: injected transient storage fault"))
		}
	}
	ctx.EmitData(sum + operand)
	return nil
}

// TxFaultAdd builds a veriffault.Add transaction.
func TxFaultAdd(nonce uint64, fee *transaction.Fee, operand uint64) *transaction.Transaction {
	return transaction.NewTransaction(nonce, fee, FaultMethodAdd, operand)
}
