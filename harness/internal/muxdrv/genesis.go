package muxdrv

import (
	"crypto/ed25519"
	"crypto/sha512"
	"fmt"
	"math"
	"net"
	"sync"
	"time"

	cmttypes "github.com/cometbft/cometbft/types"
	"github.com/spf13/viper"

	beacon "github.com/oasisprotocol/oasis-core/go/beacon/api"
	"github.com/oasisprotocol/oasis-core/go/common/cbor"
	"github.com/oasisprotocol/oasis-core/go/common/crypto/signature"
	memorySigner "github.com/oasisprotocol/oasis-core/go/common/crypto/signature/signers/memory"
	"github.com/oasisprotocol/oasis-core/go/common/entity"
	"github.com/oasisprotocol/oasis-core/go/common/identity"
	"github.com/oasisprotocol/oasis-core/go/common/node"
	"github.com/oasisprotocol/oasis-core/go/common/quantity"
	"github.com/oasisprotocol/oasis-core/go/consensus/api/transaction"
	cmtapi "github.com/oasisprotocol/oasis-core/go/consensus/cometbft/api"
	cmtcrypto "github.com/oasisprotocol/oasis-core/go/consensus/cometbft/crypto"
	consensusGenesis "github.com/oasisprotocol/oasis-core/go/consensus/genesis"
	genesis "github.com/oasisprotocol/oasis-core/go/genesis/api"
	governance "github.com/oasisprotocol/oasis-core/go/governance/api"
	cmdFlags "github.com/oasisprotocol/oasis-core/go/oasis-node/cmd/common/flags"
	registry "github.com/oasisprotocol/oasis-core/go/registry/api"
	roothash "github.com/oasisprotocol/oasis-core/go/roothash/api"
	scheduler "github.com/oasisprotocol/oasis-core/go/scheduler/api"
	staking "github.com/oasisprotocol/oasis-core/go/staking/api"
	vault "github.com/oasisprotocol/oasis-core/go/vault/api"
)

// Key is a deterministic Ed25519 key: the oasis Signer plus the raw private
// key (so that tx builders can sign under arbitrary raw contexts).
type Key struct {
	Name   string
	Signer signature.Signer
	Priv   ed25519.PrivateKey
}

// Public returns the oasis public key.
func (k *Key) Public() signature.PublicKey { return k.Signer.Public() }

// Address returns the staking address of the key.
func (k *Key) Address() staking.Address { return staking.NewAddress(k.Signer.Public()) }

// NewKey derives a key from a name: seed = SHA-512/256(name). No randomness.
func NewKey(name string) *Key {
	seed := sha512.Sum512_256([]byte(name))
	s, err := memorySigner.NewFromSeed(seed[:])
	if err != nil {
		panic(err)
	}
	return &Key{Name: name, Signer: s, Priv: ed25519.NewKeyFromSeed(seed[:])}
}

// Validator is one genesis validator: an entity with exactly one node.
type Validator struct {
	Index    int
	Entity   *Key
	Node     *Key
	P2P      *Key
	Cons     *Key
	VRF      *Key
	TLS      *Key
	Identity *identity.Identity
	// ConsAddr is the CometBFT address of the consensus key (proposer / voter address).
	ConsAddr []byte
	// Escrow is the genesis self-delegation of the entity (base units).
	Escrow uint64
}

// EntityAddress is the staking address of the validator's entity.
func (v *Validator) EntityAddress() staking.Address { return v.Entity.Address() }

// Account is one funded genesis account.
type Account struct {
	Index   int
	Key     *Key
	Address staking.Address
	Balance uint64
}

// GenesisOpts selects the shape of the generated genesis document. Zero
// values select the defaults named in the comments.
type GenesisOpts struct {
	Validators int // default 4
	Accounts   int // default 10
	// EpochInterval: blocks per epoch for the insecure beacon (default 5). Epoch e
	// starts at height e*EpochInterval (base epoch = 1 at the initial height... see NewGenesis).
	EpochInterval int64
	// MockEpochs selects DebugMockBackend: epochs only advance through
	// beacon.SetEpoch transactions (TxSetEpoch); EpochInterval then only bounds evidence age.
	MockEpochs bool
	// BypassStake sets DebugBypassStake in staking and scheduler (flat voting power 1).
	BypassStake bool
	// DebondingInterval in epochs; 0 = derived from the seed (1 or 2).
	DebondingInterval uint64
	// ConsensusMinGasPrice is the consensus-level minimum gas price parameter (default 0).
	ConsensusMinGasPrice uint64
	// MaxBlockGas (0 = unlimited).
	MaxBlockGas uint64
	// MaxTxSize (0 = default 32768).
	MaxTxSize uint64
	// VotingPeriod of governance in epochs (default 2).
	VotingPeriod uint64
	// EqualEscrow > 0: every validator entity gets exactly this self-escrow and no account
	// delegates to a validator, so all entities tie in stake-ordered elections.
	EqualEscrow uint64
	// MaxValidators of the scheduler (default 100). With fewer than the number of eligible
	// entities the election has a cutoff.
	MaxValidators int
	// NoRewards empties the reward schedule (escrow balances then only change by transactions
	// and slashing, so ties persist across epochs).
	NoRewards bool
	// Mutate, when set, is applied to the document before it is frozen.
	Mutate func(*genesis.Document)
}

// Genesis is a frozen genesis document together with every secret key in it.
type Genesis struct {
	Seed         uint64
	Opts         GenesisOpts
	Doc          *genesis.Document
	Cmt          *cmttypes.GenesisDoc
	ChainContext string
	Validators   []*Validator
	Accounts     []*Account
	Time         time.Time
}

var setupOnce sync.Once

// GenesisTime is the fixed genesis time of all generated documents.
var GenesisTime = time.Date(2024, 1, 2, 3, 4, 5, 0, time.UTC)

// Setup performs the process-wide initialisation (debug flag needed by test
// genesis parameters). It is called by NewGenesis.
func Setup() {
	setupOnce.Do(func() {
		viper.Set(cmdFlags.CfgDebugDontBlameOasis, true)
	})
}

func q(v uint64) quantity.Quantity { return *quantity.NewFromUint64(v) }

func splitmix(x *uint64) uint64 {
	*x += 0x9E3779B97F4A7C15
	z := *x
	z = (z ^ (z >> 30)) * 0xBF58476D1CE4E5B9
	z = (z ^ (z >> 27)) * 0x94D049BB133111EB
	return z ^ (z >> 31)
}

func newValidator(seed uint64, i int) *Validator {
	p := fmt.Sprintf("verif/%d/val/%d/", seed, i)
	v := &Validator{
		Index:  i,
		Entity: NewKey(p + "entity"),
		Node:   NewKey(p + "node"),
		P2P:    NewKey(p + "p2p"),
		Cons:   NewKey(p + "consensus"),
		VRF:    NewKey(p + "vrf"),
		TLS:    NewKey(p + "tls"),
	}
	v.Identity = &identity.Identity{
		NodeSigner:      v.Node.Signer,
		P2PSigner:       v.P2P.Signer,
		ConsensusSigner: v.Cons.Signer,
		VRFSigner:       v.VRF.Signer,
		TLSSigner:       v.TLS.Signer,
	}
	pk := v.Cons.Public()
	v.ConsAddr = []byte(cmtcrypto.PublicKeyToCometBFT(&pk).Address())
	return v
}

// ObserverIdentity returns a deterministic node identity which is NOT part of
// the genesis (a non-validator replica: its own-signer differs from every validator).
func ObserverIdentity(seed uint64, i int) *identity.Identity {
	return newValidator(seed^0x5eed0b5e, 1000+i).Identity
}

// NewGenesis builds a deterministic genesis document from the seed: the same
// (seed, opts) always gives byte-identical documents and keys.
//
// NOTE: the signature chain context is process-global in oasis-core; NewGenesis
// resets it to the new document's context, so only one Genesis can be in use
// at a time in one process.
func NewGenesis(seed uint64, opts GenesisOpts) (*Genesis, error) {
	Setup()
	if opts.Validators <= 0 {
		opts.Validators = 4
	}
	if opts.Accounts <= 0 {
		opts.Accounts = 10
	}
	if opts.EpochInterval <= 0 {
		opts.EpochInterval = 5
	}
	if opts.VotingPeriod == 0 {
		opts.VotingPeriod = 2
	}
	if opts.MaxTxSize == 0 {
		opts.MaxTxSize = 32768
	}
	if opts.MaxValidators <= 0 {
		opts.MaxValidators = 100
	}
	rs := seed*0x9E3779B97F4A7C15 + 0xabcdef
	if opts.DebondingInterval == 0 {
		opts.DebondingInterval = 1 + splitmix(&rs)%2
	}

	g := &Genesis{Seed: seed, Opts: opts, Time: GenesisTime}

	st := staking.Genesis{
		Parameters: staking.ConsensusParameters{
			DebondingInterval: beacon.EpochTime(opts.DebondingInterval),
			Thresholds: map[staking.ThresholdKind]quantity.Quantity{
				staking.KindEntity:            q(100),
				staking.KindNodeValidator:     q(200),
				staking.KindNodeCompute:       q(300),
				staking.KindNodeObserver:      q(50),
				staking.KindNodeKeyManager:    q(500),
				staking.KindRuntimeCompute:    q(600),
				staking.KindRuntimeKeyManager: q(700),
				staking.KindKeyManagerChurp:   q(800),
			},
			RewardSchedule: []staking.RewardStep{
				{Until: 30, Scale: q(2_000_000)}, // 2 % per epoch
				{Until: 1_000_000, Scale: q(500_000)},
			},
			SigningRewardThresholdNumerator:   1,
			SigningRewardThresholdDenominator: 2,
			CommissionScheduleRules: staking.CommissionScheduleRules{
				RateChangeInterval: 1,
				RateBoundLead:      2,
				MaxRateSteps:       4,
				MaxBoundSteps:      4,
			},
			Slashing: map[staking.SlashReason]staking.Slash{
				staking.SlashConsensusEquivocation:     {Amount: q(1000 + splitmix(&rs)%5000), FreezeInterval: 1},
				staking.SlashConsensusLightClientAttack: {Amount: q(700), FreezeInterval: 1},
			},
			GasCosts: transaction.Costs{
				staking.GasOpTransfer:                1000,
				staking.GasOpBurn:                    1000,
				staking.GasOpAddEscrow:               1300,
				staking.GasOpReclaimEscrow:           1300,
				staking.GasOpAmendCommissionSchedule: 1500,
				staking.GasOpAllow:                   1100,
				staking.GasOpWithdraw:                1200,
			},
			MinDelegationAmount:       q(10),
			MinTransferAmount:         q(10),
			MinTransactBalance:        q(0),
			MaxAllowances:             8,
			FeeSplitWeightPropose:     q(2),
			FeeSplitWeightVote:        q(1),
			FeeSplitWeightNextPropose: q(1),
			RewardFactorEpochSigned:   q(1),
			RewardFactorBlockProposed: q(1),
			DebugBypassStake:          opts.BypassStake,
		},
		TokenSymbol: "VERIF",
		TotalSupply: q(0),
		Ledger:      map[staking.Address]*staking.Account{},
		Delegations: map[staking.Address]map[staking.Address]*staking.Delegation{},
		DebondingDelegations: map[staking.Address]map[staking.Address][]*staking.DebondingDelegation{},
	}

	doc := &genesis.Document{
		Height:  1,
		ChainID: fmt.Sprintf("verif-%d", seed),
		Time:    g.Time,
		Beacon: beacon.Genesis{
			Base: 1,
			Parameters: beacon.ConsensusParameters{
				Backend:          beacon.BackendInsecure,
				DebugMockBackend: opts.MockEpochs,
				InsecureParameters: &beacon.InsecureParameters{
					Interval: opts.EpochInterval,
				},
			},
		},
		Registry: registry.Genesis{
			Parameters: registry.ConsensusParameters{
				DebugAllowUnroutableAddresses: true,
				DebugAllowTestRuntimes:        true,
				DebugDeployImmediately:        true,
				MaxNodeExpiration:             1_000_000,
				GasCosts: transaction.Costs{
					registry.GasOpRegisterEntity:   1400,
					registry.GasOpDeregisterEntity: 1400,
					registry.GasOpRegisterNode:     1600,
					registry.GasOpUnfreezeNode:     1200,
					registry.GasOpRegisterRuntime:  2000,
				},
				EnableRuntimeGovernanceModels: map[registry.RuntimeGovernanceModel]bool{
					registry.GovernanceEntity:  true,
					registry.GovernanceRuntime: true,
				},
				TEEFeatures: &node.TEEFeatures{
					SGX:             node.TEEFeaturesSGX{PCS: true},
					FreshnessProofs: true,
				},
			},
		},
		Scheduler: scheduler.Genesis{
			Parameters: scheduler.ConsensusParameters{
				MinValidators:                1,
				MaxValidators:                opts.MaxValidators,
				MaxValidatorsPerEntity:       1,
				DebugBypassStake:             opts.BypassStake,
				RewardFactorEpochElectionAny: q(1),
			},
		},
		Governance: governance.Genesis{
			Parameters: governance.ConsensusParameters{
				GasCosts: transaction.Costs{
					governance.GasOpSubmitProposal: 1700,
					governance.GasOpCastVote:       1100,
				},
				StakeThreshold:                 68,
				UpgradeCancelMinEpochDiff:      3,
				UpgradeMinEpochDiff:            3,
				VotingPeriod:                   beacon.EpochTime(opts.VotingPeriod),
				MinProposalDeposit:             q(100),
				EnableChangeParametersProposal: true,
				AllowVoteWithoutEntity:         false,
				AllowProposalMetadata:          true,
			},
		},
		RootHash: roothash.Genesis{
			Parameters: roothash.ConsensusParameters{
				DebugDoNotSuspendRuntimes: true,
				MaxRuntimeMessages:        32,
				MaxInRuntimeMessages:      32,
			},
		},
		Consensus: consensusGenesis.Genesis{
			Backend: cmtapi.BackendName,
			Parameters: consensusGenesis.Parameters{
				TimeoutCommit:     1 * time.Millisecond,
				SkipTimeoutCommit: true,
				MaxTxSize:         opts.MaxTxSize,
				MaxBlockSize:      21 * 1024 * 1024,
				MaxBlockGas:       transaction.Gas(opts.MaxBlockGas),
				MaxEvidenceSize:   1024 * 1024,
				MinGasPrice:       opts.ConsensusMinGasPrice,
				GasCosts: transaction.Costs{
					consensusGenesis.GasOpTxByte: 1,
				},
			},
		},
		Vault: &vault.Genesis{
			Parameters: vault.DefaultConsensusParameters,
		},
	}

	total := quantity.NewQuantity()
	add := func(v uint64) { _ = total.Add(quantity.NewFromUint64(v)) }

	// Validators: entity + node, self-escrow with distinct stakes.
	var consensusAddr, p2pAddr node.Address
	_ = consensusAddr.FromIP(net.ParseIP("127.0.0.1"), 9999)
	_ = p2pAddr.FromIP(net.ParseIP("127.0.0.1"), 9998)
	for i := 0; i < opts.Validators; i++ {
		v := newValidator(seed, i)
		v.Escrow = 160_000 + 16_000*uint64(i) + 16*(splitmix(&rs)%1000)
		if opts.EqualEscrow > 0 {
			v.Escrow = opts.EqualEscrow
		}
		g.Validators = append(g.Validators, v)

		ent := &entity.Entity{
			Versioned: cbor.NewVersioned(entity.LatestDescriptorVersion),
			ID:        v.Entity.Public(),
			Nodes:     []signature.PublicKey{v.Node.Public()},
		}
		signedEnt, err := entity.SignEntity(v.Entity.Signer, registry.RegisterGenesisEntitySignatureContext, ent)
		if err != nil {
			return nil, fmt.Errorf("sign entity: %w", err)
		}
		doc.Registry.Entities = append(doc.Registry.Entities, signedEnt)

		n := &node.Node{
			Versioned:  cbor.NewVersioned(node.LatestNodeDescriptorVersion),
			ID:         v.Node.Public(),
			EntityID:   ent.ID,
			Expiration: 1_000_000,
			TLS:        node.TLSInfo{PubKey: v.TLS.Public()},
			P2P:        node.P2PInfo{ID: v.P2P.Public(), Addresses: []node.Address{p2pAddr}},
			Consensus: node.ConsensusInfo{
				ID:        v.Cons.Public(),
				Addresses: []node.ConsensusAddress{{ID: v.Cons.Public(), Address: consensusAddr}},
			},
			VRF:   node.VRFInfo{ID: v.VRF.Public()},
			Roles: node.RoleValidator,
		}
		signers := []signature.Signer{v.Node.Signer, v.P2P.Signer, v.Cons.Signer, v.VRF.Signer, v.TLS.Signer}
		signed, err := node.MultiSignNode(signers, registry.RegisterGenesisNodeSignatureContext, n)
		if err != nil {
			return nil, fmt.Errorf("sign node: %w", err)
		}
		doc.Registry.Nodes = append(doc.Registry.Nodes, signed)

		addr := v.Entity.Address()
		bal := uint64(10_000_000)
		st.Ledger[addr] = &staking.Account{
			General: staking.GeneralAccount{Balance: q(bal)},
			Escrow: staking.EscrowAccount{
				Active: staking.SharePool{Balance: q(v.Escrow), TotalShares: q(v.Escrow)},
				CommissionSchedule: staking.CommissionSchedule{
					Rates:  []staking.CommissionRateStep{{Start: 0, Rate: q(uint64(5_000 * (i + 1)))}},
					Bounds: []staking.CommissionRateBoundStep{{Start: 0, RateMin: q(0), RateMax: q(50_000)}},
				},
			},
		}
		st.Delegations[addr] = map[staking.Address]*staking.Delegation{addr: {Shares: q(v.Escrow)}}
		add(bal)
		add(v.Escrow)
	}

	// Funded accounts; a few of them delegate to validators (shares != balance would need
	// a consistent pool, so delegations are added 1:1 to the pool).
	for i := 0; i < opts.Accounts; i++ {
		k := NewKey(fmt.Sprintf("verif/%d/acct/%d", seed, i))
		bal := uint64(1_000_000) + splitmix(&rs)%9_000_000
		if i == opts.Accounts-1 {
			bal = 50 // a nearly empty account
		}
		a := &Account{Index: i, Key: k, Address: k.Address(), Balance: bal}
		g.Accounts = append(g.Accounts, a)
		st.Ledger[a.Address] = &staking.Account{General: staking.GeneralAccount{Balance: q(bal)}}
		add(bal)
		if i%3 == 0 && opts.Validators > 0 && opts.EqualEscrow == 0 {
			v := g.Validators[i%opts.Validators]
			va := v.Entity.Address()
			amt := uint64(1_600 + 160*i)
			acc := st.Ledger[va]
			_ = acc.Escrow.Active.Balance.Add(quantity.NewFromUint64(amt))
			_ = acc.Escrow.Active.TotalShares.Add(quantity.NewFromUint64(amt))
			st.Delegations[va][a.Address] = &staking.Delegation{Shares: q(amt)}
			v.Escrow += amt
			add(amt)
		}
	}

	// Common pool so that rewards can be paid, and a non-zero last block fees would be
	// inconsistent at genesis, so leave it at zero.
	pool := uint64(1_000_000_000)
	st.CommonPool = q(pool)
	add(pool)
	st.TotalSupply = *total
	if total.Cmp(quantity.NewFromUint64(math.MaxInt64)) > 0 {
		return nil, fmt.Errorf("total supply overflow")
	}
	if opts.NoRewards {
		st.Parameters.RewardSchedule = nil
	}
	doc.Staking = st

	if opts.Mutate != nil {
		opts.Mutate(doc)
	}

	g.Doc = doc
	g.ChainContext = doc.ChainContext()
	signature.UnsafeResetChainContext()
	signature.SetChainContext(g.ChainContext)
	cmtDoc, err := cmtapi.GetCometBFTGenesisDocument(doc)
	if err != nil {
		return nil, fmt.Errorf("cometbft genesis: %w", err)
	}
	g.Cmt = cmtDoc
	return g, nil
}

// ValidatorByConsAddr finds the genesis validator with the given CometBFT address.
func (g *Genesis) ValidatorByConsAddr(addr []byte) *Validator {
	for _, v := range g.Validators {
		if string(v.ConsAddr) == string(addr) {
			return v
		}
	}
	return nil
}
