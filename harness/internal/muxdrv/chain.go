package muxdrv

import (
	"bytes"
	"crypto/sha256"
	"sort"
	"time"

	"github.com/cometbft/cometbft/abci/types"
)

// Val is a member of a CometBFT validator set as tracked by the driver.
type Val struct {
	PubKey  []byte // Ed25519 consensus public key
	Address []byte // CometBFT address = SHA-256(pubkey)[:20]
	Power   int64
}

func cmtAddress(pub []byte) []byte {
	h := sha256.Sum256(pub)
	return h[:20]
}

// Chain does the bookkeeping CometBFT would do around the application:
// heights, block times and the validator set in force at every height
// (updates returned by EndBlock at height H take effect at H+2; the
// LastCommitInfo of block H lists the validator set of H-1).
type Chain struct {
	G         *Genesis
	Next      int64 // height of the next block to build
	BlockTime time.Duration
	sets      map[int64][]Val
}

// NewChain starts the bookkeeping at the genesis validator set.
func NewChain(g *Genesis) *Chain {
	c := &Chain{G: g, Next: g.Doc.Height, BlockTime: 6 * time.Second, sets: map[int64][]Val{}}
	var vs []Val
	for _, v := range g.Cmt.Validators {
		pub := v.PubKey.Bytes()
		vs = append(vs, Val{PubKey: append([]byte{}, pub...), Address: cmtAddress(pub), Power: v.Power})
	}
	sortVals(vs)
	c.sets[g.Doc.Height] = vs
	c.sets[g.Doc.Height+1] = vs
	return c
}

func sortVals(vs []Val) {
	sort.Slice(vs, func(i, j int) bool {
		if vs[i].Power != vs[j].Power {
			return vs[i].Power > vs[j].Power
		}
		return bytes.Compare(vs[i].Address, vs[j].Address) < 0
	})
}

// ValidatorsAt returns the validator set in force at the height.
func (c *Chain) ValidatorsAt(h int64) []Val {
	for ; h >= c.G.Doc.Height; h-- {
		if s, ok := c.sets[h]; ok {
			return s
		}
	}
	return nil
}

// TimeAt is the deterministic block time of a height.
func (c *Chain) TimeAt(h int64) time.Time {
	return c.G.Time.Add(time.Duration(h-c.G.Doc.Height+1) * c.BlockTime)
}

// VotePattern decides, for the i-th validator of the previous height's set, whether it signed.
type VotePattern func(i int, v Val) bool

// Ready-made vote patterns.
var (
	VotesAll  VotePattern = func(int, Val) bool { return true }
	VotesNone VotePattern = func(int, Val) bool { return false }
)

// VotesMask signs iff bit i of mask is set.
func VotesMask(mask uint64) VotePattern {
	return func(i int, _ Val) bool { return mask>>(uint(i)%64)&1 == 1 }
}

// VotesAllBut leaves out the validators with the given addresses.
func VotesAllBut(absent ...[]byte) VotePattern {
	return func(_ int, v Val) bool {
		for _, a := range absent {
			if bytes.Equal(a, v.Address) {
				return false
			}
		}
		return true
	}
}

// CommitInfo builds the LastCommitInfo of block h (votes of the set of h-1);
// empty for the initial height.
func (c *Chain) CommitInfo(h int64, p VotePattern) types.CommitInfo {
	ci := types.CommitInfo{}
	if h <= c.G.Doc.Height {
		return ci
	}
	for i, v := range c.ValidatorsAt(h - 1) {
		ci.Votes = append(ci.Votes, types.VoteInfo{
			Validator:       types.Validator{Address: v.Address, Power: v.Power},
			SignedLastBlock: p(i, v),
		})
	}
	return ci
}

// DuplicateVote builds duplicate-vote evidence against an address (known or not)
// said to have happened at evHeight.
func (c *Chain) DuplicateVote(addr []byte, power int64, evHeight int64) types.Misbehavior {
	var total int64
	for _, v := range c.ValidatorsAt(evHeight) {
		total += v.Power
	}
	return types.Misbehavior{
		Type:             types.MisbehaviorType_DUPLICATE_VOTE,
		Validator:        types.Validator{Address: addr, Power: power},
		Height:           evHeight,
		Time:             c.TimeAt(evHeight),
		TotalVotingPower: total,
	}
}

// UnknownAddress is a deterministic 20-byte address that belongs to no validator.
func UnknownAddress(tag uint64) []byte {
	h := sha256.Sum256([]byte{byte(tag), byte(tag >> 8), 'u', 'n', 'k'})
	return h[:20]
}

// NewBlock builds the input of the next block.
func (c *Chain) NewBlock(proposer []byte, votes VotePattern, misbehavior []types.Misbehavior) *BlockInput {
	h := c.Next
	return &BlockInput{
		Height:      h,
		Time:        c.TimeAt(h),
		Proposer:    proposer,
		LastCommit:  c.CommitInfo(h, votes),
		Misbehavior: misbehavior,
	}
}

// Applied records the result of block res.Height: advances the height and
// schedules the validator updates for height+2.
func (c *Chain) Applied(res *BlockResult) {
	h := res.Height
	cur := c.ValidatorsAt(h + 1)
	next := make([]Val, 0, len(cur))
	upd := map[string]int64{}
	for _, u := range res.ValidatorUpdates {
		upd[string(u.PubKey)] = u.Power
	}
	for _, v := range cur {
		if p, ok := upd[string(v.PubKey)]; ok {
			delete(upd, string(v.PubKey))
			if p == 0 {
				continue
			}
			v.Power = p
		}
		next = append(next, v)
	}
	for _, u := range res.ValidatorUpdates {
		if p, ok := upd[string(u.PubKey)]; ok && p > 0 {
			next = append(next, Val{PubKey: append([]byte{}, u.PubKey...), Address: cmtAddress(u.PubKey), Power: p})
			delete(upd, string(u.PubKey))
		}
	}
	sortVals(next)
	c.sets[h+2] = next
	if _, ok := c.sets[h+1]; !ok {
		c.sets[h+1] = cur
	}
	c.Next = h + 1
}
