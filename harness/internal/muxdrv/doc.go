// Package muxdrv drives the REAL oasis-core ABCI multiplexer
// (go/consensus/cometbft/abci) with all real consensus apps registered
// (beacon, governance, keymanager, registry, roothash, scheduler, staking,
// vault, optionally supplementarysanity) from a harness, without CometBFT.
// The driver plays CometBFT's role: it feeds InitChain, PrepareProposal,
// ProcessProposal, BeginBlock, DeliverTx, EndBlock, Commit, CheckTx.
//
// Everything is deterministic: all keys are derived from names
// (SHA-512/256("verif/<seed>/...")), genesis time is fixed, block times and
// block hashes are functions of the height/content. The same (seed, opts)
// gives byte-identical genesis documents, and the same block inputs give the
// same AppHash in every process.
//
// Overview (see README.md for a usage example):
//
//	g, _  := NewGenesis(seed, GenesisOpts{})            // 4 validators, 10 accounts, epoch = 5 blocks
//	r, _  := NewReplica(g, ReplicaConfig{Identity: g.Validators[0].Identity})
//	c     := NewChain(g)                                // heights, times, validator sets, commit infos
//	in    := c.NewBlock(g.Validators[0].ConsAddr, VotesAll, nil)
//	txs,_ := r.Propose(in, [][]byte{Sign(g.Accounts[0].Key, TxTransfer(0, Fee(10, DefaultGas), to, 100))})
//	res,_ := r.Process(in, txs)                         // or other.Replay(in, txs) on another replica
//	c.Applied(res)
//
// Types
//
//   - Genesis{Doc, Cmt, ChainContext, Validators []*Validator, Accounts []*Account}.
//     Validator = entity key + node/p2p/consensus/vrf/tls keys + identity + ConsAddr
//     (CometBFT address = proposer/voter address) + genesis self-escrow.
//     Account = Key + Address + genesis Balance. Key = {Signer, Priv} (raw
//     ed25519 key kept so that SignRaw can sign under any context).
//   - GenesisOpts: Validators, Accounts, EpochInterval (insecure beacon, epoch e
//     starts at height e*EpochInterval, base epoch 1), MockEpochs
//     (DebugMockBackend: epochs advance only with TxSetEpoch), BypassStake,
//     DebondingInterval, ConsensusMinGasPrice, MaxBlockGas, MaxTxSize,
//     VotingPeriod, EqualEscrow (all validator entities tie in stake), MaxValidators
//     (election cutoff), NoRewards, Mutate(doc).
//     Staking parameters are non-trivial: fee split 2/1/1, reward schedule,
//     signing threshold 1/2, slashing with freeze, commission rules and
//     per-validator schedules, thresholds, gas costs per op; stake is NOT
//     bypassed by default so voting power follows escrow (power = escrow/16).
//   - ReplicaConfig (LOCAL config): DataDir, Backend ("pathbadger"/"badger"),
//     OnDisk, PruneKeepN, PruneInterval, MinGasPrice, Identity,
//     SanityInterval (supplementarysanity app), AppOrderSeed (shuffles the app
//     REGISTRATION order), Checkpointer.
//   - BlockInput{Height, Time, Proposer, LastCommit, Misbehavior, Hash}.
//   - BlockResult{Height, AppHash, TxResults[{Code, Codespace, Data, GasUsed,
//     GasWanted, Log, Events}], ValidatorUpdates (sorted), MetaTx (body of the
//     block-metadata system tx), BeginEvents, EndEvents, RetainHeight, Path}.
//
// Execution paths (all recover panics of the implementation and return them
// as *PanicError; after a panic the replica should be discarded):
//
//   - (*Replica).Propose(in, candidateTxs) -> tx list incl. the block-metadata
//     system tx (PrepareProposal; results are cached inside the mux). The
//     replica's Identity must own the consensus key of in.Proposer, because
//     validators check that the metadata tx is signed by the proposer.
//   - (*Replica).Process(in, txs) = ProcessProposal + BeginBlock/DeliverTx*/
//     EndBlock/Commit. On the proposer the cached results are reused.
//     REJECT is returned as an error. ProcessProposal(in, txs) alone is also exported.
//   - (*Replica).Replay(in, txs) = BeginBlock/DeliverTx*/EndBlock/Commit only.
//     NOTE: the tx list must contain the proposer's metadata tx (EndBlock
//     panics with "missing required block metadata" otherwise).
//   - (*Replica).Restart(newCfgOrNil): stop the server, boot a new one on the
//     same data dir (OnDisk replicas), continuing at the committed height.
//   - (*Replica).CheckTx(raw, recheck), EstimateGas(caller, tx).
//     ABCI calls are serialised by one mutex exactly like CometBFT's local
//     client does, so CheckTx from another goroutine interleaves between
//     DeliverTx calls; EstimateGas and the queries run truly concurrently.
//
// Queries / dumps (height 0 = latest committed): DumpState (all MKVS pairs,
// sorted, hex), DiffKV, DumpStaking (typed ledger dump with decimal strings),
// (*Replica).Account, Epoch, Proposals, CurrentValidators, TreeAt, AppHash,
// LastHeight.
//
// Chain bookkeeping: NewChain, (*Chain).NewBlock, Applied, ValidatorsAt,
// CommitInfo, TimeAt, DuplicateVote, UnknownAddress; vote patterns VotesAll,
// VotesNone, VotesMask, VotesAllBut.
//
// Transactions: Fee, Sign, SignRaw (any raw signing context, e.g.
// TxRawContext("otherchain") or another domain's context), WithSigner,
// FlipBit, Truncate; TxTransfer, TxBurn, TxAddEscrow, TxReclaimEscrow,
// TxAllow, TxWithdraw, TxAmendCommission, TxSubmitChangeParams,
// TxSubmitCancelUpgrade, TxCastVote, TxSetEpoch, TxRegisterEntity,
// NodeDescriptor + TxRegisterNode, NewValidator (a fresh identity not in the
// genesis). All take arbitrary nonce / fee / gas so that invalid variants can
// be produced.
//
// Upgrades (upgrade.go): ReplicaConfig.Upgrade = &UpgradeSpec{AtHeight: h} gives the server a mock
// upgrade backend with a consensus upgrade due once height h is committed (its migration runs
// in block h+1: nothing in BeginBlock, MaxTxSize++ in EndBlock, like migrations/dummy.go).
// It is consensus-relevant: use the same spec on every replica. nil = no upgrader (as before).
//
// ReplicaConfig.UpgradeManager = true instead wires the REAL node-local upgrade manager
// (go/upgrade.New over a persistent store in the data dir; reopened with checkStatus on
// Restart); (*Replica).Upgrader() returns it (e.g. to pre-submit a descriptor like an operator
// would). TxSubmitUpgrade / UpgradeDescriptor build a governance upgrade proposal.
//
// Watchdogs: (*Replica).CurrentCall() names the ABCI call in progress ("DeliverTx[3]", "Commit",
// ...) and may be read from another goroutine. UpgradeSpec.NewMaxTxSize makes the mock migration
// set MaxTxSize (an in-block consensus parameter change) instead of incrementing it.
//
// Fault injection (faultapp.go): ReplicaConfig.ExtraApps registers additional applications with
// the real mux; *FaultApp is a small counting application (method veriffault.Add, TxFaultAdd)
// that can be armed per replica (ArmTx(k) / ArmBegin()) to fail ONCE with
// api.UnavailableStateError after writing state -- a panic inside the mux that
// Prepare/ProcessProposal recover from. Register an instance on every replica of a chain.
//
// Runtimes (runtime.go): RuntimeID, RuntimeDescriptor, TxRegisterRuntime, ComputeNode
// (an extra node of an existing entity), ExecutorCommit + TxExecutorCommit (finalizes a
// round of a one-worker runtime), (*Replica).RuntimeState.
//
// Caveats: do not combine memory-only storage with PruneKeepN > 0 (the pruner
// goroutine crashes in Badger's in-memory Sync); Restart before the first
// commit re-runs InitChain. The signature chain context is a process-wide global in oasis-core.
// NewGenesis resets it, so one process can use only one Genesis at a time
// (sequentially several are fine).
package muxdrv
