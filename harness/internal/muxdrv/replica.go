package muxdrv

import (
	"bytes"
	"context"
	"crypto/sha256"
	"encoding/binary"
	"fmt"
	"os"
	"runtime/debug"
	"sort"
	"sync"
	"sync/atomic"
	"time"

	"github.com/cometbft/cometbft/abci/types"
	cmtproto "github.com/cometbft/cometbft/proto/tendermint/types"

	"github.com/oasisprotocol/oasis-core/go/common/cbor"
	"github.com/oasisprotocol/oasis-core/go/common/crypto/signature"
	"github.com/oasisprotocol/oasis-core/go/common/identity"
	"github.com/oasisprotocol/oasis-core/go/consensus/api/transaction"
	"github.com/oasisprotocol/oasis-core/go/consensus/cometbft/abci"
	"github.com/oasisprotocol/oasis-core/go/consensus/cometbft/api"
	beaconApp "github.com/oasisprotocol/oasis-core/go/consensus/cometbft/apps/beacon"
	governanceApp "github.com/oasisprotocol/oasis-core/go/consensus/cometbft/apps/governance"
	keymanagerApp "github.com/oasisprotocol/oasis-core/go/consensus/cometbft/apps/keymanager"
	registryApp "github.com/oasisprotocol/oasis-core/go/consensus/cometbft/apps/registry"
	roothashApp "github.com/oasisprotocol/oasis-core/go/consensus/cometbft/apps/roothash"
	schedulerApp "github.com/oasisprotocol/oasis-core/go/consensus/cometbft/apps/scheduler"
	stakingApp "github.com/oasisprotocol/oasis-core/go/consensus/cometbft/apps/staking"
	"github.com/oasisprotocol/oasis-core/go/consensus/cometbft/apps/supplementarysanity"
	vaultApp "github.com/oasisprotocol/oasis-core/go/consensus/cometbft/apps/vault"
	tmbeacon "github.com/oasisprotocol/oasis-core/go/consensus/cometbft/beacon"
	tmroothash "github.com/oasisprotocol/oasis-core/go/consensus/cometbft/roothash"
	"github.com/oasisprotocol/oasis-core/go/common/persistent"
	upgradeBackend "github.com/oasisprotocol/oasis-core/go/upgrade"
	upgrade "github.com/oasisprotocol/oasis-core/go/upgrade/api"
)

// ReplicaConfig is the LOCAL configuration of one replica. Nothing in it may
// influence block results (that is property C01).
type ReplicaConfig struct {
	Name string
	// DataDir: "" = a fresh temp dir owned (and removed on Close) by the replica.
	DataDir string
	// Backend: "pathbadger" (default) or "badger".
	Backend string
	// OnDisk = false selects MemoryOnlyStorage (no Restart possible).
	OnDisk bool
	// PruneKeepN > 0 selects the keep-N pruner; 0 = no pruning.
	PruneKeepN uint64
	// PruneInterval of the pruner goroutine (default 20ms when pruning, 1s otherwise).
	PruneInterval time.Duration
	// MinGasPrice is the node-local minimum gas price (CheckTx only).
	MinGasPrice uint64
	// Identity is the own-signer identity; nil = ObserverIdentity(seed, 0).
	Identity *identity.Identity
	// SanityInterval: run the supplementarysanity app every N blocks (0 = not registered).
	SanityInterval int64
	// AppOrderSeed != 0 registers the apps in a pseudo-random order derived from it.
	AppOrderSeed uint64
	// Checkpointer enables the checkpointer goroutine.
	Checkpointer bool
	// Upgrade, when set, gives the server an upgrade backend with this preloaded consensus
	// upgrade (NOT local configuration: it must be the same on every replica). nil = no upgrader.
	Upgrade *UpgradeSpec
	// UpgradeManager gives the server the REAL node-local upgrade manager (go/upgrade.New over a
	// persistent store in the data dir). Its on-disk descriptor store is node-LOCAL mutable
	// state: it survives Restart and is written even by block executions that never commit.
	// Mutually exclusive with Upgrade.
	UpgradeManager bool
	// ExtraApps are registered with the multiplexer in addition to the real applications
	// (consensus-relevant: use equivalent ones on every replica), e.g. a *FaultApp.
	ExtraApps []api.Application
}

// Replica is one ABCI application server with all real apps registered.
type Replica struct {
	G   *Genesis
	Cfg ReplicaConfig

	Srv *abci.ApplicationServer
	Mux types.Application

	ctx     context.Context
	cancel  context.CancelFunc
	ownsDir bool

	// abciMu serialises the ABCI calls like CometBFT's local client does (one mutex for
	// all four connections). EstimateGas and state queries do NOT take it.
	abciMu sync.Mutex
	// srvMu protects the Srv pointer: queries/EstimateGas hold it shared, Restart/Close exclusively.
	srvMu sync.RWMutex

	Height   int64 // last committed height (0 = only InitChain done)
	boots    int
	stage    atomic.Value // string: the ABCI call in progress (for watchdogs)
	upgStore *persistent.CommonStore
	upgMgr   upgrade.Backend
	// RegOrder lists the app names in the order they were registered at the last boot.
	RegOrder []string
	Restarts int
}

// PanicError is returned when the implementation panicked inside an ABCI call.
type PanicError struct {
	Where string
	Value string
	Stack string
}

func (e *PanicError) Error() string { return "panic in " + e.Where + ": " + e.Value }

// TxResult is the projection of ResponseDeliverTx that replicas must agree on.
type TxResult struct {
	Code      uint32  `json:"code"`
	Codespace string  `json:"codespace,omitempty"`
	Data      []byte  `json:"data,omitempty"`
	GasUsed   int64   `json:"gas_used"`
	GasWanted int64   `json:"gas_wanted"`
	Log       string  `json:"log,omitempty"`
	Events    []Event `json:"events,omitempty"`
}

// Event is an ABCI event as (type, key=value...) strings.
type Event struct {
	Type  string      `json:"type"`
	Attrs [][2]string `json:"attrs,omitempty"`
}

// ValUpdate is a validator update (Ed25519 public key, power).
type ValUpdate struct {
	PubKey []byte `json:"pub_key"`
	Power  int64  `json:"power"`
}

// BlockResult is everything observable about the execution of one block.
type BlockResult struct {
	Height           int64       `json:"height"`
	AppHash          []byte      `json:"app_hash"`
	TxResults        []TxResult  `json:"tx_results"`
	ValidatorUpdates []ValUpdate `json:"validator_updates"` // sorted by key
	MetaTx           []byte      `json:"meta_tx"`           // body of the block-metadata tx (CBOR), nil if none
	BeginEvents      []Event     `json:"begin_events,omitempty"`
	EndEvents        []Event     `json:"end_events,omitempty"`
	RetainHeight     int64       `json:"retain_height"`
	Path             string      `json:"path"`
}

// BlockInput is the consensus-determined content of one block.
type BlockInput struct {
	Height      int64
	Time        time.Time
	Proposer    []byte // CometBFT address of the proposer's consensus key
	LastCommit  types.CommitInfo
	Misbehavior []types.Misbehavior
	// Hash is the block hash handed to ProcessProposal/BeginBlock; nil = BlockHash(in, txs).
	Hash []byte
}

// BlockHash is a deterministic stand-in for the CometBFT block hash.
func BlockHash(in *BlockInput, txs [][]byte) []byte {
	h := sha256.New()
	var b [8]byte
	binary.BigEndian.PutUint64(b[:], uint64(in.Height))
	h.Write(b[:])
	binary.BigEndian.PutUint64(b[:], uint64(in.Time.UnixNano()))
	h.Write(b[:])
	h.Write(in.Proposer)
	for _, tx := range txs {
		binary.BigEndian.PutUint64(b[:], uint64(len(tx)))
		h.Write(b[:])
		h.Write(tx)
	}
	for _, v := range in.LastCommit.Votes {
		h.Write(v.Validator.Address)
		if v.SignedLastBlock {
			h.Write([]byte{1})
		} else {
			h.Write([]byte{0})
		}
	}
	for _, m := range in.Misbehavior {
		h.Write(m.Validator.Address)
		binary.BigEndian.PutUint64(b[:], uint64(m.Height))
		h.Write(b[:])
	}
	return h.Sum(nil)
}

// NewReplica boots an application server on the genesis (InitChain included).
func NewReplica(g *Genesis, cfg ReplicaConfig) (*Replica, error) {
	if cfg.Backend == "" {
		cfg.Backend = "pathbadger"
	}
	if cfg.Identity == nil {
		cfg.Identity = ObserverIdentity(g.Seed, 0)
	}
	r := &Replica{G: g, Cfg: cfg}
	if cfg.DataDir == "" {
		d, err := os.MkdirTemp("", "muxdrv-")
		if err != nil {
			return nil, err
		}
		r.Cfg.DataDir = d
		r.ownsDir = true
	}
	if err := r.boot(); err != nil {
		r.Close()
		return nil, err
	}
	if err := r.initChain(); err != nil {
		r.Close()
		return nil, err
	}
	return r, nil
}

func (r *Replica) boot() (err error) {
	defer func() {
		if p := recover(); p != nil {
			err = &PanicError{Where: "boot", Value: fmt.Sprint(p), Stack: string(debug.Stack())}
		}
	}()
	cfg := r.Cfg
	pr := abci.PruneConfig{Strategy: abci.PruneNone, PruneInterval: time.Second}
	if cfg.PruneKeepN > 0 {
		pr = abci.PruneConfig{Strategy: abci.PruneKeepN, NumKept: cfg.PruneKeepN, PruneInterval: 20 * time.Millisecond}
	}
	if cfg.PruneInterval > 0 {
		pr.PruneInterval = cfg.PruneInterval
	}
	r.ctx, r.cancel = context.WithCancel(context.Background())
	var upgrader upgrade.Backend
	if cfg.Upgrade != nil {
		upgrader = &mockUpgrader{spec: *cfg.Upgrade}
	} else if cfg.UpgradeManager {
		store, err := persistent.NewCommonStore(cfg.DataDir)
		if err != nil {
			return fmt.Errorf("persistent store: %w", err)
		}
		// checkStatus = true after the first boot, like a restarting node
		upgrader, err = upgradeBackend.New(store, cfg.DataDir, r.boots > 0)
		if err != nil {
			store.Close()
			return fmt.Errorf("upgrade manager: %w", err)
		}
		r.upgStore, r.upgMgr = store, upgrader
	}
	r.boots++
	srv, err := abci.NewApplicationServer(r.ctx, upgrader, &abci.ApplicationConfig{
		DataDir:                   cfg.DataDir,
		StorageBackend:            cfg.Backend,
		Pruning:                   pr,
		MinGasPrice:               cfg.MinGasPrice,
		DisableCheckpointer:       !cfg.Checkpointer,
		CheckpointerCheckInterval: 50 * time.Millisecond,
		Identity:                  cfg.Identity,
		MemoryOnlyStorage:         !cfg.OnDisk,
		InitialHeight:             r.G.Doc.Height,
		ChainContext:              r.G.ChainContext,
	})
	if err != nil {
		return fmt.Errorf("NewApplicationServer: %w", err)
	}
	r.Srv = srv
	state := srv.State()
	md := srv.MessageDispatcher()

	sApp := stakingApp.New(state, md)
	apps := []api.Application{
		beaconApp.New(),
		governanceApp.New(state, md),
		keymanagerApp.New(state),
		registryApp.New(state, md),
		roothashApp.New(state, md, tmroothash.New(nil, tmroothash.NewStateQueryFactory(state))),
		schedulerApp.New(state, md),
		sApp,
		vaultApp.New(state, md),
	}
	if cfg.SanityInterval > 0 {
		apps = append(apps, supplementarysanity.New(state, cfg.SanityInterval))
	}
	apps = append(apps, cfg.ExtraApps...)
	if cfg.AppOrderSeed != 0 {
		s := cfg.AppOrderSeed
		for i := len(apps) - 1; i > 0; i-- {
			j := int(splitmix(&s) % uint64(i+1))
			apps[i], apps[j] = apps[j], apps[i]
		}
	}
	r.RegOrder = nil
	for _, a := range apps {
		r.RegOrder = append(r.RegOrder, a.Name())
		if err := srv.Register(a); err != nil {
			return fmt.Errorf("register %s: %w", a.Name(), err)
		}
		a.Subscribe()
	}
	if err := srv.SetEpochtime(tmbeacon.New(r.G.Doc.Beacon.Base, r.G.Doc.Height, nil, tmbeacon.NewStateQueryFactory(state))); err != nil {
		return err
	}
	if err := srv.SetTransactionAuthHandler(sApp); err != nil {
		return err
	}
	if err := srv.Start(); err != nil {
		return fmt.Errorf("start: %w", err)
	}
	r.Mux = srv.Mux()
	return nil
}

func (r *Replica) initChain() (err error) {
	defer func() {
		if p := recover(); p != nil {
			err = &PanicError{Where: "InitChain", Value: fmt.Sprint(p), Stack: string(debug.Stack())}
		}
	}()
	r.abciMu.Lock()
	defer r.abciMu.Unlock()
	return r.initChainLocked()
}

func (r *Replica) initChainLocked() (err error) {
	defer func() {
		if p := recover(); p != nil {
			err = &PanicError{Where: "InitChain", Value: fmt.Sprint(p), Stack: string(debug.Stack())}
		}
	}()
	var vals []types.ValidatorUpdate
	for _, v := range r.G.Cmt.Validators {
		vals = append(vals, types.UpdateValidator(v.PubKey.Bytes(), v.Power, ""))
	}
	r.Mux.InitChain(types.RequestInitChain{
		Time:            r.G.Doc.Time,
		ChainId:         r.G.Cmt.ChainID,
		AppStateBytes:   r.G.Cmt.AppState,
		InitialHeight:   r.G.Doc.Height,
		ConsensusParams: &cmtproto.ConsensusParams{},
		Validators:      vals,
	})
	r.Height = 0
	return nil
}

// Close stops the server and removes a temp data dir owned by the replica.
func (r *Replica) Close() {
	r.srvMu.Lock()
	defer r.srvMu.Unlock()
	r.stop()
	if r.ownsDir && r.Cfg.DataDir != "" {
		_ = os.RemoveAll(r.Cfg.DataDir)
	}
}

// Upgrader returns the server's upgrade backend (nil if none is configured).
func (r *Replica) Upgrader() upgrade.Backend {
	if r.Srv == nil {
		return nil
	}
	return r.Srv.State().Upgrader()
}

func (r *Replica) stop() {
	defer func() {
		if r.upgMgr != nil {
			func() {
				defer func() { _ = recover() }()
				r.upgMgr.Close()
				r.upgStore.Close()
			}()
			r.upgMgr, r.upgStore = nil, nil
		}
	}()
	if r.Srv != nil {
		func() {
			defer func() { _ = recover() }()
			r.Srv.Stop()
			r.Srv.Cleanup()
		}()
		r.Srv = nil
	}
	if r.cancel != nil {
		r.cancel()
	}
}

// Restart stops the server and boots a new one on the same data dir; the new
// server continues at the committed height. Only for OnDisk replicas. A
// different local config may be supplied (nil = keep).
func (r *Replica) Restart(newCfg *ReplicaConfig) error {
	if !r.Cfg.OnDisk {
		return fmt.Errorf("Restart: replica %s is memory-only", r.Cfg.Name)
	}
	r.abciMu.Lock()
	defer r.abciMu.Unlock()
	r.srvMu.Lock()
	defer r.srvMu.Unlock()
	r.stop()
	if newCfg != nil {
		dir := r.Cfg.DataDir
		r.Cfg = *newCfg
		r.Cfg.DataDir = dir
		r.Cfg.OnDisk = true
		if r.Cfg.Backend == "" {
			r.Cfg.Backend = "pathbadger"
		}
		if r.Cfg.Identity == nil {
			r.Cfg.Identity = ObserverIdentity(r.G.Seed, 0)
		}
	}
	if err := r.boot(); err != nil {
		return err
	}
	r.Restarts++
	if r.Height == 0 {
		// Nothing was committed yet: like CometBFT's handshake, InitChain has to run again.
		return r.initChainLocked()
	}
	info := r.Mux.Info(types.RequestInfo{})
	if r.Height > 0 && info.LastBlockHeight != r.G.Doc.Height+r.Height-1 {
		return fmt.Errorf("Restart: reloaded height %d, expected %d", info.LastBlockHeight, r.G.Doc.Height+r.Height-1)
	}
	return nil
}

// CurrentCall names the ABCI call this replica is executing right now ("" if none), e.g.
// "DeliverTx[3]" or "Commit"; safe to call from another goroutine (for watchdogs).
func (r *Replica) CurrentCall() string {
	if v, ok := r.stage.Load().(string); ok {
		return v
	}
	return ""
}

func (r *Replica) enter(call string) { r.stage.Store(call) }

// AppHash returns the committed state root (nil before the first block).
func (r *Replica) AppHash() []byte {
	return r.Mux.Info(types.RequestInfo{}).LastBlockAppHash
}

func (r *Replica) guard(where string, err *error) {
	if p := recover(); p != nil {
		*err = &PanicError{Where: where, Value: fmt.Sprint(p), Stack: string(debug.Stack())}
	}
}

func (in *BlockInput) header() cmtproto.Header {
	return cmtproto.Header{Height: in.Height, Time: in.Time, ProposerAddress: in.Proposer}
}

// Propose runs PrepareProposal on this replica (which should own the proposer's
// consensus key: validators check that the block-metadata tx is signed by the
// proposer). It returns the block's tx list including the metadata system tx.
// An empty list means the implementation refused to build a proposal.
func (r *Replica) Propose(in *BlockInput, candidates [][]byte) (txs [][]byte, err error) {
	defer r.guard("PrepareProposal", &err)
	r.abciMu.Lock()
	defer r.abciMu.Unlock()
	ext := types.ExtendedCommitInfo{Round: in.LastCommit.Round}
	for _, v := range in.LastCommit.Votes {
		ext.Votes = append(ext.Votes, types.ExtendedVoteInfo{Validator: v.Validator, SignedLastBlock: v.SignedLastBlock})
	}
	r.enter("PrepareProposal")
	defer r.enter("")
	resp := r.Mux.PrepareProposal(types.RequestPrepareProposal{
		MaxTxBytes:      int64(r.G.Doc.Consensus.Parameters.MaxBlockSize),
		Txs:             candidates,
		LocalLastCommit: ext,
		Misbehavior:     in.Misbehavior,
		Height:          in.Height,
		Time:            in.Time,
		ProposerAddress: in.Proposer,
	})
	return resp.Txs, nil
}

// ProcessProposal runs only ProcessProposal and reports ACCEPT (true) / REJECT.
func (r *Replica) ProcessProposal(in *BlockInput, txs [][]byte) (accept bool, err error) {
	defer r.guard("ProcessProposal", &err)
	r.abciMu.Lock()
	defer r.abciMu.Unlock()
	hash := in.Hash
	if hash == nil {
		hash = BlockHash(in, txs)
	}
	r.enter("ProcessProposal")
	defer r.enter("")
	resp := r.Mux.ProcessProposal(types.RequestProcessProposal{
		Txs:                txs,
		ProposedLastCommit: in.LastCommit,
		Misbehavior:        in.Misbehavior,
		Hash:               hash,
		Height:             in.Height,
		Time:               in.Time,
		ProposerAddress:    in.Proposer,
	})
	return resp.Status == types.ResponseProcessProposal_ACCEPT, nil
}

// Process = ProcessProposal, then BeginBlock / DeliverTx* / EndBlock / Commit
// (what a validator does; on the proposer the cached results are reused).
func (r *Replica) Process(in *BlockInput, txs [][]byte) (*BlockResult, error) {
	ok, err := r.ProcessProposal(in, txs)
	if err != nil {
		return nil, err
	}
	if !ok {
		return nil, fmt.Errorf("ProcessProposal REJECT at height %d", in.Height)
	}
	res, err := r.finalize(in, txs)
	if res != nil {
		res.Path = "process"
	}
	return res, err
}

// Replay = BeginBlock / DeliverTx* / EndBlock / Commit without a proposal phase
// (what a node does when it catches up / replays blocks).
func (r *Replica) Replay(in *BlockInput, txs [][]byte) (*BlockResult, error) {
	res, err := r.finalize(in, txs)
	if res != nil {
		res.Path = "replay"
	}
	return res, err
}

func convEvents(evs []types.Event) []Event {
	var out []Event
	for _, e := range evs {
		ev := Event{Type: e.Type}
		for _, a := range e.Attributes {
			ev.Attrs = append(ev.Attrs, [2]string{a.Key, a.Value})
		}
		out = append(out, ev)
	}
	return out
}

// MetaBody extracts the body of the block-metadata transaction from a tx list (nil if absent).
func MetaBody(txs [][]byte) []byte {
	for i := len(txs) - 1; i >= 0; i-- {
		var sigTx transaction.SignedTransaction
		if err := cbor.Unmarshal(txs[i], &sigTx); err != nil {
			continue
		}
		var tx transaction.Transaction
		if err := cbor.Unmarshal(sigTx.Blob, &tx); err != nil {
			continue
		}
		if tx.Method == "consensus.Meta" {
			return append([]byte{}, tx.Body...)
		}
	}
	return nil
}

func (r *Replica) finalize(in *BlockInput, txs [][]byte) (res *BlockResult, err error) {
	defer r.guard("block execution", &err)
	hash := in.Hash
	if hash == nil {
		hash = BlockHash(in, txs)
	}
	res = &BlockResult{Height: in.Height, MetaTx: MetaBody(txs)}

	defer r.enter("")
	r.abciMu.Lock()
	r.enter("BeginBlock")
	bb := func() types.ResponseBeginBlock {
		defer r.abciMu.Unlock() // also when BeginBlock panics (the panic is returned as an error)
		return r.Mux.BeginBlock(types.RequestBeginBlock{
			Hash:                hash,
			Header:              in.header(),
			LastCommitInfo:      in.LastCommit,
			ByzantineValidators: in.Misbehavior,
		})
	}()
	res.BeginEvents = convEvents(bb.Events)

	for k, tx := range txs {
		r.enter(fmt.Sprintf("DeliverTx[%d]", k))
		// The lock is released between the calls so that a concurrent CheckTx can
		// interleave exactly as it can with CometBFT's local ABCI client.
		r.abciMu.Lock()
		d := func() types.ResponseDeliverTx {
			defer r.abciMu.Unlock()
			return r.Mux.DeliverTx(types.RequestDeliverTx{Tx: tx})
		}()
		res.TxResults = append(res.TxResults, TxResult{
			Code: d.Code, Codespace: d.Codespace, Data: d.Data, GasUsed: d.GasUsed, GasWanted: d.GasWanted,
			Log: d.Log, Events: convEvents(d.Events),
		})
	}

	r.enter("EndBlock")
	r.abciMu.Lock()
	eb := func() types.ResponseEndBlock {
		defer r.abciMu.Unlock()
		return r.Mux.EndBlock(types.RequestEndBlock{Height: in.Height})
	}()
	res.EndEvents = convEvents(eb.Events)
	for _, vu := range eb.ValidatorUpdates {
		res.ValidatorUpdates = append(res.ValidatorUpdates, ValUpdate{PubKey: vu.PubKey.GetEd25519(), Power: vu.Power})
	}
	sort.Slice(res.ValidatorUpdates, func(i, j int) bool {
		c := bytes.Compare(res.ValidatorUpdates[i].PubKey, res.ValidatorUpdates[j].PubKey)
		if c != 0 {
			return c < 0
		}
		return res.ValidatorUpdates[i].Power < res.ValidatorUpdates[j].Power
	})

	r.enter("Commit")
	r.abciMu.Lock()
	cm := func() types.ResponseCommit {
		defer r.abciMu.Unlock()
		return r.Mux.Commit()
	}()
	res.AppHash = append([]byte{}, cm.Data...)
	res.RetainHeight = cm.RetainHeight
	r.Height = in.Height - r.G.Doc.Height + 1
	return res, nil
}

// CheckTx runs a mempool check (serialised with the other ABCI calls).
func (r *Replica) CheckTx(raw []byte, recheck bool) (resp types.ResponseCheckTx, err error) {
	defer r.guard("CheckTx", &err)
	r.abciMu.Lock()
	defer r.abciMu.Unlock()
	t := types.CheckTxType_New
	if recheck {
		t = types.CheckTxType_Recheck
	}
	return r.Mux.CheckTx(types.RequestCheckTx{Tx: raw, Type: t}), nil
}

// EstimateGas simulates a transaction at the committed state (NOT serialised
// with ABCI calls: in a node it is called from gRPC goroutines).
func (r *Replica) EstimateGas(caller signature.PublicKey, tx *transaction.Transaction) (gas transaction.Gas, err error) {
	defer r.guard("EstimateGas", &err)
	r.srvMu.RLock()
	defer r.srvMu.RUnlock()
	cp := *tx
	return r.Srv.EstimateGas(caller, &cp)
}

// LastHeight is the last committed block height as reported by the server.
func (r *Replica) LastHeight() int64 {
	r.srvMu.RLock()
	defer r.srvMu.RUnlock()
	return r.Srv.State().LastHeight()
}
