package muxdrv

import (
	"fmt"

	beacon "github.com/oasisprotocol/oasis-core/go/beacon/api"
	"github.com/oasisprotocol/oasis-core/go/consensus/cometbft/api"
	consensusState "github.com/oasisprotocol/oasis-core/go/consensus/cometbft/apps/consensus/state"
	upgrade "github.com/oasisprotocol/oasis-core/go/upgrade/api"
)

// UpgradeSpec preloads a consensus upgrade into a replica's (mock) upgrade backend; it must be
// identical on all replicas of a chain. The migration becomes due when the last committed
// height equals AtHeight, i.e. it runs while block AtHeight+1 is executed: nothing in
// BeginBlock, and in EndBlock it bumps the consensus parameter MaxTxSize -- exactly what the
// shipped handler go/upgrade/migrations/dummy.go does.
type UpgradeSpec struct {
	AtHeight int64
	// NewMaxTxSize > 0: the migration sets the consensus parameter MaxTxSize to this value
	// (like migrations/consensus_240.go raises it); 0 = MaxTxSize++ as in migrations/dummy.go.
	NewMaxTxSize uint64
}

// mockUpgrader implements upgrade/api.Backend for the multiplexer.
type mockUpgrader struct {
	spec UpgradeSpec
}

func (u *mockUpgrader) SubmitDescriptor(*upgrade.Descriptor) error { return nil }
func (u *mockUpgrader) PendingUpgrades() ([]*upgrade.PendingUpgrade, error) {
	return nil, nil
}
func (u *mockUpgrader) HasPendingUpgradeAt(h int64) (bool, error) {
	return u.spec.AtHeight > 0 && h == u.spec.AtHeight+1, nil
}
func (u *mockUpgrader) CancelUpgrade(*upgrade.Descriptor) error { return nil }
func (u *mockUpgrader) GetUpgrade(*upgrade.Descriptor) (*upgrade.PendingUpgrade, error) {
	return nil, upgrade.ErrUpgradeNotFound
}
func (u *mockUpgrader) StartupUpgrade() error { return nil }
func (u *mockUpgrader) Close()                {}

func (u *mockUpgrader) ConsensusUpgrade(privateCtx any, _ beacon.EpochTime, currentHeight int64) error {
	ctx, _ := privateCtx.(*api.Context)
	if ctx == nil || u.spec.AtHeight == 0 || currentHeight != u.spec.AtHeight {
		return nil
	}
	switch ctx.Mode() {
	case api.ContextBeginBlock:
		// Nothing to do (like the shipped migrations).
	case api.ContextEndBlock:
		state := consensusState.NewMutableState(ctx.State())
		params, err := state.ConsensusParameters(ctx)
		if err != nil {
			return fmt.Errorf("unable to load consensus parameters: %w", err)
		}
		if u.spec.NewMaxTxSize > 0 {
			params.MaxTxSize = u.spec.NewMaxTxSize
		} else {
			params.MaxTxSize++
		}
		if err = state.SetConsensusParameters(ctx, params); err != nil {
			return fmt.Errorf("failed to update consensus parameters: %w", err)
		}
	default:
		return fmt.Errorf("upgrade handler called in unexpected context: %s", ctx.Mode())
	}
	return nil
}
