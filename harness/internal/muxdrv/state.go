package muxdrv

import (
	"bytes"
	"context"
	"encoding/hex"
	"fmt"
	"sort"

	beacon "github.com/oasisprotocol/oasis-core/go/beacon/api"
	abciAPI "github.com/oasisprotocol/oasis-core/go/consensus/cometbft/api"
	beaconState "github.com/oasisprotocol/oasis-core/go/consensus/cometbft/apps/beacon/state"
	governanceState "github.com/oasisprotocol/oasis-core/go/consensus/cometbft/apps/governance/state"
	schedulerState "github.com/oasisprotocol/oasis-core/go/consensus/cometbft/apps/scheduler/state"
	stakingState "github.com/oasisprotocol/oasis-core/go/consensus/cometbft/apps/staking/state"
	governance "github.com/oasisprotocol/oasis-core/go/governance/api"
	staking "github.com/oasisprotocol/oasis-core/go/staking/api"
	"github.com/oasisprotocol/oasis-core/go/storage/mkvs"
)

// KV is one committed state entry (hex strings).
type KV struct {
	K string `json:"k"`
	V string `json:"v"`
}

// TreeAt opens a read-only tree at a committed height (0 = latest) directly on
// the node database, like external queries do. The caller must Close() it.
func (r *Replica) TreeAt(height int64) (tree mkvs.ImmutableKeyValueTree, closer func(), err error) {
	defer r.guard("TreeAt", &err)
	st, err := abciAPI.NewImmutableStateAt(context.Background(), r.Srv.State(), height)
	if err != nil {
		return nil, nil, err
	}
	return st, func() { st.Close() }, nil
}

// DumpState iterates the full committed MKVS state at height (0 = latest) and
// returns the sorted (key, value) pairs.
func DumpState(r *Replica, height int64) (kvs []KV, err error) {
	defer r.guard("DumpState", &err)
	r.srvMu.RLock()
	defer r.srvMu.RUnlock()
	st, err := abciAPI.NewImmutableStateAt(context.Background(), r.Srv.State(), height)
	if err != nil {
		return nil, err
	}
	defer st.Close()
	it := st.NewIterator(context.Background())
	defer it.Close()
	for it.Rewind(); it.Valid(); it.Next() {
		kvs = append(kvs, KV{K: hex.EncodeToString(it.Key()), V: hex.EncodeToString(it.Value())})
	}
	if it.Err() != nil {
		return nil, it.Err()
	}
	return kvs, nil
}

// DiffKV lists the keys at which two dumps differ ("k: a=.. b=..").
func DiffKV(a, b []KV, max int) []string {
	ma := map[string]string{}
	for _, kv := range a {
		ma[kv.K] = kv.V
	}
	mb := map[string]string{}
	for _, kv := range b {
		mb[kv.K] = kv.V
	}
	var keys []string
	for k := range ma {
		keys = append(keys, k)
	}
	for k := range mb {
		if _, ok := ma[k]; !ok {
			keys = append(keys, k)
		}
	}
	sort.Strings(keys)
	var out []string
	for _, k := range keys {
		va, oa := ma[k]
		vb, ob := mb[k]
		if oa == ob && va == vb {
			continue
		}
		if !oa {
			va = "<absent>"
		}
		if !ob {
			vb = "<absent>"
		}
		out = append(out, fmt.Sprintf("%s: a=%s b=%s", k, va, vb))
		if len(out) >= max {
			break
		}
	}
	return out
}

// SharePoolDump / AccountDump / ... are plain projections with decimal strings.
type SharePoolDump struct {
	Balance     string `json:"balance"`
	TotalShares string `json:"total_shares"`
}

type AccountDump struct {
	Address    string            `json:"address"`
	Balance    string            `json:"balance"`
	Nonce      uint64            `json:"nonce"`
	Allowances map[string]string `json:"allowances,omitempty"`
	Active     SharePoolDump     `json:"active"`
	Debonding  SharePoolDump     `json:"debonding"`
	Rates      [][2]string       `json:"commission_rates,omitempty"`  // (start, rate)
	Bounds     [][3]string       `json:"commission_bounds,omitempty"` // (start, min, max)
	Claims     map[string]string `json:"stake_claims,omitempty"`
}

type DelegationDump struct {
	Escrow    string `json:"escrow"`
	Delegator string `json:"delegator"`
	Shares    string `json:"shares"`
}

type DebondingDump struct {
	Escrow    string `json:"escrow"`
	Delegator string `json:"delegator"`
	Shares    string `json:"shares"`
	EndEpoch  uint64 `json:"end_epoch"`
}

// StakingDump is the typed dump of the staking ledger.
type StakingDump struct {
	Height             int64            `json:"height"`
	Epoch              uint64           `json:"epoch"`
	TotalSupply        string           `json:"total_supply"`
	CommonPool         string           `json:"common_pool"`
	LastBlockFees      string           `json:"last_block_fees"`
	GovernanceDeposits string           `json:"governance_deposits"`
	Accounts           []AccountDump    `json:"accounts"`
	Delegations        []DelegationDump `json:"delegations"`
	Debonding          []DebondingDump  `json:"debonding_delegations"`
}

// DumpStaking returns the typed staking dump at height (0 = latest).
func DumpStaking(r *Replica, height int64) (d *StakingDump, err error) {
	defer r.guard("DumpStaking", &err)
	r.srvMu.RLock()
	defer r.srvMu.RUnlock()
	ctx := context.Background()
	ist, err := abciAPI.NewImmutableStateAt(ctx, r.Srv.State(), height)
	if err != nil {
		return nil, err
	}
	defer ist.Close()
	st := stakingState.NewImmutableState(ist)
	d = &StakingDump{Height: height}
	if height == 0 {
		d.Height = r.Srv.State().LastHeight()
	}
	if ep, _, e := beaconState.NewImmutableState(ist).GetEpoch(ctx); e == nil {
		d.Epoch = uint64(ep)
	}
	ts, err := st.TotalSupply(ctx)
	if err != nil {
		return nil, err
	}
	d.TotalSupply = ts.String()
	cp, err := st.CommonPool(ctx)
	if err != nil {
		return nil, err
	}
	d.CommonPool = cp.String()
	lbf, err := st.LastBlockFees(ctx)
	if err != nil {
		return nil, err
	}
	d.LastBlockFees = lbf.String()
	gd, err := st.GovernanceDeposits(ctx)
	if err != nil {
		return nil, err
	}
	d.GovernanceDeposits = gd.String()

	addrs, err := st.Addresses(ctx)
	if err != nil {
		return nil, err
	}
	sort.Slice(addrs, func(i, j int) bool { return bytes.Compare(addrs[i][:], addrs[j][:]) < 0 })
	for _, a := range addrs {
		acc, err := st.Account(ctx, a)
		if err != nil {
			return nil, err
		}
		ad := AccountDump{
			Address:   a.String(),
			Balance:   acc.General.Balance.String(),
			Nonce:     acc.General.Nonce,
			Active:    SharePoolDump{acc.Escrow.Active.Balance.String(), acc.Escrow.Active.TotalShares.String()},
			Debonding: SharePoolDump{acc.Escrow.Debonding.Balance.String(), acc.Escrow.Debonding.TotalShares.String()},
		}
		if len(acc.General.Allowances) > 0 {
			ad.Allowances = map[string]string{}
			for b, v := range acc.General.Allowances {
				ad.Allowances[b.String()] = v.String()
			}
		}
		for _, rs := range acc.Escrow.CommissionSchedule.Rates {
			ad.Rates = append(ad.Rates, [2]string{fmt.Sprint(uint64(rs.Start)), rs.Rate.String()})
		}
		for _, bs := range acc.Escrow.CommissionSchedule.Bounds {
			ad.Bounds = append(ad.Bounds, [3]string{fmt.Sprint(uint64(bs.Start)), bs.RateMin.String(), bs.RateMax.String()})
		}
		if len(acc.Escrow.StakeAccumulator.Claims) > 0 {
			ad.Claims = map[string]string{}
			for c, ths := range acc.Escrow.StakeAccumulator.Claims {
				ad.Claims[string(c)] = fmt.Sprint(ths)
			}
		}
		d.Accounts = append(d.Accounts, ad)
	}
	dels, err := st.Delegations(ctx)
	if err != nil {
		return nil, err
	}
	for e, m := range dels {
		for dl, v := range m {
			d.Delegations = append(d.Delegations, DelegationDump{e.String(), dl.String(), v.Shares.String()})
		}
	}
	sort.Slice(d.Delegations, func(i, j int) bool {
		a, b := d.Delegations[i], d.Delegations[j]
		if a.Escrow != b.Escrow {
			return a.Escrow < b.Escrow
		}
		return a.Delegator < b.Delegator
	})
	debs, err := st.DebondingDelegations(ctx)
	if err != nil {
		return nil, err
	}
	for e, m := range debs {
		for dl, l := range m {
			for _, v := range l {
				d.Debonding = append(d.Debonding, DebondingDump{e.String(), dl.String(), v.Shares.String(), uint64(v.DebondEndTime)})
			}
		}
	}
	sort.Slice(d.Debonding, func(i, j int) bool {
		a, b := d.Debonding[i], d.Debonding[j]
		if a.Escrow != b.Escrow {
			return a.Escrow < b.Escrow
		}
		if a.Delegator != b.Delegator {
			return a.Delegator < b.Delegator
		}
		if a.EndEpoch != b.EndEpoch {
			return a.EndEpoch < b.EndEpoch
		}
		return a.Shares < b.Shares
	})
	return d, nil
}

// Account queries one staking account at height (0 = latest).
func (r *Replica) Account(height int64, addr staking.Address) (acc *staking.Account, err error) {
	defer r.guard("Account", &err)
	r.srvMu.RLock()
	defer r.srvMu.RUnlock()
	ist, err := abciAPI.NewImmutableStateAt(context.Background(), r.Srv.State(), height)
	if err != nil {
		return nil, err
	}
	defer ist.Close()
	return stakingState.NewImmutableState(ist).Account(context.Background(), addr)
}

// Epoch returns (current epoch, height at which it started) at height (0 = latest).
func (r *Replica) Epoch(height int64) (ep beacon.EpochTime, at int64, err error) {
	defer r.guard("Epoch", &err)
	r.srvMu.RLock()
	defer r.srvMu.RUnlock()
	ist, err := abciAPI.NewImmutableStateAt(context.Background(), r.Srv.State(), height)
	if err != nil {
		return 0, 0, err
	}
	defer ist.Close()
	return beaconState.NewImmutableState(ist).GetEpoch(context.Background())
}

// Proposals lists the governance proposals at height (0 = latest).
func (r *Replica) Proposals(height int64) (ps []*governance.Proposal, err error) {
	defer r.guard("Proposals", &err)
	r.srvMu.RLock()
	defer r.srvMu.RUnlock()
	ist, err := abciAPI.NewImmutableStateAt(context.Background(), r.Srv.State(), height)
	if err != nil {
		return nil, err
	}
	defer ist.Close()
	return governanceState.NewImmutableState(ist).Proposals(context.Background())
}

// CurrentValidators returns the scheduler's current validator set (consensus key hex -> power).
func (r *Replica) CurrentValidators(height int64) (m map[string]int64, err error) {
	defer r.guard("CurrentValidators", &err)
	r.srvMu.RLock()
	defer r.srvMu.RUnlock()
	ist, err := abciAPI.NewImmutableStateAt(context.Background(), r.Srv.State(), height)
	if err != nil {
		return nil, err
	}
	defer ist.Close()
	vals, err := schedulerState.NewImmutableState(ist).CurrentValidators(context.Background())
	if err != nil {
		return nil, err
	}
	m = map[string]int64{}
	for k, v := range vals {
		m[hex.EncodeToString(k[:])] = v.VotingPower
	}
	return m, nil
}
