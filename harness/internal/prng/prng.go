// Package prng is the single source of randomness of the harnesses: one
// splitmix64 state per run, seeded from VERIF_SEED, so every case replays.
package prng

type R struct{ s uint64 }

// New derives the initial state by hashing the seed (splitmix64 finalizer), so that the
// streams of consecutive seeds are unrelated (a state of seed*golden+c made seed k+1 the stream of
// seed k shifted by one draw).
func New(seed uint64) *R {
	z := seed + 0x9E3779B97F4A7C15
	z = (z ^ (z >> 30)) * 0xBF58476D1CE4E5B9
	z = (z ^ (z >> 27)) * 0x94D049BB133111EB
	return &R{s: z ^ (z >> 31)}
}

func (r *R) U64() uint64 {
	r.s += 0x9E3779B97F4A7C15
	z := r.s
	z = (z ^ (z >> 30)) * 0xBF58476D1CE4E5B9
	z = (z ^ (z >> 27)) * 0x94D049BB133111EB
	return z ^ (z >> 31)
}

// Intn returns a value in [0,n).
func (r *R) Intn(n int) int {
	if n <= 0 {
		return 0
	}
	return int(r.U64() % uint64(n))
}

// Range returns a value in [lo,hi].
func (r *R) Range(lo, hi int) int { return lo + r.Intn(hi-lo+1) }

// Chance returns true with probability pct/100.
func (r *R) Chance(pct int) bool { return r.Intn(100) < pct }

// Fork derives an independent generator (for per-case replay).
func (r *R) Fork() *R { return New(r.U64()) }

func (r *R) Bytes(n int) []byte {
	b := make([]byte, n)
	for i := range b {
		b[i] = byte(r.U64())
	}
	return b
}
