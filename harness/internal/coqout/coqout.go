// Package coqout writes correspondence-case files (Coq source evaluated with
// vm_compute by bin/check) and the run summary the driver turns into evidence.
package coqout

import (
	"encoding/hex"
	"encoding/json"
	"fmt"
	"os"
	"path/filepath"
	"sort"
	"strings"
)

// Bytes renders a byte string as the Coq term [bs len 0xHEX].
func Bytes(b []byte) string {
	if len(b) == 0 {
		return "(bs 0 0)"
	}
	return fmt.Sprintf("(bs %d 0x%s)", len(b), hex.EncodeToString(b))
}

// List renders a Coq list literal.
func List(items []string) string { return "[" + strings.Join(items, "; ") + "]" }

func Bool(b bool) string {
	if b {
		return "true"
	}
	return "false"
}

// OptBytes renders option bytes.
func OptBytes(b []byte, present bool) string {
	if !present {
		return "None"
	}
	return "(Some " + Bytes(b) + ")"
}

// Writer collects cases into shards of bounded size.
type Writer struct {
	Dir      string
	Header   string // Require lines
	Run      string // Coq function: case input -> model output
	Eqb      string // Coq function comparing two outputs
	PerShard int
	shard    int
	cur      []string
	Total    int
	descs    []json.RawMessage
}

func NewWriter(dir, header, run, eqb string, perShard int) *Writer {
	_ = os.MkdirAll(dir, 0o755)
	return &Writer{Dir: dir, Header: header, Run: run, Eqb: eqb, PerShard: perShard}
}

// Add appends one case: coqTerm is "(input, expected)"; desc is a JSON-able replay description.
func (w *Writer) Add(coqTerm string, desc any) {
	w.cur = append(w.cur, coqTerm)
	d, _ := json.Marshal(map[string]any{"desc": desc, "coq": coqTerm})
	w.descs = append(w.descs, d)
	w.Total++
	if len(w.cur) >= w.PerShard {
		w.flush()
	}
}

func (w *Writer) flush() {
	if len(w.cur) == 0 {
		return
	}
	name := filepath.Join(w.Dir, fmt.Sprintf("cases_%03d.v", w.shard))
	var sb strings.Builder
	sb.WriteString(w.Header)
	sb.WriteString("\nDefinition cases := [\n")
	sb.WriteString(strings.Join(w.cur, ";\n"))
	sb.WriteString("\n].\n")
	sb.WriteString("Definition M := Eval vm_compute in (mismatches (" + w.Run + ") (" + w.Eqb + ") cases).\nPrint M.\n")
	_ = os.WriteFile(name, []byte(sb.String()), 0o644)
	w.shard++
	w.cur = nil
}

// Close flushes the last shard and writes cases.jsonl (one replay description per case, global order).
func (w *Writer) Close() {
	w.flush()
	f, _ := os.Create(filepath.Join(w.Dir, "cases.jsonl"))
	defer f.Close()
	for _, d := range w.descs {
		f.Write(d)
		f.Write([]byte("\n"))
	}
	meta := map[string]any{"shards": w.shard, "per_shard": w.PerShard, "total": w.Total, "header": w.Header, "run": w.Run}
	b, _ := json.Marshal(meta)
	_ = os.WriteFile(filepath.Join(w.Dir, "shards.json"), b, 0o644)
}

// Summary is what a harness reports about one run.
type Summary struct {
	Evaluations       int            `json:"evaluations"`
	DistinctNontrivial int           `json:"distinct_nontrivial"`
	Rule              string         `json:"rule"`
	Samples           []any          `json:"samples"`
	Histograms        map[string]map[string]int `json:"histograms"`
	// Violations found by the implementation-side oracle (S), each with a replay description.
	Violations []any `json:"violations"`
	// KnownFindings observed (key strings matched against known_findings.json by the driver).
	Findings []Finding `json:"findings"`
	Extra    map[string]any `json:"extra,omitempty"`
}

type Finding struct {
	Key    string `json:"key"`
	What   string `json:"what"`
	Replay any    `json:"replay"`
}

func NewSummary(rule string) *Summary {
	return &Summary{Rule: rule, Histograms: map[string]map[string]int{}, Extra: map[string]any{}}
}

func (s *Summary) Count(hist, key string) {
	m := s.Histograms[hist]
	if m == nil {
		m = map[string]int{}
		s.Histograms[hist] = m
	}
	m[key]++
}

func (s *Summary) Sample(x any, max int) {
	if len(s.Samples) < max {
		s.Samples = append(s.Samples, x)
	}
}

func (s *Summary) Write(dir string) {
	if s.Samples == nil {
		s.Samples = []any{}
	}
	if s.Violations == nil {
		s.Violations = []any{}
	}
	if s.Findings == nil {
		s.Findings = []Finding{}
	}
	b, _ := json.MarshalIndent(s, "", " ")
	_ = os.WriteFile(filepath.Join(dir, "summary.json"), b, 0o644)
}

// SortedKeys is a helper for deterministic map iteration.
func SortedKeys[V any](m map[string]V) []string {
	ks := make([]string, 0, len(m))
	for k := range m {
		ks = append(ks, k)
	}
	sort.Strings(ks)
	return ks
}
