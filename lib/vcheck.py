"""Shared driver for the per-property checks (see DESIGN.md section 2).

A property module in checks/Cxx.py defines a dict SPEC:

  SPEC = {
    "id": "C20",
    "props_file": "Props/C20.v",          # only Theorem/exact/Print Assumptions
    "gen": ["txpoolconsts"],              # generator sub-commands run before the proof build (G)
    "streams": [                           # correspondence streams (K) + implementation-side oracle (S)
       {"name": "txpool", "cmd": "txpool",
        "args": {"quick": ["-cases", "300"], "thorough": ["-cases", "20000"]},
        "search_args": ["-cases", "3000"]},   # used when T or K broke and S has nothing yet
    ],
    "trusted_base": [...], "assumptions": [...],
    "allowed_axioms": [...],               # names accepted in Print Assumptions output
  }

Exit status 0 = held on everything explored; 1 = VIOLATION line printed.
"""
import json, os, re, shutil, subprocess, sys, tempfile, time, glob, hashlib
from concurrent.futures import ThreadPoolExecutor

ROOT = os.environ.get("VERIF_ROOT") or os.path.dirname(os.path.dirname(os.path.abspath(__file__)))
REPO = os.environ.get("VERIF_REPO", "/repo")
COQ = os.path.join(ROOT, "coq")
BIN = os.path.join(ROOT, "bin")

STD_AXIOMS = {
    # axioms the standard library itself declares; each must also be named in DESIGN.md section 3
    "functional_extensionality_dep", "FunctionalExtensionality.functional_extensionality_dep",
    "proof_irrelevance", "ProofIrrelevance.proof_irrelevance", "classic", "Classical_Prop.classic",
    "JMeq_eq", "JMeq.JMeq_eq", "Eqdep.Eq_rect_eq.eq_rect_eq", "eq_rect_eq",
}

BANNED = re.compile(r"\b(Admitted|admit|Axiom|Axioms|Parameter|Parameters|Conjecture|Conjectures|Hypothesis|Hypotheses|Variable|Variables|Unset\s+Guard|bypass_check|Admit\s+Obligations|type-in-type|impredicative-set|Unset\s+Positivity|Unset\s+Universe)\b")


class _Res:
    def __init__(self, rc, out):
        self.returncode, self.stdout = rc, out


def sh(cmd, **kw):
    """Run a command; with a timeout the whole process group is killed (harnesses spawn children)
    and exit code 124 is returned instead of raising."""
    timeout = kw.pop("timeout", None)
    kw.setdefault("stdout", subprocess.PIPE)
    kw.setdefault("stderr", subprocess.STDOUT)
    kw.setdefault("text", True)
    if timeout is None:
        return subprocess.run(cmd, **kw)
    import signal
    p = subprocess.Popen(cmd, start_new_session=True, **kw)
    try:
        out, _ = p.communicate(timeout=timeout)
        return _Res(p.returncode, out)
    except subprocess.TimeoutExpired:
        try:
            os.killpg(p.pid, signal.SIGKILL)
        except Exception:
            pass
        try:
            out, _ = p.communicate(timeout=30)
        except Exception:
            out = ""
        return _Res(124, (out or "") + "\n[driver] killed after %ss without terminating" % timeout)


def env():
    e = dict(os.environ)
    e["VERIF_ROOT"] = ROOT
    e["VERIF_REPO"] = REPO
    return e


def strip_comments(src):
    out, depth, i = [], 0, 0
    while i < len(src):
        if src.startswith("(*", i):
            depth += 1; i += 2
        elif src.startswith("*)", i) and depth > 0:
            depth -= 1; i += 2
        else:
            if depth == 0:
                out.append(src[i])
            i += 1
    return "".join(out)


def scan_banned():
    """grep the whole development for declarations the brief forbids.
    Variable/Hypothesis are allowed inside a Section only."""
    bad = []
    for path in glob.glob(os.path.join(COQ, "**", "*.v"), recursive=True):
        if "/Cases/" in path:
            continue
        src = strip_comments(open(path).read())
        depth = 0
        for ln, line in enumerate(src.split("\n"), 1):
            if re.match(r"\s*(Section|Module)\s+\w+", line) and ":=" not in line:
                if re.match(r"\s*Section\s", line):
                    depth += 1
            if re.match(r"\s*End\s+\w+\s*\.", line) and depth > 0:
                depth -= 1
            m = BANNED.search(line)
            if m:
                w = m.group(1)
                if w in ("Variable", "Variables", "Hypothesis", "Hypotheses") and depth > 0:
                    continue
                if w in ("Variable", "Variables", "Hypothesis", "Hypotheses") and re.match(r"\s*(Context|Section)", line):
                    continue
                bad.append("%s:%d: %s" % (os.path.relpath(path, COQ), ln, line.strip()))
    return bad


class Run:
    def __init__(self, spec, tier, seed, replay=None):
        self.spec, self.tier, self.seed, self.replay = spec, tier, seed, replay
        self.id = spec["id"]
        self.t0 = time.time()
        self.work = tempfile.mkdtemp(prefix="verif-%s-" % self.id)
        self.failures = []        # list of dicts: kind, what, replay payload
        self.findings = []        # known-finding hits (key, what)
        self.cov = {"obligations": 0, "discharged": 0, "theorems": [], "axioms": {},
                    "evaluations": 0, "distinct_nontrivial": 0, "rule": "", "samples": [],
                    "streams": {}, "histograms": {}, "model_mismatches": 0, "impl_oracle_violations": 0}
        self.log = []

    def say(self, *a):
        msg = " ".join(str(x) for x in a)
        self.log.append(msg)
        print(msg, flush=True)

    # ---------- G: regenerate constants from the source ----------
    def gen(self):
        for g in self.spec.get("gen", []):
            r = sh([os.path.join(BIN, "gen"), g], env=env())
            if r.returncode != 0:
                self.failures.append({"kind": "generator", "what": "generator %s failed on the current tree" % g,
                                      "detail": r.stdout[-2000:], "broken": "Gen/%s" % g})
                self.say("[G] generator", g, "FAILED\n" + r.stdout[-1500:])
            else:
                self.say("[G] regenerated", g, r.stdout.strip()[-300:])

    # ---------- T: the theorems ----------
    def proofs(self):
        pf = self.spec["props_file"]
        src = open(os.path.join(COQ, pf)).read()
        body = strip_comments(src)
        thms = re.findall(r"^\s*(?:Theorem|Lemma|Corollary)\s+(\w+)", body, re.M)
        self.cov["obligations"] = len(thms)
        self.cov["theorems"] = thms
        # the Props file may contain nothing but Theorem ... exact ... Qed / Print Assumptions / Require
        for stmt in re.split(r"\.\s", re.sub(r"\s+", " ", body)):
            s = stmt.strip()
            if not s:
                continue
            if not re.match(r"^(From|Require|Import|Export|Theorem|Lemma|Corollary|Proof|exact|apply|Qed|Print Assumptions|Open Scope|Local Open Scope|Set |Unset Printing|Example|reflexivity|vm_compute|split|Check)", s):
                self.failures.append({"kind": "proof", "what": "Props file contains a non-theorem sentence: %s" % s[:120], "broken": pf})
        bad = scan_banned()
        if bad:
            self.failures.append({"kind": "proof", "what": "forbidden declarations in the development", "detail": bad[:20], "broken": "development"})
            self.say("[T] forbidden declarations:", *bad[:10])
        vo = os.path.join(COQ, pf[:-2] + ".vo")
        if os.path.exists(vo):
            os.remove(vo)
        r = sh([os.path.join(BIN, "coqbuild"), pf[:-2] + ".vo"], env=env())
        out = r.stdout
        if r.returncode != 0:
            m = re.search(r'File "([^"]+)", line (\d+)', out)
            where = "%s:%s" % (m.group(1), m.group(2)) if m else pf
            # name the lemma containing that line if we can
            lemma = None
            if m:
                try:
                    lines = open(os.path.join(COQ, m.group(1).lstrip("./"))).read().split("\n")
                    for k in range(int(m.group(2)) - 1, -1, -1):
                        mm = re.match(r"\s*(?:Theorem|Lemma|Corollary|Example|Definition|Fixpoint|Fact|Remark)\s+(\w+)", lines[k])
                        if mm:
                            lemma = mm.group(1); break
                except Exception:
                    pass
            self.failures.append({"kind": "proof", "what": "proof obligation no longer checks at %s%s" % (where, " (%s)" % lemma if lemma else ""),
                                  "detail": out[-3000:], "broken": lemma or where})
            self.say("[T] BUILD FAILED at", where, lemma or "", "\n" + out[-1500:])
            return
        # parse Print Assumptions output (in order of the theorems)
        chunks = re.split(r"(Closed under the global context|Axioms:)", out)
        verdicts = []
        i = 1
        while i < len(chunks):
            if chunks[i].startswith("Closed"):
                verdicts.append([])
            else:
                names = re.findall(r"^\s*([\w.]+)\s*:", chunks[i + 1], re.M)
                verdicts.append(names)
            i += 2
        if len(verdicts) < len(thms):
            # make found the target up to date (someone else built it meanwhile): compile the
            # property file directly so that the Print Assumptions output is produced
            r2 = sh(["timeout", "1800", "coqc", "-Q", ".", "Verif", "-w", "-notation-overridden", pf], cwd=COQ)
            if r2.returncode == 0:
                chunks = re.split(r"(Closed under the global context|Axioms:)", r2.stdout)
                verdicts = []
                i = 1
                while i < len(chunks):
                    if chunks[i].startswith("Closed"):
                        verdicts.append([])
                    else:
                        verdicts.append(re.findall(r"^\s*([\w.]+)\s*:", chunks[i + 1], re.M))
                    i += 2
        n_pa = len(re.findall(r"Print Assumptions", body))
        if n_pa < len(thms) or len(verdicts) < len(thms):
            self.failures.append({"kind": "proof", "what": "not every theorem in %s has a Print Assumptions verdict (%d theorems, %d verdicts)" % (pf, len(thms), len(verdicts)), "broken": pf})
        allowed = set(self.spec.get("allowed_axioms", [])) | STD_AXIOMS
        disc = 0
        for t, v in zip(thms, verdicts):
            extra = [a for a in v if a not in allowed and a.split(".")[-1] not in allowed]
            self.cov["axioms"][t] = v
            if extra:
                self.failures.append({"kind": "proof", "what": "theorem %s depends on non-allowed axioms %s" % (t, extra), "broken": t})
            else:
                disc += 1
        self.cov["discharged"] = disc
        self.say("[T] %d/%d theorems of %s checked by coqc; axioms: %s" % (disc, len(thms), pf,
                 "none (closed under the global context)" if all(not v for v in verdicts) else json.dumps(self.cov["axioms"])))

    def coqchk(self):
        pf = self.spec["props_file"][:-2].replace("/", ".")
        r = sh(["timeout", "3000", "coqchk", "-silent", "-o", "-Q", COQ, "Verif", "Verif." + pf], cwd=COQ)
        ok = r.returncode == 0
        self.cov["coqchk"] = {"ok": ok, "tail": r.stdout[-1500:]}
        self.say("[T] coqchk:", "ok" if ok else "FAILED", r.stdout[-600:])
        if not ok:
            self.failures.append({"kind": "proof", "what": "coqchk rejected the compiled proofs", "detail": r.stdout[-2000:], "broken": pf})

    # ---------- K + S: correspondence streams ----------
    def run_stream(self, st, extra_args=None, tag=""):
        name = st["name"] + tag
        outdir = os.path.join(self.work, name)
        os.makedirs(outdir, exist_ok=True)
        r = sh([os.path.join(BIN, "gobuild"), st["cmd"]], env=env())
        if r.returncode != 0:
            self.failures.append({"kind": "harness-build", "what": "harness %s does not build against the current tree" % st["cmd"],
                                  "detail": r.stdout[-3000:], "broken": "correspondence stream %s (harness build)" % name})
            self.say("[K] harness build FAILED\n" + r.stdout[-1500:])
            return None
        args = list(extra_args if extra_args is not None else st["args"][self.tier])
        if self.replay and extra_args is None:
            args = ["-replay", self.replay["file"]]
        cmd = [os.path.join(ROOT, "harness", "bin", st["cmd"]), "-seed", str(self.seed), "-out", outdir] + args
        t = time.time()
        tmo = st.get("timeout", {"quick": 1500, "thorough": 7200}.get(self.tier, 7200))
        r = sh(cmd, env=env(), cwd=self.work, timeout=tmo)
        if r.returncode != 0 or not os.path.exists(os.path.join(outdir, "summary.json")):
            what = "harness %s crashed (exit %s)" % (st["cmd"], r.returncode)
            if r.returncode == 124:
                what = "harness %s did not terminate within %ss (the implementation under test hangs or deadlocks on some generated case)" % (st["cmd"], tmo)
            self.failures.append({"kind": "harness-run", "what": what,
                                  "detail": r.stdout[-4000:], "broken": "correspondence stream %s (harness run)" % name})
            self.say("[K] harness run FAILED\n" + r.stdout[-2500:])
            return None
        summ = json.load(open(os.path.join(outdir, "summary.json")))
        self.say("[K] %s: implementation ran %d cases in %.1fs" % (name, summ["evaluations"], time.time() - t))
        # evaluate the model on the same cases
        descs = []
        cj = os.path.join(outdir, "cases.jsonl")
        if os.path.exists(cj):
            descs = [l for l in open(cj)]
        shards = sorted(glob.glob(os.path.join(outdir, "cases_*.v")))
        per = 0
        sj = os.path.join(outdir, "shards.json")
        if os.path.exists(sj):
            per = json.load(open(sj))["per_shard"]
        mism = []
        # the case files may import model files that no theorem depends on: build them first
        if os.path.exists(sj):
            hdr = json.load(open(sj)).get("header", "")
            mods = set()
            for stmt in re.split(r"\.\s+|\.$", hdr.replace("\n", " ") + " "):
                toks = stmt.split()
                if len(toks) >= 3 and toks[0] == "From" and toks[1] == "Verif" and toks[2] == "Require":
                    for tok in toks[3:]:
                        if tok not in ("Import", "Export"):
                            mods.add(tok)
                elif len(toks) >= 2 and toks[0] == "Require":
                    for tok in toks[1:]:
                        if tok.startswith("Verif."):
                            mods.add(tok[len("Verif."):])
            targets = [m.replace(".", "/") + ".vo" for m in sorted(mods) if os.path.exists(os.path.join(COQ, m.replace(".", "/") + ".v"))]
            if targets:
                rb = sh([os.path.join(BIN, "coqbuild")] + targets, env=env())
                if rb.returncode != 0:
                    self.failures.append({"kind": "correspondence", "what": "model files needed by the case files do not build: %s" % rb.stdout[-600:],
                                          "broken": "correspondence stream %s (model build)" % name})

        def one(path):
            rr = sh(["timeout", "1800", "coqc", "-Q", COQ, "Verif", "-w", "-notation-overridden", path], cwd=outdir)
            return path, rr

        t = time.time()
        with ThreadPoolExecutor(max_workers=int(os.environ.get("VERIF_JOBS", "12"))) as ex:
            results = list(ex.map(one, shards))
        for k, (path, rr) in enumerate(results):
            o = rr.stdout
            if rr.returncode != 0:
                self.failures.append({"kind": "correspondence", "what": "case file %s does not evaluate: %s" % (os.path.basename(path), o[-800:]),
                                      "broken": "correspondence stream %s" % name})
                continue
            flat = re.sub(r"\s+", " ", o)
            m = re.search(r"M = (.*?) : list", flat)
            if not m:
                self.failures.append({"kind": "correspondence", "what": "cannot parse model output for %s: %s" % (path, o[-500:]),
                                      "broken": "correspondence stream %s" % name})
                continue
            val = m.group(1).strip()
            if val != "[]":
                for ix in [int(x) for x in re.findall(r"(\d+)(?:%N)?", val)]:
                    g = k * per + ix
                    d = json.loads(descs[g]) if g < len(descs) else {}
                    mism.append({"case_index": g, "case": d.get("desc"), "coq": d.get("coq"), "model_says": None})
        if mism and os.path.exists(sj):
            # show what the model computes on the first disagreeing case
            meta = json.load(open(sj))
            dbg = os.path.join(outdir, "debug_case.v")
            open(dbg, "w").write(meta["header"] + "\nDefinition c := " + (mism[0]["coq"] or "tt") + ".\nEval vm_compute in ((" + meta["run"] + ") (fst c)).\n")
            rr = sh(["timeout", "600", "coqc", "-Q", COQ, "Verif", dbg], cwd=outdir)
            mism[0]["model_says"] = re.sub(r"\s+", " ", rr.stdout)[-3000:]
        self.say("[K] %s: model evaluated on %d cases (%d shards) in %.1fs: %d mismatches" % (name, summ["evaluations"], len(shards), time.time() - t, len(mism)))
        return summ, mism

    def streams(self):
        kf = load_known(self.id)
        for st in self.spec.get("streams", []):
            res = self.run_stream(st)
            if res is None:
                continue
            summ, mism = res
            self.account(st, summ, mism, kf)

    def account(self, st, summ, mism, kf, search=False):
        c = self.cov
        c["evaluations"] += summ["evaluations"]
        c["distinct_nontrivial"] += summ["distinct_nontrivial"]
        c["rule"] = (c["rule"] + " | " if c["rule"] else "") + st["name"] + ": " + summ["rule"]
        if len(c["samples"]) < 6:
            c["samples"] += summ["samples"][:3]
        c["streams"][st["name"] + ("-search" if search else "")] = {"evaluations": summ["evaluations"], "distinct_nontrivial": summ["distinct_nontrivial"],
                                      "model_mismatches": len(mism), "impl_oracle_violations": len(summ["violations"]),
                                      "extra": summ.get("extra", {})}
        c["histograms"][st["name"]] = summ.get("histograms", {})
        c["model_mismatches"] += len(mism)
        c["impl_oracle_violations"] += len(summ["violations"])
        for f in summ.get("findings", []):
            if f["key"] in kf:
                self.findings.append(f)
            else:
                self.failures.append({"kind": "impl-oracle", "what": f["what"], "case": f["replay"], "key": f["key"], "stream": st["name"]})
        for v in summ["violations"]:
            self.failures.append({"kind": "impl-oracle", "what": v.get("what", "property predicate false on the implementation"), "case": v, "stream": st["name"]})
        known_cases = set(json.dumps(f["replay"], sort_keys=True) for f in self.findings)
        for m in mism:
            if m["case"] is not None and json.dumps(m["case"], sort_keys=True) in known_cases:
                continue   # the disagreement at exactly a listed finding's input
            self.failures.append({"kind": "correspondence", "what": "model and implementation disagree on case %d of stream %s" % (m["case_index"], st["name"]),
                                  "case": m["case"], "model_says": m["model_says"], "broken": "correspondence stream %s" % st["name"], "stream": st["name"]})

    # ---------- decision ----------
    def finish(self):
        wall = time.time() - self.t0
        concrete = [f for f in self.failures if f["kind"] == "impl-oracle"]
        broken = [f for f in self.failures if f["kind"] != "impl-oracle"]
        # when only a proof / correspondence broke, search for a concrete failing input
        if broken and not concrete and not self.replay:
            self.say("[S] a proof obligation or correspondence broke; searching the implementation for a failing input ...")
            kf = load_known(self.id)
            for st in self.spec.get("streams", []):
                if "search_args" not in st:
                    continue
                res = self.run_stream(st, extra_args=st["search_args"], tag="-search")
                if res is None:
                    continue
                summ, mism = res
                before = len(self.failures)
                self.account(st, summ, [], kf, search=True)
                concrete = [f for f in self.failures if f["kind"] == "impl-oracle"]
                if concrete:
                    break
        for f in self.findings[:1] + []:
            pass
        seen_keys = set()
        for f in self.findings:
            if f["key"] not in seen_keys:
                seen_keys.add(f["key"])
                print("KNOWN-FINDING: property=%s %s (%s)" % (self.id, f["key"], f["what"]), flush=True)
        viol = 0
        rc = 0
        if self.failures:
            rc = 1
            os.makedirs(os.path.join(ROOT, "replays"), exist_ok=True)
            if concrete:
                f = concrete[0]
                viol = len(concrete)
                path = os.path.join(ROOT, "replays", "%s-%s-seed%d.json" % (self.id, self.tier, self.seed))
                json.dump({"property": self.id, "kind": "failing-input", "what": f["what"], "stream": f.get("stream"),
                           "case": f.get("case"), "also_broken": [b["what"] for b in broken][:5],
                           "replay_cmd": "bin/check %s --replay %s" % (self.id, path)}, open(path, "w"), indent=1)
                print("VIOLATION property=%s replay=%s" % (self.id, path), flush=True)
            else:
                f = broken[0]
                viol = len(broken)
                path = os.path.join(ROOT, "replays", "%s-%s-seed%d-broken.json" % (self.id, self.tier, self.seed))
                json.dump({"property": self.id, "kind": "no-failing-input-found", "broken": f.get("broken"), "what": f["what"],
                           "first_disagreeing_case": f.get("case"), "model_says": f.get("model_says"), "stream": f.get("stream"),
                           "detail": f.get("detail"), "all": [b["what"] for b in broken][:10]}, open(path, "w"), indent=1)
                print("VIOLATION property=%s replay=%s no-failing-input-found" % (self.id, path), flush=True)
        self.write_evidence(wall, viol)
        shutil.rmtree(self.work, ignore_errors=True)
        return rc

    def write_evidence(self, wall, viol):
        c = self.cov
        if not c["samples"]:
            c["samples"] = [{"theorems": c["theorems"]}]
        cov = {
            "obligations": c["obligations"], "discharged": c["discharged"],
            "checker_cmd": "bin/coqbuild %s  (coqc 8.16.1, full .vo build; Print Assumptions parsed per theorem)%s" % (
                self.spec["props_file"][:-2] + ".vo", "; coqchk -silent -o" if self.tier == "thorough" else ""),
            "trusted_base": self.spec.get("trusted_base", []),
            "theorems": c["theorems"], "axioms_per_theorem": c["axioms"],
            "evaluations": c["evaluations"], "distinct_nontrivial": c["distinct_nontrivial"],
            "rule": c["rule"], "samples": c["samples"][:6],
            "streams": c["streams"], "histograms": c["histograms"],
            "model_mismatches": c["model_mismatches"], "impl_oracle_violations": c["impl_oracle_violations"],
            "known_findings_seen": sorted(set(f["key"] for f in self.findings)),
            "repo": REPO,
        }
        if "coqchk" in c:
            cov["coqchk"] = c["coqchk"]
        ev = {"property_id": self.id, "tier": self.tier, "seed": self.seed, "level": "proof", "coverage": cov,
              "assumptions": self.spec.get("assumptions", []), "wall_s": round(wall, 1), "violations": viol}
        os.makedirs(os.path.join(ROOT, "evidence"), exist_ok=True)
        json.dump(ev, open(os.path.join(ROOT, "evidence", "%s.json" % self.id), "w"), indent=1)


def load_known(pid):
    p = os.path.join(ROOT, "known_findings.json")
    if not os.path.exists(p):
        return {}
    d = json.load(open(p))
    return {f["key"]: f for f in d.get("findings", []) if f.get("property") == pid and f.get("status") == "known"}


def main(argv):
    import importlib.util
    if len(argv) < 2:
        print("usage: check <Cxx> [--tier quick|thorough] [--replay file]"); return 2
    pid = argv[1]
    tier = os.environ.get("VERIF_TIER", "quick")
    replay = None
    i = 2
    while i < len(argv):
        if argv[i] == "--tier":
            tier = argv[i + 1]; i += 2
        elif argv[i] == "--replay":
            replay = {"file": os.path.abspath(argv[i + 1])}; i += 2
        else:
            i += 1
    if tier not in ("quick", "thorough"):
        tier = "quick"
    seed = int(os.environ.get("VERIF_SEED", "1") or 1)
    spec_path = os.path.join(ROOT, "checks", pid + ".py")
    sp = importlib.util.spec_from_file_location("chk_" + pid, spec_path)
    mod = importlib.util.module_from_spec(sp); sp.loader.exec_module(mod)
    spec = mod.SPEC
    if replay:
        try:
            rj = json.load(open(replay["file"]))
            if rj.get("stream"):
                spec = dict(spec); spec["streams"] = [s for s in spec["streams"] if s["name"] == rj["stream"]] or spec["streams"]
            if rj.get("kind") == "no-failing-input-found" and not rj.get("first_disagreeing_case"):
                replay = None   # a broken theorem: replay = re-run the proofs
            elif "case" not in rj and rj.get("first_disagreeing_case") is not None:
                tmp = replay["file"] + ".case.json"
                json.dump(rj["first_disagreeing_case"], open(tmp, "w")); replay = {"file": tmp}
            elif isinstance(rj.get("case"), dict):
                tmp = replay["file"] + ".case.json"
                json.dump(rj["case"], open(tmp, "w")); replay = {"file": tmp}
        except Exception:
            pass
    run = Run(spec, tier, seed, replay)
    run.say("== check %s tier=%s seed=%d repo=%s" % (pid, tier, seed, REPO))
    run.gen()
    run.proofs()
    if tier == "thorough" and not replay and not os.environ.get("VERIF_NO_COQCHK"):
        run.coqchk()
    if hasattr(mod, "pre_streams"):
        mod.pre_streams(run)
    run.streams()
    if hasattr(mod, "post_streams"):
        mod.post_streams(run)
    return run.finish()
