# sourced by the scripts in bin/
export VERIF_ROOT="${VERIF_ROOT:-$(cd "$(dirname "${BASH_SOURCE[0]}")/.." && pwd)}"
export VERIF_REPO="${VERIF_REPO:-/repo}"
GO_TC=$(ls -d /root/go/pkg/mod/golang.org/toolchain@v0.0.1-go1.26.3.linux-amd64/bin/go 2>/dev/null | head -1)
export GO="${GO_TC:-go}"
export GOFLAGS=-mod=mod GOPROXY=off GOSUMDB=off GOTOOLCHAIN=local
export CARGO_NET_OFFLINE=true PIP_NO_INDEX=1
